"""L3 harness: the REAL halmos end to end (`python -m halmos --root P ...`) on a fabricated
forge project (no forge / solc in the sandbox).

* `Contract` / `Project`: fabricate `out/<Name>.sol/<Name>.json` artifacts (abi, bytecode,
  deployedBytecode, methodIdentifiers, metadata, ast) for hand-assembled contracts and a stub
  `forge` (exit 0) that is put first on PATH.  Projects live under tempfile.mkdtemp() and are
  removed by `Project.cleanup()` (or the context manager).
* `dispatcher(funcs)`: selector dispatch prologue for harness/asm.py programs.
* `Project.run(options)`: runs halmos in a subprocess and returns a `Result`: per-test status
  ([PASS]/[FAIL]/[ERROR]/[TIMEOUT]), paths, bounds, warnings (LOOP_BOUND, 'incomplete execution',
  INTERNAL_ERROR, REVERT_ALL, ...), counterexamples, the json TestResult records and exit code.
* `abi_encode(types, values)`: canonical ABI encoding of concrete arguments (what `forge test`
  would send) for the type subset used by the generators.
* reference-side helpers: `ref_world(...)`, `ref_call(...)` run the same bytes on the extracted
  reference interpreter (harness/refevm.py) from the post-setUp state.
"""
import json
import os
import re
import shutil
import subprocess
import tempfile
from pathlib import Path

from eth_hash.auto import keccak

from harness import common
from harness.asm import assemble, creation_code

HEVM = 0x7109709ECFA91A80626FF3989D68F67F5B1DD12D
FOUNDRY_TEST = 0x7FA9385BE102AC3EAC297483DD6233D62B3E1496
FOUNDRY_CALLER = 0x1804C8AB1F12E6BBF3894D4083F33E07309D1F38
FOUNDRY_ORIGIN = FOUNDRY_CALLER
TEST_BALANCE = 0xFFFFFFFFFFFFFFFFFFFFFFFF
PANIC_SELECTOR = 0x4E487B71
FAILED_SLOT = int.from_bytes(b"failed".ljust(32, b"\0"), "big")
FAIL_PAYLOAD = bytes.fromhex("70ca10bb") + HEVM.to_bytes(32, "big") + FAILED_SLOT.to_bytes(32, "big") + (1).to_bytes(32, "big")
M256 = (1 << 256) - 1


def selector(sig: str) -> bytes:
    return keccak(sig.encode())[:4]


def sel_int(sig: str) -> int:
    return int.from_bytes(selector(sig), "big")


def dispatcher(funcs):
    """funcs: list of (signature, label).  Leaves the selector on the stack at the label
    (each body starts with POP if it does not need it).  Unknown selector -> REVERT(0,0)."""
    items = ["PUSH0", "CALLDATALOAD", ("push", 0xE0), "SHR"]
    for sig, lab in funcs:
        items += ["DUP1", ("pushn", 4, sel_int(sig)), "EQ", ("ref", lab), "JUMPI"]
    return items + ["PUSH0", "PUSH0", "REVERT"]


# ----------------------------------------------------------------------------- code snippets

def panic_items(code):
    """revert with Panic(code) -- 36 bytes at memory 0 (code: int, or list of items leaving the code on the stack)"""
    push_code = [("push", code)] if isinstance(code, int) else list(code)
    return [("pushn", 32, PANIC_SELECTOR << 224), "PUSH0", "MSTORE"] + push_code + [("push", 4), "MSTORE", ("push", 0x24), "PUSH0", "REVERT"]


def revert_raw_items(data: bytes):
    """revert with the given constant bytes"""
    items = []
    for off in range(0, len(data), 32):
        chunk = data[off:off + 32].ljust(32, b"\0")
        items += [("pushn", 32, int.from_bytes(chunk, "big")), ("push", off), "MSTORE"]
    return items + [("push", len(data)), "PUSH0", "REVERT"]


def hevm_fail_items():
    """DSTest.fail(): CALL vm.store(HEVM_ADDRESS, "failed", 1); the result flag is dropped"""
    items = []
    payload = FAIL_PAYLOAD.ljust(128, b"\0")
    for off in range(0, 128, 32):
        items += [("pushn", 32, int.from_bytes(payload[off:off + 32], "big")), ("push", off), "MSTORE"]
    # CALL(gas, to, value, argsOffset, argsSize, retOffset, retSize)
    items += ["PUSH0", "PUSH0", ("push", len(FAIL_PAYLOAD)), "PUSH0", "PUSH0", ("pushn", 20, HEVM), ("pushn", 3, 0xFFFFFF), "CALL", "POP"]  # (GAS is outside the reference subset)
    return items


# ----------------------------------------------------------------------------- ABI encoding (concrete)

def is_dynamic(t):
    return t in ("bytes", "string") or t.endswith("[]")


def abi_encode(types, values):
    """canonical ABI encoding of a tuple of (uintN | intN | bool | address | bytesN | bytes | string | T[] with static T)"""
    heads, tails = [], []
    head_size = 32 * len(types)
    for t, v in zip(types, values):
        if t in ("bytes", "string"):
            v = bytes(v)
            enc = len(v).to_bytes(32, "big") + v.ljust((len(v) + 31) // 32 * 32, b"\0")
        elif t.endswith("[]"):
            enc = len(v).to_bytes(32, "big") + b"".join((x & M256).to_bytes(32, "big") for x in v)
        else:
            heads.append((int(v) & M256).to_bytes(32, "big"))
            continue
        heads.append((head_size + sum(len(x) for x in tails)).to_bytes(32, "big"))
        tails.append(enc)
    return b"".join(heads) + b"".join(tails)


def halmos_layout_encode(types, values, max_sizes):
    """the (non-canonical) ABI encoding halmos' symbolic calldata stands for: every dynamic
    parameter occupies the room of its LARGEST size candidate; unused room is zero here.
    max_sizes: {index: max size candidate}"""
    heads, tails = [], []
    head_size = 32 * len(types)
    for i, (t, v) in enumerate(zip(types, values)):
        if t in ("bytes", "string"):
            v = bytes(v)
            room = (max_sizes[i] + 31) // 32 * 32
            enc = len(v).to_bytes(32, "big") + v.ljust(room, b"\0")
        elif t.endswith("[]"):
            enc = len(v).to_bytes(32, "big") + b"".join((x & M256).to_bytes(32, "big") for x in v) + b"\0" * (32 * (max_sizes[i] - len(v)))
        else:
            heads.append((int(v) & M256).to_bytes(32, "big"))
            continue
        heads.append((head_size + sum(len(x) for x in tails)).to_bytes(32, "big"))
        tails.append(enc)
    return b"".join(heads) + b"".join(tails)


# ----------------------------------------------------------------------------- artifacts

class Contract:
    def __init__(self, name, funcs, runtime, creation=None, path=None, devdoc=None, natspec=None):
        """funcs: list of (name, [abi types], optional [param names]); runtime: bytes"""
        self.name = name
        self.funcs = [(f[0], list(f[1]), list(f[2]) if len(f) > 2 else [f"a{i}" for i in range(len(f[1]))]) for f in funcs]
        self.runtime = bytes(runtime)
        self.creation = bytes(creation) if creation is not None else creation_code(self.runtime)
        self.path = path or f"test/{name}.sol"
        self.devdoc = devdoc or {}
        self.natspec = natspec

    def sigs(self):
        return [f"{n}({','.join(ts)})" for n, ts, _ in self.funcs]

    def artifact(self):
        abi = [{"type": "function", "name": n,
                "inputs": [{"name": nm, "type": t, "internalType": t} for t, nm in zip(ts, names)],
                "outputs": [], "stateMutability": "nonpayable"} for n, ts, names in self.funcs]
        node = {"nodeType": "ContractDefinition", "name": self.name, "contractKind": "contract",
                "abstract": False, "nodes": [], "id": 2}
        if self.natspec:
            node["documentation"] = {"text": self.natspec}
        return {
            "abi": abi,
            "bytecode": {"object": "0x" + self.creation.hex(), "sourceMap": "", "linkReferences": {}},
            "deployedBytecode": {"object": "0x" + self.runtime.hex(), "sourceMap": "", "linkReferences": {}},
            "methodIdentifiers": {s: selector(s).hex() for s in self.sigs()},
            "metadata": {"compiler": {"version": "0.8.26"}, "output": {"devdoc": {"methods": {k: {"custom:halmos": v} for k, v in self.devdoc.items()}}}},
            "ast": {"absolutePath": self.path, "id": 1, "nodeType": "SourceUnit", "nodes": [node]},
            "id": 0,
        }


ANSI_RE = re.compile(r"\x1b\[[0-9;]*m")
STATUS_RE = re.compile(r"^\[(PASS|FAIL|ERROR|TIMEOUT)\] (\S+?\([^)]*\))(?: \(paths: (\d+), .*?bounds: \[(.*)\]\))?\s*$")
WARNING_KINDS = [
    ("loop_bound", "due to the loop unrolling bound"),
    ("incomplete_depth", "incomplete execution due to the specified limit: --depth"),
    ("incomplete_width", "incomplete execution due to the specified limit: --width"),
    ("internal_error", "wiki/warnings#internal-error"),
    ("revert_all", "all paths have been reverted"),
    ("cex_invalid", "Counterexample (potentially invalid)"),
    ("cex_unknown", "wiki/warnings#counterexample-unknown"),
    ("unsupported_opcode", "wiki/warnings#unsupported-opcode"),
    ("setup_failed", "setUp() failed"),
    ("error_log", "ERROR "),
]


class Result:
    def __init__(self, rc, out, err, js, argv):
        out, err = ANSI_RE.sub("", out), ANSI_RE.sub("", err)
        self.rc, self.out, self.err, self.json, self.argv = rc, out, err, js, argv
        self.text = out + "\n" + err
        self.tests = {}  # sig -> dict(status, paths, bounds)
        for ln in out.splitlines():
            m = STATUS_RE.match(ln.strip())
            if m:
                self.tests[m.group(2)] = {"status": m.group(1), "paths": int(m.group(3)) if m.group(3) else None, "bounds": m.group(4)}
        self.warnings = sorted({k for k, needle in WARNING_KINDS if needle in self.text})
        self.counterexamples = re.findall(r"Counterexample[^\n]*:\s*\n((?:\s+\S+ = \S+\n?)*)", out)
        self.records = {}
        if js:
            for _, lst in (js.get("test_results") or {}).items():
                for r in lst:
                    self.records[r["name"]] = r

    def status(self, sig):
        t = self.tests.get(sig)
        return t["status"] if t else None

    def warned(self, *kinds):
        return any(k in self.warnings for k in kinds)

    def clean_pass(self, sig):
        """[PASS] and no warning of any kind anywhere in the output"""
        return self.status(sig) == "PASS" and not self.warnings

    def brief(self):
        return {"rc": self.rc, "tests": self.tests, "warnings": self.warnings,
                "records": {k: {x: v.get(x) for x in ("exitcode", "num_models", "num_paths", "num_bounded_loops")} for k, v in self.records.items()}}

    def cex_values(self):
        """{symbol name without uid: int} of the first printed counterexample"""
        vals = {}
        m = re.search(r"Counterexample:\s*\n((?:\s+\S+ = \S+\n?)+)", self.out)
        if not m:
            return None if "Counterexample: ∅" not in self.out else {}
        for ln in m.group(1).splitlines():
            k, _, v = ln.strip().partition(" = ")
            k = re.sub(r"_[0-9a-f]{7}_\d+$", "", k)
            try:
                vals[k] = int(v, 16)
            except ValueError:
                vals[k] = v
        return vals


class Project:
    def __init__(self, contracts, base=None):
        """base: parent directory for the project (default: the system temp dir)"""
        self.contracts = list(contracts)
        self.dir = Path(tempfile.mkdtemp(prefix="verif_l3_", dir=base))
        self._write()

    def _write(self):
        for c in self.contracts:
            d = self.dir / "out" / f"{c.name}.sol"
            d.mkdir(parents=True, exist_ok=True)
            (d / f"{c.name}.json").write_text(json.dumps(c.artifact()))
        b = self.dir / "stubbin"
        b.mkdir(exist_ok=True)
        f = b / "forge"
        f.write_text("#!/bin/sh\nexit 0\n")
        f.chmod(0o755)
        (self.dir / "foundry.toml").write_text("[profile.default]\n")

    def run(self, options=(), timeout=120):
        js = self.dir / "result.json"
        if js.exists():
            js.unlink()
        argv = ["--root", str(self.dir), "--json-output", str(js), "--no-status", *map(str, options)]
        env = dict(os.environ)
        env["PATH"] = f"{self.dir / 'stubbin'}:/venv/bin:" + env.get("PATH", "")
        env["PYTHONPATH"] = str(common.REPO / "src")
        env["PYTHONHASHSEED"] = "0"
        env["COLUMNS"] = "100000"
        env["NO_COLOR"] = "1"
        env["TERM"] = "dumb"
        env["HOME"] = str(self.dir)  # solver cache etc. never touches the real home
        try:
            p = subprocess.run([common.PY, "-m", "halmos", *argv], cwd=self.dir, env=env, capture_output=True, text=True, timeout=timeout)
            rc, out, err = p.returncode, p.stdout, p.stderr
        except subprocess.TimeoutExpired as e:
            rc = -9
            out = (e.stdout or b"").decode(errors="replace") if isinstance(e.stdout, bytes) else (e.stdout or "")
            err = "HARNESS-TIMEOUT"
        data = None
        if js.exists():
            try:
                data = json.loads(js.read_text())
            except Exception:  # noqa: BLE001
                data = None
        return Result(rc, out, err, data, argv)

    def cleanup(self):
        shutil.rmtree(self.dir, ignore_errors=True)

    def __enter__(self):
        return self

    def __exit__(self, *a):
        self.cleanup()


# ----------------------------------------------------------------------------- worker pool for L3 runs

def _file_worker(arg):
    import importlib

    mod, name, task, out = arg
    res = getattr(importlib.import_module(mod), name)(task)
    with open(out + ".tmp", "w") as f:
        json.dump(res, f)
    os.rename(out + ".tmp", out)
    return True


def run_pool(fn, tasks, timeout=150, total_timeout=None, workers=None):
    """harness/pool.run_tasks for L3 workers: `fn` (module-level, JSON-able result) gets each task
    dict extended with "_base" (a scratch directory removed afterwards: create projects with
    Project(..., base=task["_base"])).  Results travel through files, so that killing a worker on
    timeout can never leave a half-written message in the shared result queue.
    -> list of (status, value) like pool.run_tasks"""
    from harness import pool

    base = tempfile.mkdtemp(prefix="verif_l3pool_")
    try:
        args = [(fn.__module__, fn.__name__, dict(t, _base=base), os.path.join(base, f"result{i}.json")) for i, t in enumerate(tasks)]
        res = pool.run_tasks(_file_worker, args, timeout=timeout, workers=workers, total_timeout=total_timeout)
        out = []
        for (st, val), a in zip(res, args):
            if st == "ok":
                try:
                    with open(a[3]) as f:
                        out.append(("ok", json.load(f)))
                except Exception as e:  # noqa: BLE001
                    out.append(("exc", f"result file unreadable: {e}"))
            else:
                out.append((st, val))
        return out
    finally:
        shutil.rmtree(base, ignore_errors=True)


# ----------------------------------------------------------------------------- reference side

# code given to the hevm address on the reference side: vm.store(HEVM, slot, val) -> SSTORE(slot, val)
HEVM_REF_CODE = assemble([("push", 0x44), "CALLDATALOAD", ("push", 0x24), "CALLDATALOAD", "SSTORE", "STOP"])


def ref_accounts(test_runtime: bytes, storage=None, extra=None):
    acc = {
        FOUNDRY_TEST: {"balance": TEST_BALANCE, "code": test_runtime, "storage": dict(storage or {})},
        HEVM: {"balance": 0, "code": HEVM_REF_CODE, "storage": {}},
    }
    for a, v in (extra or {}).items():
        acc[a] = v
    return acc


def ref_msg(data: bytes, this=FOUNDRY_TEST, caller=FOUNDRY_CALLER, origin=FOUNDRY_ORIGIN, value=0):
    return {"this": this, "caller": caller, "origin": origin, "value": value, "data": data}


def classify_ref(res, codes):
    """-> 'panic:<k>' (k in codes, or codes empty = any) | 'fail' | 'ok' | 'revert' | 'halt' | other status
    codes: set of ints (empty set = every code counts)"""
    st = res.get("status")
    if st == "revert":
        d = res.get("ret", b"")
        if len(d) == 36 and d[:4] == PANIC_SELECTOR.to_bytes(4, "big"):
            k = int.from_bytes(d[4:], "big")
            if not codes or k in codes:
                return f"panic:{k}"
        return "revert"
    if st == "ok":
        w = res.get("world", {})
        if (w.get("storage", {}).get(HEVM) or {}).get(FAILED_SLOT, 0) == 1:
            return "fail"
        return "ok"
    return st


def accounts_after(res, before):
    """world after a successful reference run -> accounts dict usable as the next pre-state"""
    w = res["world"]
    addrs = set(before) | set(w["code"]) | set(w["storage"]) | set(w["balance"])
    out = {}
    for a in addrs:
        code = w["code"].get(a, (before.get(a) or {}).get("code"))
        out[a] = {"balance": w["balance"].get(a, (before.get(a) or {}).get("balance", 0)),
                  "code": code, "storage": dict(w["storage"].get(a, {}))}
    return out
