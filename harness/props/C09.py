"""C09 — message calls are atomic and see the right context.

Obligations: translators T-opcodes, T-consts, T-callmsg (the decision logic of SEVM.call /
create / transfer_value / handle_insufficient_fund_case / copy_returndata_to_memory /
Exec.returndata regenerated into coq/Gen/GenCallMsg.v), Props/C09.vo (refinement of the
call-tree specification by the halmos call model on every script tree; atomicity,
conservation, static context; the three situations repaired in sevm.py at full strength; one
`_refuted` witness (depth limit)), lint.

Tie X-C09 (L2): generated call trees (all call kinds x outcomes, symbolic and concrete
values, re-entrancy, creations, calls of account-less addresses, forks on symbolic input
words -- in particular callees with several failing paths followed by caller writes) are compiled into a pool of
dispatcher contracts and run through the REAL SEVM; for every concrete input and every
reported path holding under it:
   halmos  vs extracted call model (result paths as a set, end kind, return data, storage
           read back, balances, code, and the whole CallContext trace tree: every frame's
           target / caller / origin / value / static / depth and output)   -> broken-tie
   halmos  vs extracted reference EVM interpreter on the same bytecode       -> failing-input
   extracted call-tree spec vs reference interpreter (keeps the spec honest) -> broken-tie
"""
import json
import os

from harness import c09_lib, common, pool

PID = "C09"
TRANSLATORS = ["T-opcodes", "T-consts", "T-callmsg"]

# Genuine defects of halmos re-derived by this check on the unchanged tree (same format as
# known_findings.json entries; the coordinator decides between a fix: commit and that file).
KNOWN = common.known_for("C09")  # entries live in /verif/known_findings.json

ASSUMPTIONS = [
    "one concrete valuation at a time: a path split of the Python is modelled as the list of reported paths whose constraints hold under the valuation; z3 feasibility answers are taken as exact for the insufficient-funds split (C02 covers `unknown`)",
    "no prank is active (Exec.resolve_prank returns (this, origin)); pranks are C14",
    "balances are non-negative and bounded by MAX_ETH so that credits do not wrap (halmos adds balance <= MAX_ETH to the path on every balance read); a transfer of a symbolic value that evaluates to 0 writes the old balances back (the model leaves the map untouched)",
    "Python aliasing between ex.storage / sub_ex.storage / the orig_* copies is modelled as state passing; the translator pins that backups are copies, that sub_ex receives ex.<field>, and which fields the callbacks restore; an aliasing slip elsewhere is visible to the correspondence run only",
    "frame scripts abstract callee code: what a frame does is a script (stores, observations, calls, creates, RETURNDATACOPY, ending); memory other than the observation buffer / return area, gas, CREATE2, precompiles, cheatcode addresses, SELFDESTRUCT are outside the model",
    "the reference interpreter Spec/Evm.v is the EVM oracle of the project (no second EVM implementation in the sandbox); the extracted model / spec / interpreter and the OCaml driver are faithful to the Coq definitions",
]
PARTIAL = ("C09_refines holds under `clean`: the specified run does not call an account-less address at the depth limit (C09_depth_nocode_refuted exhibits the deviation; "
           "it is reachable only by 1024 nested frames and is exercised in the thorough tier only).")


def install_known():
    """the entries of this property live in known_findings.json (read by Report.finish); nothing to merge"""
    return


CORPUS = [
    # (fixed fea28af) static frame, value-bearing CALL: must halt the static frame
    (["call", "STATICCALL", 0x1000, ["c", 0], 32,
      ["call", "CALL", 0x2000, ["c", 1], 0, ["end", "return", 3], ["observe", 0, ["end", "return", 4]]],
      ["observe", 0, ["end", "return", 5]]], False),
    # (fixed 91e78e2) CALLCODE with a symbolic value: no succeeding path when value > balance
    (["call", "CALLCODE", 0x1000, ["a", 0], 32, ["sstore", ["c", 1], ["c", 9], ["end", "return", 3]], ["observe", 1, ["end", "return", 4]]], False),
    # (fixed 4f2dd83) RETURNDATACOPY size 0 beyond the data: must halt
    (["call", "CALL", 0x1000, ["c", 0], 0, ["end", "stop", 0], ["retcopy", 1, 0, ["end", "return", 4]]], False),
    # rollback of nested effects: CALL -> (sstore, DELEGATECALL that reverts after a store, CALL that succeeds) -> revert
    (["sstore", ["c", 0], ["c", 7],
      ["call", "CALL", 0x1000, ["a", 0], 64,
       ["sstore", ["c", 1], ["c", 11],
        ["call", "DELEGATECALL", 0x2000, ["c", 0], 32, ["sstore", ["c", 2], ["c", 22], ["tstore", ["c", 0], ["c", 5], ["end", "revert", 9]]],
         ["call", "CALL", 0x3000, ["c", 1], 32, ["sstore", ["c", 0], ["c", 33], ["observe", 0, ["end", "return", 8]]],
          ["observe", 2, ["end", "revert", 6]]]]],
       ["observe", 0, ["end", "return", 1]]]], False),
    # re-entrancy with value, creation that fails / succeeds
    (["call", "CALL", 0x1000, ["c", 5], 320,
      ["call", "CALL", c09_lib.THIS, ["c", 2], 32, ["sstore", ["c", 3], ["c", 1], ["observe", 3, ["end", "return", 2]]], ["observe", 0, ["end", "return", 3]]],
      ["create", ["c", 1], ["sstore", ["c", 0], ["c", 7], ["end", "revert", 0]],
       ["create", ["a", 1], ["sstore", ["c", 0], ["c", 8], ["end", "return", 0]], ["observe", 0, ["end", "return", 4]]]]], False),
    # the static flag is inherited: STATICCALL -> CALL (no value) -> SSTORE / TSTORE / LOG / CREATE must fail
    (["call", "STATICCALL", 0x1000, ["c", 0], 320,
      ["call", "CALL", 0x2000, ["c", 0], 32, ["sstore", ["c", 0], ["c", 1], ["end", "return", 2]],
       ["call", "DELEGATECALL", 0x3000, ["c", 0], 32, ["log", ["end", "return", 3]],
        ["call", "CALLCODE", 0x2000, ["c", 0], 32, ["create", ["c", 0], ["end", "return", 0], ["end", "return", 4]], ["end", "return", 5]]]],
      ["observe", 0, ["end", "return", 6]]], False),
    # context per call scheme: DELEGATECALL keeps sender and value, CALLCODE keeps the address; both write the caller's storage
    (["call", "CALL", 0x1000, ["c", 3], 1088,
      ["call", "DELEGATECALL", 0x2000, ["c", 0], 320, ["observe", 0, ["sstore", ["c", 1], ["c", 5], ["end", "return", 2]]],
       ["call", "CALLCODE", 0x3000, ["c", 2], 320, ["observe", 1, ["sstore", ["c", 2], ["c", 6], ["end", "return", 3]]],
        ["observe", 1, ["end", "return", 4]]]],
      ["observe", 0, ["end", "return", 5]]], False),
    # exact-balance boundary: value == balance must succeed, value == balance + 1 must fail
    (["call", "CALL", 0x1000, ["a", 0], 32, ["observe", 0, ["end", "return", 2]],
      ["create", ["a", 1], ["end", "return", 0], ["observe", 0, ["end", "return", 3]]]], False),
    # top-level static frame
    (["observe", 0, ["call", "CALL", 0x1000, ["c", 0], 32, ["sstore", ["c", 0], ["c", 1], ["end", "return", 2]], ["observe", 0, ["end", "return", 3]]]], True),
    # a callee with two failing paths (fork on an input word); the caller reads, writes and reads
    # again after the failed call: the rollback of one path must not see the other path's writes
    (["sstore", ["c", 0], ["c", 3],
      ["call", "CALL", 0x1000, ["c", 0], 32,
       ["if", ["a", 0], ["sstore", ["c", 0], ["c", 5], ["end", "revert", 21]], ["tstore", ["c", 1], ["c", 6], ["end", "invalid", 22]]],
       ["observe", 0, ["sstore", ["c", 0], ["c", 7], ["tstore", ["c", 0], ["c", 8], ["observe", 0, ["end", "return", 23]]]]]]], False),
    (["call", "DELEGATECALL", 0x2000, ["c", 0], 64,
       ["if", ["a", 1], ["sstore", ["c", 1], ["c", 5], ["end", "revert", 31]],
        ["if", ["a", 0], ["end", "invalid", 32], ["sstore", ["c", 1], ["c", 9], ["end", "revert", 33]]]],
       ["observe", 1, ["sstore", ["c", 1], ["c", 7],
        ["call", "CALL", 0x1000, ["c", 0], 32, ["if", ["a", 0], ["end", "revert", 34], ["end", "invalid", 35]],
         ["observe", 1, ["end", "return", 36]]]]]], False),
    # value == balance exactly (boundary inputs), constant value: exactly one, succeeding, path -- CALL / CALLCODE / CREATE
    (["call", "CALL", 0x1000, ["c", 1000], 32, ["observe", 0, ["end", "return", 2]], ["observe", 0, ["end", "return", 4]]], False),
    (["call", "CALLCODE", 0x2000, ["c", 5], 32, ["observe", 0, ["end", "return", 3]], ["observe", 0, ["end", "return", 4]]], False),
    (["create", ["c", 5], ["end", "return", 0], ["observe", 0, ["end", "return", 4]]], False),
    # calls of an address without account, with value
    (["call", "CALL", c09_lib.NOACC, ["a", 0], 32, ["end", "stop", 0],
      ["call", "STATICCALL", c09_lib.NOACC, ["c", 0], 0, ["end", "stop", 0], ["observe", 0, ["end", "return", 3]]]], False),
]


def depth_case(_task):
    """the fourth marked situation needs 1024 nested frames: a contract that calls an
    account-less address, then itself; the deepest frame reports the first status word"""
    import sys

    from harness import asm, engine, l2tie, refevm, scenarios

    sys.setrecursionlimit(1000000)
    a, noacc, gas = 0x1000, c09_lib.NOACC, 100000
    a_code = asm.assemble([
        "PUSH0", "PUSH0", "PUSH0", "PUSH0", "PUSH0", ("push", noacc), ("push", gas), "CALL",
        ("push", 32), "PUSH0", "PUSH0", "PUSH0", "PUSH0", ("push", a), ("push", gas), "CALL",
        ("ref", "done"), "JUMPI",
        ("push", 2), "ADD", "PUSH0", "MSTORE", ("push", 32), "PUSH0", "RETURN",
        ("label", "done"), "POP", ("push", 32), "PUSH0", "RETURN"])
    top = asm.assemble([("push", 32), "PUSH0", "PUSH0", "PUSH0", "PUSH0", ("push", a), ("push", gas), "CALL", "POP", ("push", 32), "PUSH0", "RETURN"])
    scn = {"profile": "depth", "accounts": {scenarios.THIS: {"code": top}, a: {"code": a_code}}, "this": scenarios.THIS,
           "calldata": [("c", bytes(4))], "static": False, "options": {}}
    inp = {"caller": 0xBEEF, "origin": 0xBEEF, "value": 0, "args": {}, "balances": {}}
    ref = refevm.run_many([l2tie.ref_case(scn, inp)], fuel=200000)[0]
    paths, flags = engine.run_scenario(scn)
    out = {"reference": ref["status"] + ":" + ref.get("ret", b"").hex(), "halmos": [], "programs": {"top": top.hex(), hex(a): a_code.hex()}, "flags": {k: v for k, v in flags.items() if k != "output"}}
    for p in paths:
        ok, ev = p.holds(inp)
        if ok:
            out["halmos"].append(p.kind + ":" + (p.ret_bytes(ev).hex() if p.kind in ("ok", "revert") else ""))
    return out


def gen_trees(tier, r):
    trees = list(CORPUS)
    n = 22 if tier == "quick" else 900
    maxd = 3 if tier == "quick" else 4
    for _ in range(8 if tier == "quick" else 300):
        trees.append((c09_lib.gen_callfail(r), False))
    n += len(trees) - len(CORPUS)
    while len(trees) < n + len(CORPUS):
        d = r.choice([1, 2, 2, 3, 3] if maxd == 3 else [1, 2, 3, 3, 4, 4])
        t = c09_lib.gen_script(r, d)
        st = c09_lib.tree_stats(t)
        if st["calls"] + st["creates"] == 0:
            continue
        if st["nodes"] > (40 if tier == "quick" else 70):
            continue
        trees.append((t, r.random() < 0.08))
    return trees


def defect_of(f):
    marks = f.get("markers") or []
    return ",".join(marks) if marks else "none"


def run(rep, tier):
    install_known()
    b = common.build_property(PID, TRANSLATORS)
    common.standard_obligations(rep, PID, b)
    # the extracted model / spec do not depend on the proofs: when a theorem no longer checks
    # (e.g. the regenerated decision logic changed) the correspondence run still searches for
    # a concrete failing input
    exe, log = common.build_driver(PID)
    rep.obligation("extraction of Model/CallModel.v + Spec/CallSpec.v entry points + OCaml driver build", exe is not None, "" if exe else log[-800:])
    if exe is None:
        rep.fail("broken-tie", "extracted model/spec driver does not build; correspondence run skipped: " + log[-300:], case={})
        return finish(rep, tier)
    from harness import refevm

    try:
        refevm.driver()
    except RuntimeError as e:
        rep.obligation("extracted reference interpreter driver builds", False, str(e)[-600:])
        rep.fail("broken-tie", f"reference interpreter driver does not build: {str(e)[-300:]}", case={})
        return finish(rep, tier)
    r = common.rng(PID)
    trees = gen_trees(tier, r)
    seed0 = common.seed() % 100000
    tasks = [(seed0 + i, t, st, 3 if tier == "quick" else 5) for i, (t, st) in enumerate(trees)]
    out = pool.run_tasks(c09_lib.check_tree, tasks, timeout=60 if tier == "quick" else 240,
                         total_timeout=60 if tier == "quick" else 1000)
    n_eval = n_model = 0
    for (seed, tree, static, _), (status, res) in zip(tasks, out):
        st = c09_lib.tree_stats(tree)
        rep.count("status", status)
        if status == "timeout":
            continue
        case = {"tree": tree, "static": static, "seed": seed}
        if status != "ok":
            rep.fail("broken-tie", f"C09 harness raised on tree {json.dumps(tree)[:200]}: {str(res)[-600:]}", case=case)
            continue
        rep.count("depth", st["depth"])
        for k in sorted(st["kinds"]):
            rep.count("call_kind", k)
        for k in sorted(st["ends"]):
            rep.count("frame_ending", k)
        rep.count("symbolic_value", st["symbolic_value"])
        rep.count("forks_in_tree", min(st.get("forks", 0), 4))
        rep.count("static_top", static)
        rep.count("halmos_paths", min(res["n_paths"], 12))
        for k, v in res["markers"].items():
            rep.count("inputs_in_marked_situation", k, v)
        rep.count("inputs_clean", "clean", res["clean_inputs"])
        for k, v in res["model_paths"].items():
            rep.count("model_result_paths_per_input", k, v)
        if res["flags"].get("crashed"):
            rep.count("halmos_crash", res["flags"]["crashed"][:80])
            rep.fail("broken-tie", f"SEVM.run raised on call tree {json.dumps(tree)[:200]} where the call model reports results: {res['flags']['crashed'][:300]}", case=case)
        n_eval += res["evaluated"]
        n_model += res["evaluated"]
        rep.case({"tree": tree if len(json.dumps(tree)) < 600 else json.dumps(tree)[:600] + "...", "static": static, "paths": res["n_paths"], "inputs": res["n_inputs"]},
                 nontrivial=res["evaluated"] > 0 and st["calls"] + st["creates"] > 0)
        for f in res["impl_vs_ref"][:3]:
            sig = {"defect": defect_of(f), "what": str(f.get("what"))[:60]}
            rep.fail("failing-input",
                     f"C09: halmos deviates from the EVM on call tree {json.dumps(tree)[:300]} (static={static}) input {ascii(f['input'])[:260]}: {f.get('what')}: halmos={str(f.get('halmos'))[:80]} reference={str(f.get('reference'))[:80]} [situation: {sig['defect']}]",
                     case={**case, "failure": f}, sig=sig)
        for f in res["impl_vs_model"][:3]:
            rep.fail("broken-tie", f"halmos and the call model disagree on call tree {json.dumps(tree)[:300]} (static={static}) input {ascii(f['input'])[:200]}: {f['what'][:300]}", case={**case, "failure": f})
        for f in res["spec_vs_ref"][:3]:
            rep.fail("broken-tie", f"call-tree spec and reference interpreter disagree (harness compiler or spec wrong) on {json.dumps(tree)[:300]}: {f['what'][:300]}", case={**case, "failure": f})
    if tier == "thorough":
        (status, res), = pool.run_tasks(depth_case, [0], timeout=600)
        rep.count("depth_limit_case", status)
        if status == "ok":
            rep.case({"depth_limit_case": res["programs"]}, nontrivial=True)
            if res["halmos"] != [res["reference"]]:
                rep.fail("failing-input", f"C09: a CALL of an account-less address at depth 1024: halmos reports {res['halmos']}, the EVM {res['reference']} (programs {res['programs']})",
                         case={"depth_limit_case": res}, sig={"defect": "depth-nocode", "what": "return data"})
        elif status == "exc":
            rep.fail("broken-tie", f"depth-limit case raised: {str(res)[-400:]}", case={})
    rep.coverage["path_input_evaluations"] = n_eval
    rep.coverage["traces_validated_against_impl"] = n_model
    return finish(rep, tier)


def finish(rep, tier):
    return rep.finish(
        checker_cmd="make -C coq Props/C09.vo (coqc 8.16.1) after regenerating coq/Gen/GenCallMsg.v, GenOpcodes.v, GenConsts.v from /repo/src/halmos/{sevm,contract,constants}.py",
        trusted_base=common.TRUSTED_BASE_COMMON,
        assumptions=ASSUMPTIONS,
        partial=PARTIAL,
        rule="cases = call trees (scripts of stores / transient stores / logs / observations / RETURNDATACOPY / forks on symbolic input words / CALL, CALLCODE, DELEGATECALL, STATICCALL to pool contracts, to the top contract (re-entrancy) or to an account-less address / CREATE, ended by stop / return / revert / invalid; depth <= 3 quick, <= 4 thorough; values and stored words constants or symbolic calldata arguments) compiled into dispatcher contracts; hand-written corpus first, then trees whose callee has >= 2 failing paths and whose caller reads / writes / reads after the failed call, then random trees; per tree: concrete inputs = z3 models of every reported path + boundary perturbations + random inputs (caller, origin, value, arguments, balances); every (reported path, input) pair whose constraints hold is compared with the extracted call model (set of result paths; end kind, return data, storage read back, balances, code, full CallContext trace) and with the reference interpreter; the extracted spec is compared with the reference interpreter on every input. Non-trivial: the tree has a call or create and at least one (path, input) pair was evaluated; distinct by tree hash",
    )


def replay(rep, body):
    install_known()
    common.build_driver(PID)
    for f in body.get("failures", []):
        case = f.get("case") or {}
        if "tree" in case:
            res = c09_lib.check_tree((case.get("seed", 1), case["tree"], case.get("static", False), 3))
            print(json.dumps({k: res[k] for k in ("n_paths", "kinds", "impl_vs_ref", "impl_vs_model", "spec_vs_ref")}, default=str, indent=1)[:6000])
    return 0
