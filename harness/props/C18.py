"""C18 — configuration resolves by precedence and round-trips.

Obligations: T-config / T-config-time / T-config-main, Props/C18.vo, lint.
Ties (real halmos code vs extracted model vs an independent Python rendering of the spec):
  X-stack  : random layer stacks through the real Config / with_overrides / value_with_source /
             attribute reads / resolved_solver_command;
  X-runner : fabricated forge artifacts (natspec + devdoc annotations in every placement), a
             halmos.toml and a command line through the real _main -> run_contract -> run_tests
             (only run_test is replaced by a recorder): effective config per test function;
  X-codec  : strings from the codec grammars + a malformed stream through ParseTimeout /
             ParseErrorCodes / ParseArrayLengths / ParseCSVInt / ParseCSVTraceEvent and
             TomlParser.parse_dict; unparse/parse round trips of every parsed value;
  X-natspec: NatSpec texts (tags of every kind, decoys, lonely '@', every white space) through the
             real build.parse_natspec, the extracted model and an independent scanner;
  X-float  : binary64 values given directly (not through a string): specials, subnormals,
             whole and near-whole milliseconds, values whose product with 1000 rounds to a whole
             number, huge and negative values through ParseTimeout.unparse / parse, and the float
             library model (float(str), repr(float)) against CPython bit for bit.
"""
import json
import math
import os
import re
import struct
import tempfile
from fractions import Fraction
from multiprocessing import Pool

from harness import common
from harness.common import Model

PID = "C18"
TRANSLATORS = ["T-config", "T-config-time", "T-config-main", "T-config-natspec"]

# Genuine defects of halmos found by this check (the coordinator decides between a fix: commit
# and known_findings.json).  Same format as known_findings.json entries.
KNOWN = common.known_for("C18")  # entries live in /verif/known_findings.json

ASSUMPTIONS = [
    "Python floats are modelled as IEEE-754 binary64 with round-to-nearest-even (Model/ConfigFloatModel.v): float(str) is the exact decimal value rounded once, repr(float) the shortest string that reads back (closest among the shortest); the model is compared bit for bit with CPython on every generated string and value (no tolerance)",
    "the independent rendering of the documented timeout grammar computes with exact rationals; the implementation's value may differ from it by float rounding: relative 1e-9, or absolute 1e-300 s (subnormal range)",
    "argparse, toml, shlex, re are trusted (the text of an annotation / command line / toml file is turned into option values by them); the model receives the option values",
    "str.isspace / digits are modelled for code points <= 255 (ASCII digits only); float literals with more than 4 exponent digits are outside the model (10^exponent is computed exactly)",
    "lru_cache on Config.__getattribute__ and the frozen dataclass are assumed to make layers immutable (exercised by the tie, not modelled)",
    "the extracted model and driver are faithful to the Coq definitions (extraction is trusted)",
]

PARTIAL = ("codec theorems cover ParseTimeout (unparse returns for every binary64 value and the value survives the round trip), "
           "ParseCSVInt, ParseErrorCodes (both signs), ParseCSVTraceEvent round trips; "
           "ParseArrayLengths: round trip proved for every dictionary parse can return, over the hand-written recogniser of the two regexes (pinned literally), which is tied to re.match/re.findall by correspondence only; "
           "whether 'nan' / 'inf' / a negative number is a well-formed timeout is not decided by the spec rendering (they are accepted by the code, observed and round-tripped)")


def install_known():
    """known_findings.json is a shared file this module must not edit: findings listed in KNOWN
    above are merged into what Report.finish sees (work-around, see final report)."""
    orig = common.known_findings

    def merged():
        kf = orig()
        have = {k.get("id") for k in kf.get("findings", [])}     # `fixed` entries are strings and suppress nothing
        kf = dict(kf)
        kf["findings"] = list(kf.get("findings", [])) + [k for k in KNOWN if k["id"] not in have]
        return kf

    if getattr(common.known_findings, "_c18", False):
        return
    merged._c18 = True
    common.known_findings = merged


# ================================================================= options used by the stack ties

# name -> (model option id, candidate python values, command-line rendering or None)
SOLVER_NAMES = ["yices", "z3", "cvc5", "bitwuzla"]
OPTS = {
    "loop": (1, [0, 1, 2, 3, 7], lambda v: ["--loop", str(v)]),
    "width": (2, [0, 1, 5, 100], lambda v: ["--width", str(v)]),
    "depth": (3, [0, 40, 90], lambda v: ["--depth", str(v)]),
    "invariant_depth": (4, [0, 1, 2, 3], lambda v: ["--invariant-depth", str(v)]),
    "verbose": (5, [0, 1, 2, 3], lambda v: ["-" + "v" * v] if v else None),
    "ffi": (6, [False, True], lambda v: ["--ffi"] if v else None),
    "early_exit": (7, [False, True], lambda v: ["--early-exit"] if v else None),
    "storage_layout": (8, ["solidity", "generic"], lambda v: ["--storage-layout", v]),
    "solver_timeout_assertion": (9, [0.0, 0.001, 1.0, 1.5, 60.0], None),
    "panic_error_codes": (10, [frozenset(), frozenset({1}), frozenset({1, 17})], None),
    "dump_smt_directory": (11, ["", "d1", "d2"], lambda v: ["--dump-smt-directory", v]),
    "smt_exp_by_const": (12, [0, 2, 5], lambda v: ["--smt-exp-by-const", str(v)]),
    "solver": (100, SOLVER_NAMES, lambda v: ["--solver", v]),
    "solver_command": (101, ["", "cmdA", "cmdB -x 1"], lambda v: ["--solver-command", v]),
}
TIMEOUT_TXT = {0.0: "0", 0.001: "1ms", 1.0: "1s", 1.5: "1500ms", 60.0: "1m"}
CODES_TXT = {frozenset(): "*", frozenset({1}): "0x01", frozenset({1, 17}): "1, 0x11"}


def cli_tokens(name, v):
    if name == "solver_timeout_assertion":
        return ["--solver-timeout-assertion", TIMEOUT_TXT[v]]
    if name == "panic_error_codes":
        return ["--panic-error-codes", CODES_TXT[v]]
    return OPTS[name][2](v)


def py_value(name, v):
    return set(v) if isinstance(v, frozenset) else v


class Coder:
    """python value -> model value code, per option (solver_command: '' <-> 0)."""

    def __init__(self):
        self.t = {}

    def code(self, name, v):
        if name == "solver_command":
            if v == "":
                return 0
        key = repr(sorted(v)) if isinstance(v, (set, frozenset)) else repr(v)
        d = self.t.setdefault(name, {})
        if key not in d:
            d[key] = len(d) + 1
        return d[key]


def spec_lookup(layers, name):
    """independent rendering of the property: layers = [(source, {name: value})], index 0 = most
    recent; the winner is maximal in (source, recency) among the layers that set the option."""
    best = None
    for age, (src, vals) in enumerate(layers):
        if name in vals and vals[name] is not None and src > 0:
            key = (src, -age)
            if best is None or key > best[0]:
                best = (key, vals[name], src)
    return (None, 0) if best is None else (best[1], best[2])


def spec_solver(layers):
    cmd, cs = spec_lookup(layers, "solver_command")
    sol, ss = spec_lookup(layers, "solver")
    if cmd is not None and cmd != "" and cs >= ss:
        return ("cmd", cmd)
    return ("solver", sol)


# ----------------------------------------------------------------- X-stack

def gen_stack_cases(tier, r):
    cases = []
    n = 600 if tier == "quick" else 6000
    names = list(OPTS)
    for i in range(n):
        height = r.choice([1, 2, 3, 4, 5, 5, 6]) if i % 7 else r.randint(1, 9)
        base_default = r.random() < 0.4
        layers = []  # oldest first
        for k in range(height):
            src = r.choice([1, 2, 3, 4, 5]) if r.random() < 0.93 else 0
            if i % 5 == 0:
                src = r.choice([2, 2, 3])  # many equal sources
            dens = r.choice([0.1, 0.3, 0.6, 1.0])
            vals = {}
            for nm in names:
                if r.random() < dens or (nm in ("solver", "solver_command") and r.random() < 0.5):
                    vals[nm] = r.choice(OPTS[nm][1])
            layers.append([src, {k2: (sorted(v) if isinstance(v, frozenset) else v) for k2, v in vals.items()}])
        cases.append({"base_default": base_default, "layers": layers})
    # exhaustive grids: every stack up to height H over all sources 1..5 x {set, unset} for one
    # option (distinct value per layer), and every stack up to height H2 over
    # sources x {solver set/unset} x {solver_command unset / '' / 'cmdA'}
    import itertools

    H, H2 = (3, 2) if tier == "quick" else (5, 3)
    for h in range(1, H + 1):
        for combo in itertools.product([(s, b) for s in (1, 2, 3, 4, 5) for b in (0, 1)], repeat=h):
            layers = [[s, ({"loop": k} if b else {})] for k, (s, b) in enumerate(combo)]
            cases.append({"base_default": False, "layers": layers, "grid": "loop"})
    per = [(s, so, c) for s in (1, 2, 3, 4, 5) for so in (None, "z3") for c in (None, "", "cmdA")]
    for h in range(1, H2 + 1):
        for combo in itertools.product(per, repeat=h):
            layers = []
            for s, so, c in combo:
                v = {}
                if so is not None:
                    v["solver"] = so
                if c is not None:
                    v["solver_command"] = c
                layers.append([s, v])
            cases.append({"base_default": False, "layers": layers, "grid": "solver"})
    return cases


def _thaw(name, v):
    return set(v) if name == "panic_error_codes" else v


def impl_stack_case(case):
    import logging

    import halmos.config as hc

    logging.disable(logging.CRITICAL)
    hc.get_solver_command = lambda name: ["SOLVER", repr(name)]
    cfg = hc.default_config() if case["base_default"] else None
    for src, vals in case["layers"]:
        kw = {k: _thaw(k, v) for k, v in vals.items()}
        if cfg is None:
            cfg = hc.Config(_parent=None, _source=hc.ConfigSource(src), **kw)
        else:
            cfg = cfg.with_overrides(hc.ConfigSource(src), **kw)
    out = {}
    for nm in OPTS:
        v, s = cfg.value_with_source(nm)
        a = getattr(cfg, nm)
        a2 = getattr(cfg, nm)  # cached read
        out[nm] = [_freeze(v), int(s), _freeze(a) == _freeze(v) and _freeze(a2) == _freeze(v)]
    try:
        out["__solver__"] = cfg.resolved_solver_command
    except Exception as e:  # noqa: BLE001
        out["__solver__"] = f"EXC {type(e).__name__}"
    return out


def _freeze(v):
    return sorted(v) if isinstance(v, (set, frozenset)) else v


def stack_layers_full(case):
    """layers most recent first, with the default config (all options) at the bottom if used"""
    import halmos.config as hc

    layers = [(s, dict(v)) for s, v in reversed(case["layers"])]
    if case["base_default"]:
        d = hc.default_config()
        layers.append((1, {nm: _freeze(object.__getattribute__(d, nm)) for nm in OPTS}))
    return layers


def model_stack_call(layers, coder):
    qs = [OPTS[nm][0] for nm in OPTS]
    a = [len(qs)] + qs + [len(layers)]
    for src, vals in layers:
        items = [(OPTS[nm][0], coder.code(nm, v)) for nm, v in vals.items() if v is not None]
        a += [src, len(items)] + [x for kv in items for x in kv]
    return ("c18_stack", a)


def decode_observation(res, coder_rev=None):
    """model output -> {name: (is_some, code, src)}, solver choice"""
    out = {}
    names = list(OPTS)
    for i, nm in enumerate(names):
        out[nm] = tuple(res[3 * i:3 * i + 3])
    out["__solver__"] = tuple(res[3 * len(names):3 * len(names) + 2])
    return out


def compare_stack(layers, impl, model_res, coder):
    """returns (spec_problem, model_problem)"""
    sp = mp = None
    for nm in OPTS:
        v, s, reads_ok = impl[nm]
        ev, es = spec_lookup(layers, nm)
        if (v, s) != (_freeze(ev), es):
            sp = sp or {"option": nm, "implementation": [v, s], "spec": [_freeze(ev), es]}
        if not reads_ok:
            sp = sp or {"option": nm, "implementation": "attribute read differs from value_with_source", "spec": [_freeze(ev), es]}
    kind, val = spec_solver(layers)
    import shlex

    want = shlex.split(val) if kind == "cmd" else ["SOLVER", repr(val)]
    if impl["__solver__"] != want:
        sp = sp or {"option": "resolved_solver_command", "implementation": impl["__solver__"], "spec": want}
    if model_res is not None:
        m = decode_observation(model_res)
        for nm in OPTS:
            v, s, _ = impl[nm]
            exp = (0, 0, s) if v is None else (1, coder.code(nm, v), s)
            if tuple(m[nm]) != exp:
                mp = mp or {"option": nm, "implementation": [v, s], "model": list(m[nm])}
        k, c = m["__solver__"]
        if k == 0:
            cmd_by_code = {coder.code("solver_command", x): x for x in OPTS["solver_command"][1]}
            mw = shlex.split(cmd_by_code.get(c, "?"))
        elif k == 1:
            sol_by_code = {coder.code("solver", x): x for x in list(OPTS["solver"][1]) + ["yices"]}
            mw = ["SOLVER", repr(sol_by_code.get(c, "?"))]
        else:
            mw = ["SOLVER", repr(None)]
        if impl["__solver__"] != mw:
            mp = mp or {"option": "resolved_solver_command", "implementation": impl["__solver__"], "model": mw}
    return sp, mp


# ----------------------------------------------------------------- X-runner (fabricated artifacts)

RUNTIME = "00"
CREATION = "6001600c5f3960015ff3" + "0000" + RUNTIME  # copies 1 byte of runtime (STOP); padding keeps offset 12


def render_opts(pairs):
    toks = []
    for nm, v in pairs:
        t = cli_tokens(nm, v)
        if t:
            toks += t
    return toks


def quote(toks):
    import shlex

    return " ".join(shlex.quote(t) for t in toks)


def effective_pairs(pairs):
    """what one argparse run over the rendered tokens sets: last occurrence wins; store_true / count
    flags that render to nothing set nothing"""
    out = {}
    for nm, v in pairs:
        if cli_tokens(nm, v):
            out[nm] = (out.get(nm, 0) + v) if nm == "verbose" else v   # argparse `count` accumulates
    return out


def gen_natspec(r, pairs):
    """natspec text with the halmos options spread over one or several @custom:halmos tags, other
    tags in between (whose text must be ignored); returns (text or None, expected pairs)"""
    if pairs is None:
        style = r.choice(["none", "empty", "othertags", "emptytag"])
        if style == "none":
            return None, None
        if style == "empty":
            return {"text": ""}, None
        if style == "emptytag":
            return {"text": "some title @custom:halmos   \n @notice --loop 9"}, None
        return {"text": "a contract @notice --loop 9 --width 3\n @dev --ffi @custom:halmosx --depth 4 @custom:other --loop 8"}, None
    toks = render_opts(pairs)
    if not toks:
        return {"text": "title only @notice nothing"}, None
    # split the token groups (an option and its value stay adjacent but may be on different lines)
    groups = []
    for nm, v in pairs:
        t = cli_tokens(nm, v)
        if t:
            groups.append(quote(t) if r.random() < 0.7 else "\n   ".join(__import__("shlex").quote(x) for x in t))
    text = r.choice(["", "Some title ", "blah blah "])
    text += "@custom:halmos "
    for g in groups:
        text += g
        c = r.random()
        if c < 0.25:
            text += "\n @custom:halmos "
        elif c < 0.45:
            text += "\n @notice --loop 9 --ffi\n @custom:halmos "
        elif c < 0.6:
            text += "\n   "
        else:
            text += " "
    text += r.choice(["", "\n @dev --width 77", " @author --depth 5 me"])
    return {"text": text}, effective_pairs(pairs)


def gen_pairs(r, names, p=0.35, allow_dup=True):
    pairs = []
    for nm in names:
        if r.random() < p:
            pairs.append((nm, r.choice(OPTS[nm][1])))
            if allow_dup and r.random() < 0.15:
                pairs.append((nm, r.choice(OPTS[nm][1])))
    r.shuffle(pairs)
    return pairs


TOML_OK = [n for n in OPTS if n not in ("verbose",)]


def toml_value(nm, v):
    if nm == "solver_timeout_assertion":
        return json.dumps(TIMEOUT_TXT[v]) if TIMEOUT_TXT[v] != "0" or True else "0"
    if nm == "panic_error_codes":
        return json.dumps(CODES_TXT[v])
    if isinstance(v, bool):
        return "true" if v else "false"
    if isinstance(v, int):
        return str(v)
    return json.dumps(v)


def gen_runner_cases(tier, r):
    cases = []
    n = 36 if tier == "quick" else 400
    names = [nm for nm in OPTS]
    for i in range(n):
        cli = gen_pairs(r, names, p=r.choice([0.1, 0.3, 0.6]))
        toml = None
        if r.random() < 0.6:
            toml = {}
            for nm in TOML_OK:
                if r.random() < 0.35:
                    toml[nm] = r.choice(OPTS[nm][1])
        contracts = []
        for c in range(r.choice([1, 2, 2, 3])):
            cname = f"C{c}Test"
            ns_pairs = gen_pairs(r, names, p=0.3) if r.random() < 0.65 else None
            natspec, ns_eff = gen_natspec(r, ns_pairs)
            fns = []
            for f in range(r.choice([1, 2, 3])):
                sig = f"check_f{f}()"
                dd_pairs = gen_pairs(r, names, p=0.3) if r.random() < 0.6 else None
                dd_text = None
                dd_eff = None
                if dd_pairs is not None:
                    toks = render_opts(dd_pairs)
                    dd_text = quote(toks) if toks else r.choice(["", None])
                    dd_eff = effective_pairs(dd_pairs) if toks else None
                fns.append({"sig": sig, "devdoc": dd_text, "eff": _jsonable(dd_eff)})
            contracts.append({"name": cname, "natspec": natspec, "eff": _jsonable(ns_eff), "fns": fns})
        cases.append({"cli": [[nm, _jv(v)] for nm, v in cli], "toml": _jsonable(toml), "contracts": contracts})
    return cases


def _jv(v):
    return sorted(v) if isinstance(v, frozenset) else v


def _jsonable(d):
    return None if d is None else {k: _jv(v) for k, v in d.items()}


def _unj(nm, v):
    return frozenset(v) if nm == "panic_error_codes" else v


def impl_runner_case(case):
    """writes the project, runs the real halmos._main with run_test replaced by a recorder"""
    import stat

    import logging

    import halmos.__main__ as hm
    import halmos.config as hc

    logging.disable(logging.CRITICAL)
    hc.get_solver_command = lambda name: ["SOLVER", repr(name)]
    recorded = []

    def fake_run_test(ctx):
        cfg = ctx.args
        obs = {}
        for nm in OPTS:
            v, s = cfg.value_with_source(nm)
            obs[nm] = [_freeze(v), int(s), _freeze(getattr(cfg, nm)) == _freeze(v)]
        try:
            obs["__solver__"] = cfg.resolved_solver_command
        except Exception as e:  # noqa: BLE001
            obs["__solver__"] = f"EXC {type(e).__name__}"
        recorded.append([ctx.info.contract_name, ctx.info.sig, obs])
        return hm.TestResult(ctx.info.sig, 0)

    hm.run_test = fake_run_test
    with tempfile.TemporaryDirectory(prefix="c18_") as d:
        os.makedirs(os.path.join(d, "bin"))
        forge = os.path.join(d, "bin", "forge")
        with open(forge, "w") as f:
            f.write("#!/bin/sh\nexit 0\n")
        os.chmod(forge, os.stat(forge).st_mode | stat.S_IEXEC)
        os.environ["PATH"] = os.path.join(d, "bin") + os.pathsep + os.environ.get("PATH", "")
        root = os.path.join(d, "proj")
        for c in case["contracts"]:
            p = os.path.join(root, "out", f"{c['name']}.sol")
            os.makedirs(p)
            methods = {}
            for fn in c["fns"]:
                if fn["devdoc"] is not None:
                    methods[fn["sig"]] = {"custom:halmos": fn["devdoc"]}
                elif fn["sig"].endswith("f1()"):
                    methods[fn["sig"]] = {"details": "--loop 9"}  # devdoc entry without the halmos key
            node = {"nodeType": "ContractDefinition", "name": c["name"], "contractKind": "contract", "abstract": False, "nodes": [], "id": 2}
            if c["natspec"] is not None:
                node["documentation"] = dict(c["natspec"], id=3, nodeType="StructuredDocumentation")
            art = {
                "abi": [{"type": "function", "name": fn["sig"][:-2], "inputs": [], "outputs": [], "stateMutability": "nonpayable"} for fn in c["fns"]],
                "bytecode": {"object": "0x" + CREATION, "sourceMap": "", "linkReferences": {}},
                "deployedBytecode": {"object": "0x" + RUNTIME, "sourceMap": "", "linkReferences": {}},
                "methodIdentifiers": {fn["sig"]: f"{0xa0000000 + k:08x}" for k, fn in enumerate(c["fns"])},
                "metadata": {"compiler": {"version": "0.8.26"}, "output": {"devdoc": {"methods": methods}}},
                "ast": {"absolutePath": f"test/{c['name']}.sol", "id": 1, "nodeType": "SourceUnit", "nodes": [node]},
                "id": 0,
            }
            with open(os.path.join(p, f"{c['name']}.json"), "w") as f:
                json.dump(art, f)
        if case["toml"] is not None:
            lines = ["[global]"]
            for nm, v in case["toml"].items():
                key = nm.replace("_", "-") if len(nm) % 2 else nm  # both spellings are accepted
                lines.append(f"{key} = {toml_value(nm, _unj(nm, v))}")
            with open(os.path.join(root, "halmos.toml"), "w") as f:
                f.write("\n".join(lines) + "\n")
        argv = ["--root", root] + render_opts([(nm, _unj(nm, v)) for nm, v in case["cli"]])
        import contextlib
        import io

        buf = io.StringIO()
        try:
            with contextlib.redirect_stdout(buf), contextlib.redirect_stderr(buf):
                res = hm._main(argv)
            status = res.exitcode
        except SystemExit as e:
            status = f"SystemExit {e.code}"
        except Exception as e:  # noqa: BLE001
            status = f"EXC {type(e).__name__}: {e}"
        return {"status": status, "recorded": recorded, "log": buf.getvalue()[-600:]}


def runner_expected_layers(case):
    """per (contract, function): layers most recent first, from the structural description"""
    import halmos.config as hc

    d = hc.default_config()
    deflt = (1, {nm: _freeze(object.__getattribute__(d, nm)) for nm in OPTS})
    base = [deflt]
    if case["toml"] is not None:
        base.insert(0, (2, {nm: _jv(_unj(nm, v)) for nm, v in case["toml"].items()}))
    cli = effective_pairs([(nm, _unj(nm, v)) for nm, v in case["cli"]])
    base.insert(0, (5, {nm: _jv(v) for nm, v in cli.items()}))
    out = []
    for c in sorted(case["contracts"], key=lambda c: c["name"]):
        cl = list(base)
        if c["eff"] is not None:
            cl.insert(0, (3, dict(c["eff"])))
        for fn in c["fns"]:
            fl = list(cl)
            if fn["eff"] is not None:
                fl.insert(0, (4, dict(fn["eff"])))
            out.append((c["name"], fn["sig"], fl))
    return out


def model_runner_call(case, coder):
    import halmos.config as hc

    def layer(vals):
        items = [(OPTS[nm][0], coder.code(nm, _jv(v))) for nm, v in vals.items() if v is not None]
        return [len(items)] + [x for kv in items for x in kv]

    def annot(vals):
        return [0] if vals is None else [1] + layer(vals)

    d = hc.default_config()
    qs = [OPTS[nm][0] for nm in OPTS]
    a = [len(qs)] + qs
    a += layer({nm: _freeze(object.__getattribute__(d, nm)) for nm in OPTS})
    a += annot(case["toml"])
    a += layer({nm: _jv(v) for nm, v in effective_pairs([(nm, _unj(nm, v)) for nm, v in case["cli"]]).items()})
    cs = sorted(case["contracts"], key=lambda c: c["name"])
    a += [len(cs)]
    for ci, c in enumerate(cs):
        a += [ci] + annot(c["eff"]) + [len(c["fns"])]
        for fi, fn in enumerate(c["fns"]):
            a += [fi] + annot(fn["eff"])
    return ("c18_main", a)


# ----------------------------------------------------------------- X-codec

def S(s):
    return [ord(c) for c in s]


def U(l):
    return "".join(chr(c) for c in l)


INT10 = r"[+-]?[0-9](?:_?[0-9])*"
SPEC_INT0 = re.compile(r"^[+-]?(?:0[xX](?:_?[0-9a-fA-F])+|0[oO](?:_?[0-7])+|0[bB](?:_?[01])+|[1-9](?:_?[0-9])*|0(?:_?0)*)$")
SPEC_INT10 = re.compile("^" + INT10 + "$")
WS = "\t\n\x0b\x0c\r\x1c\x1d\x1e\x1f \x85\xa0"
SPEC_FLOAT = re.compile(r"^[+-]?(?:[0-9](?:_?[0-9])*(?:\.(?:[0-9](?:_?[0-9])*)?)?|\.[0-9](?:_?[0-9])*)(?:[eE][+-]?[0-9](?:_?[0-9])*)?$")


def spec_int(s, base):
    s = s.strip(WS)
    if base == 10:
        if not SPEC_INT10.match(s):
            return None
        return int(s.replace("_", ""))
    if not SPEC_INT0.match(s):
        return None
    t = s.replace("_", "")
    neg = t.startswith("-")
    t = t.lstrip("+-")
    if t[:2].lower() == "0x":
        v = int(t[2:], 16)
    elif t[:2].lower() == "0o":
        v = int(t[2:], 8)
    elif t[:2].lower() == "0b":
        v = int(t[2:], 2)
    else:
        v = int(t)
    return -v if neg else v


def spec_items(s):
    return [x.strip(WS) for x in s.split(",") if x.strip(WS)]


def spec_csvint(s):
    vals = [spec_int(x, 10) for x in spec_items(s)]
    if not vals or any(v is None for v in vals):
        return None
    return vals


def spec_errcodes(s):
    s = s.strip(WS)
    if s == "*":
        return set()
    vals = [spec_int(x, 0) for x in spec_items(s)]
    if not vals or any(v is None for v in vals):
        return None
    return set(vals)


def spec_trace(s):
    names = ["LOG", "SSTORE", "SLOAD"]
    items = spec_items(s)
    if any(x not in names for x in items):
        return None
    return items


UNITS = [("ms", Fraction(1, 1000)), ("s", Fraction(1)), ("m", Fraction(60)), ("h", Fraction(3600))]


WSN = "\t\n\x0b\x0c\r \x85\xa0"   # what float()/int() skip around an ASCII literal


def spec_float(s):
    s = s.strip(WSN)
    if not SPEC_FLOAT.match(s):
        return None
    return Fraction(s.replace("_", ""))


def spec_timeout(s):
    """documented grammar: <decimal number>[ms|s|m|h], default unit ms, "0" = no timeout"""
    for suf, f in UNITS:
        if s.endswith(suf):
            x = spec_float(s[: -len(suf)])
            return None if x is None else x * f
    if s == "0":
        return Fraction(0)
    x = spec_float(s)
    return None if x is None else x * Fraction(1, 1000)


SPEC_ARR_ITEM = re.compile(r"([^=,{}]+)=(?:\{([0-9,]+)\}|([0-9]+))(?:,|$)")


def spec_arrlen(s):
    if not s:
        return {}
    t = "".join(c for c in s if c not in WS)
    pos, out = 0, {}
    while pos < len(t):
        m = SPEC_ARR_ITEM.match(t, pos)
        if not m:
            return None
        sizes = [int(x) for x in (m.group(2) or m.group(3)).split(",") if x]
        if not sizes:
            return None
        out[m.group(1)] = sizes
        pos = m.end()
    return out


def spec_undecided(codec, s):
    """strings on which the documented grammar is silent: the words float() also accepts"""
    return codec == "timeout" and re.search(r"(?i)inf|nan", s) is not None


CODECS = ["timeout", "csvint", "errcodes", "trace", "arrlen"]
SPEC_PARSE = {"timeout": spec_timeout, "csvint": spec_csvint, "errcodes": spec_errcodes, "trace": spec_trace, "arrlen": spec_arrlen}


def gen_codec_strings(tier, r):
    out = []
    big = tier != "quick"

    def num(r):
        c = r.random()
        if c < 0.5:
            return str(r.choice([0, 1, 2, 5, 9, 10, 17, 29, 57, 58, 99, 100, 255, 256, 999, 1000, 1001, 1024, 1500, 65535, r.randint(0, 10**6), r.randint(0, 10**18)]))
        if c < 0.6:
            return "0" * r.randint(1, 3) + str(r.randint(0, 99))
        if c < 0.7:
            return str(r.randint(1, 9)) + "_" + str(r.randint(0, 999))
        if c < 0.8:
            return r.choice(["+", "-"]) + str(r.randint(0, 300))
        if c < 0.9:
            return r.choice(["0x", "0X", "0b", "0o", "0x_"]) + r.choice(["1f", "FF", "101", "7", "0", "12", "g", ""])
        return r.choice(["", "_1", "1_", "1__2", "1 2", "0_0", "00", "0_1", "١٢"[:0] + "12"])

    ws = lambda: r.choice(["", "", "", " ", "  ", "\t", "\n", "\x0b", "\x1f", "\xa0", "\x85"])  # noqa: E731
    # timeout
    for _ in range(700 if not big else 9000):
        c = r.random()
        if c < 0.45:
            body = str(r.choice([0, 1, 2, 5, 29, 57, 58, 999, 1000, 1001, 1500, 59999, 60000, r.randint(0, 5000), r.randint(0, 10**7)]))
        elif c < 0.75:
            body = r.choice(["", str(r.randint(0, 2000))]) + "." + r.choice(["", str(r.randint(0, 999)), "5", "25", "001", "0005"])
        elif c < 0.85:
            body = num(r)
        elif c < 0.92:
            body = r.choice(["", "-5", "+3", ".", "1_0", "1._5", "_1", "abc", "5 ", " 5", "1,5", "0x10", "5S", "--1", "1.2.3", "5m5", "٣"[:0] + "7"])
        else:
            # scientific notation, the words float() knows, huge / tiny / negative magnitudes
            body = r.choice(["", "", "-", "+"]) + r.choice([
                "%de%d" % (r.randint(0, 999), r.randint(-12, 12)), "%d.%de%s%d" % (r.randint(0, 9), r.randint(0, 999), r.choice(["", "+", "-"]), r.randint(0, 30)),
                "1e%d" % r.randint(290, 320), "%de-%d" % (r.randint(1, 9), r.randint(300, 330)), "%de%d" % (r.randint(1, 17), r.randint(304, 307)),
                "1E3", "1e", "e5", ".e1", "1.e2", ".5e1", "1e+", "1e_1", "1_0e1_0", "1e1.5", "inf", "Infinity", "INF", "nan", "NaN", "infinit", "nan0", "in"])
        unit = r.choice(["", "", "ms", "ms", "s", "s", "m", "h", "S", "sec", "mss", "hs", "us", " s", "s "])
        out.append(("timeout", ws() * (r.random() < 0.1) + body + unit))
    # ms integers exhaustively up to a bound (float product int(v*1000))
    for k in range(0, 1200 if not big else 20000):
        out.append(("timeout", f"{k}ms"))
    for k in range(0, 200 if not big else 4000):
        out.append(("timeout", f"{k}s"))
    # csv int / error codes
    for _ in range(700 if not big else 8000):
        n = r.choice([0, 1, 1, 2, 3, 5])
        items = [ws() + num(r) + ws() for _ in range(n)]
        if r.random() < 0.2:
            items.insert(r.randint(0, len(items)), r.choice(["", " ", "*", "x", "1.0", "-"]))
        s = ",".join(items)
        out.append(("csvint", s))
        out.append(("errcodes", s))
    for s in ["*", " * ", "**", "*,1", "1,*", "", ",", ",,", "0x01", "0x1,0X2", "-1", "-0x1", "0x-1", "1;2", "１"[:0] + "1"]:
        out.append(("errcodes", s))
        out.append(("csvint", s))
    # trace events
    for _ in range(200 if not big else 2000):
        n = r.choice([0, 1, 2, 3, 4])
        items = [ws() + r.choice(["LOG", "SSTORE", "SLOAD", "LOG", "log", "SLOA", "SLOADS", "", "L OG"]) + ws() for _ in range(n)]
        out.append(("trace", ",".join(items)))
    # array lengths
    for _ in range(700 if not big else 8000):
        n = r.choice([0, 1, 1, 2, 3])
        items = []
        for _ in range(n):
            name = r.choice(["a", "b", "arr", "x y", "data[0]", "a.b", "", "a", "1", "ü"[:0] + "z"])
            c = r.random()
            if c < 0.4:
                val = str(r.randint(0, 300))
            elif c < 0.8:
                val = "{" + ",".join(ws() + r.choice([str(r.randint(0, 99)), str(r.randint(0, 99)), "", "007"]) for _ in range(r.choice([0, 1, 2, 3]))) + "}"
            else:
                val = r.choice(["", "{}", "{,}", "-1", "{1", "1}", "{1}{2}", "1=2", "{a}", "0x1", "{{1}}", "1 2", "{1,2},"])
            items.append(name + ws() + "=" + ws() + val)
        s = ",".join(items)
        if r.random() < 0.15:
            s += r.choice([",", ",,", " ", "\n", ";", "=", "}"])
        out.append(("arrlen", s))
    seen, uniq = set(), []
    for c in out:
        if c not in seen:
            seen.add(c)
            uniq.append(c)
    return uniq


def impl_codec(args):
    """-> {'parse': value | 'REJECT' | 'EXC ...', 'unparse': str, 'reparse': value}"""
    codec, s = args
    import halmos.config as hc

    P = {"timeout": hc.ParseTimeout, "csvint": hc.ParseCSVInt, "errcodes": hc.ParseErrorCodes, "trace": hc.ParseCSVTraceEvent, "arrlen": hc.ParseArrayLengths}[codec]

    def norm(v):
        if codec == "timeout":
            return ["float", float(v).hex()]
        if codec == "errcodes":
            return sorted(v)
        if codec == "trace":
            return [e.value for e in v]
        if codec == "arrlen":
            return [[k, list(vs)] for k, vs in v.items()]
        return list(v)

    out = {}
    try:
        v = P.parse(s)
    except ValueError:
        return {"parse": "REJECT"}
    except Exception as e:  # noqa: BLE001
        return {"parse": f"EXC {type(e).__name__}"}
    out["parse"] = norm(v)
    try:
        u = P.unparse(v)
        out["unparse"] = u
        try:
            out["reparse"] = norm(P.parse(u))
        except ValueError:
            out["reparse"] = "REJECT"
    except Exception as e:  # noqa: BLE001
        out["unparse"] = None
        out["unparse_exc"] = type(e).__name__
    # the same value through TomlParser.parse_dict (what halmos.toml goes through)
    key = {"timeout": "solver-timeout-branching", "csvint": "default_array_lengths", "errcodes": "panic-error-codes", "trace": "trace_events", "arrlen": "array-lengths"}[codec]
    try:
        d = hc.toml_parser().parse_dict({"global": {key: s}})
        out["toml"] = norm(d[key.replace("-", "_")])
    except ValueError:
        out["toml"] = "REJECT"
    except BaseException as e:  # noqa: BLE001
        out["toml"] = f"EXC {type(e).__name__}"
    return out


def close(f_hex, frac):
    x = float.fromhex(f_hex)
    try:
        y = float(frac)
    except OverflowError:
        y = math.inf if frac > 0 else -math.inf
    # relative 1e-9; absolute 1e-300 for the subnormal range, where one float rounding already has a
    # large relative error (float("2e-318") * 3600)
    return x == y or abs(x - y) <= 1e-9 * max(abs(x), abs(y)) or abs(x - y) <= 1e-300


# ---- binary64 <-> model encoding [tag; neg; k]: tag 0 finite (magnitude k in units of 2^-1074), 1 inf, 2 nan
def f_enc(v):
    if v != v:
        return [2, 0, 0]
    if v in (math.inf, -math.inf):
        return [1, int(v < 0), 0]
    k = Fraction(abs(v)) * (1 << 1074)
    assert k.denominator == 1
    return [0, int(math.copysign(1.0, v) < 0), k.numerator]


def same_float(a, b):
    """what 'survives' means for a float value: the same number (the zeros are one number), the
    same infinity, or nan again"""
    return a == b or (a != a and b != b)


def gen_float_values(tier, r):
    """values handed to ParseTimeout.unparse directly, as float.hex() strings"""
    big = tier != "quick"
    vals = [0.0, -0.0, math.inf, -math.inf, math.nan, 5e-324, -5e-324, 2.2250738585072014e-308, 1.7976931348623157e308, -1.7976931348623157e308,
            1.0, 1.5, 0.5, 0.001, 0.0005, 0.0015, 1e-3 + 2 ** -62, 999.999, 1000.0, 59.999, 1e15, 1e16, 1e17, 2.0 ** 52, 2.0 ** 52 + 1, 2.0 ** 53, 2.0 ** 53 + 2,
            4503599627370495.5, 4503599627370.4955, 1e22, 1e23, 1.7976931348623157e305, 1.7976931348623158e305, -1.7976931348623157e305, -1.7976931348623158e305,
            -1e306, -2.5e307, 1e306, 0.1, 0.2, 0.3, 1 / 3, 2 / 3, 1e-5, 1e-4, 0.0001, 123456.789, 9007199254740993.0, 0.30000000000000004]
    n1, n2, n3 = (220, 30, 12) if not big else (6000, 1500, 600)
    for _ in range(n1):
        c = r.random()
        if c < 0.3:        # whole milliseconds and their float neighbours
            v = r.randint(0, 10 ** r.randint(1, 9)) / 1000
            v = r.choice([v, v, math.nextafter(v, math.inf), math.nextafter(v, -math.inf)])
        elif c < 0.45:     # product with 1000 is a whole number only after rounding (ulp(v * 1000) >= 1)
            v = float(r.randint(2 ** 43, 2 ** 52)) + r.choice([0.5, 0.25, 0.125]) * r.randint(0, 1)
            v = v / r.choice([1, 2, 4, 8])
        elif c < 0.6:      # whole seconds, halves
            v = float(r.randint(0, 10 ** r.randint(1, 17))) + r.choice([0.0, 0.0, 0.5])
        elif c < 0.75:     # short decimals
            v = float("%d.%d" % (r.randint(0, 10 ** 4), r.randint(0, 10 ** r.randint(1, 6))))
        elif c < 0.85:
            v = r.random() * 10 ** r.randint(-8, 8)
        else:
            v = r.randint(1, 2 ** 53) * 2.0 ** r.randint(-60, 40)
        if r.random() < 0.12:
            v = -v
        vals.append(v)
    # value * 1000 is whole only because the product was rounded, and dividing it by 1000 does NOT
    # give the value back (about 2% of the non-whole values above 2^43): searched for, both signs
    want, tries = (14 if not big else 300), 0
    while want and tries < 400000:
        tries += 1
        v = (r.randint(2 ** 43, 2 ** 52) + r.choice([0.5, 0.25, 0.125, 0.375])) / r.choice([1, 2, 4, 8]) if tries % 2 else r.uniform(2.0 ** 40, 2.0 ** 52)
        ms = v * 1000
        if v != int(v) and ms == int(ms) and ms / 1000 != v:
            vals.append(v if want % 3 else -v)
            want -= 1
    for _ in range(n2):    # magnitudes next to the overflow of value * 1000, both signs
        v = r.uniform(1.0, 9.9) * 10 ** r.choice([304, 305, 305, 306, 307])
        vals.append(v if r.random() < 0.5 else -v)
    for _ in range(n3):    # any bit pattern
        v = struct.unpack("<d", struct.pack("<Q", r.getrandbits(64)))[0]
        vals.append(v)
    for e in (range(-1074, 1024, 131) if not big else range(-1074, 1024, 7)):
        vals.append(2.0 ** e)
    seen, out = set(), []
    for v in vals:
        h = float(v).hex()
        if h not in seen:
            seen.add(h)
            out.append(h)
    return out


def toml_number(x):
    """a number (not a string) as the value of a timeout key of halmos.toml"""
    import halmos.config as hc

    try:
        d = hc.toml_parser().parse_dict({"global": {"solver-timeout-branching": x}})
        return float(d["solver_timeout_branching"]).hex()
    except ValueError:
        return "REJECT"
    except BaseException as e:  # noqa: BLE001
        return f"EXC {type(e).__name__}"


def impl_int(i):
    return {"toml": toml_number(i)}


def gen_int_values(tier, r):
    vals = [0, 1, 2, 5, 999, 1000, 1001, 1500, 60000, -1, -5, 2 ** 53, 2 ** 53 + 1, 10 ** 20, 10 ** 23, 10 ** 308, 10 ** 309, -10 ** 309, 17976931348623157 * 10 ** 292]
    for _ in range(60 if tier == "quick" else 3000):
        v = r.randint(0, 10 ** r.randint(1, 30))
        vals.append(-v if r.random() < 0.1 else v)
    return sorted(set(vals))


def impl_float(h):
    """ParseTimeout.unparse / parse and CPython's repr / float on one value"""
    import halmos.config as hc

    v = float.fromhex(h)
    out = {"repr": repr(v), "toml": toml_number(v)}
    try:
        u = hc.ParseTimeout.unparse(v)
    except Exception as e:  # noqa: BLE001
        out["unparse"] = None
        out["unparse_exc"] = f"{type(e).__name__}: {e}"
        return out
    out["unparse"] = u
    try:
        out["reparse"] = float(hc.ParseTimeout.parse(u)).hex()
    except Exception as e:  # noqa: BLE001
        out["reparse"] = f"EXC {type(e).__name__}"
    return out


def raises_sig(v):
    """unparse must return for every float: a raising unparse is one defect, whatever the value"""
    return "unparse-raises"


def in_model_alphabet(codec, s):
    if any(ord(c) > 255 for c in s):
        return False
    if codec == "timeout":
        # the model computes 10^exponent exactly: keep exponents to 4 digits
        return not re.search(r"[\x1c-\x1f]", s) and not re.search(r"[eE][+-]?[0-9_]{5,}", s)
    return True


# ----------------------------------------------------------------- X-natspec

NATSPEC_PIECES = ["@custom:halmos", "@custom:halmos", "@custom:halmos", "@notice", "@dev", "@custom:halmosx", "@custom:halmo", "@Custom:halmos", "x@custom:halmos",
                  "@custom:halmos@dev", "@", "@@", "@ ", "a@b", " ", " ", "  ", "\n", "\t", "\n   ", "\xa0", "\x1f", "\x85", "--loop 3", "--width 5 --ffi",
                  "title", "blah blah", "--solver-timeout-assertion 10s", ".", "", "\x0c", "@param x", "@return", "{", "@custom:halmos\t--depth 4"]


def gen_natspec_texts(tier, r):
    out = ["", "@custom:halmos", "@custom:halmos ", " @custom:halmos --loop 1 ", "@custom:halmos --a\n@custom:halmos --b", "x @custom:halmos --a @dev --b @custom:halmos --c",
           "@dev --a @custom:halmos", "@custom:halmos--a", "@", "@ @custom:halmos a", "a@custom:halmos b", "@custom:halmos a @", "@custom:halmos a @ b @x c", None]
    for _ in range(400 if tier == "quick" else 20000):
        out.append("".join(r.choice(NATSPEC_PIECES) for _ in range(r.randint(0, 9))))
    seen, uniq = set(), []
    for t in out:
        if t not in seen:
            seen.add(t)
            uniq.append(t)
    return uniq


def impl_natspec(t):
    from halmos.build import parse_natspec

    try:
        return parse_natspec({} if t is None else {"text": t, "id": 3})
    except Exception as e:  # noqa: BLE001
        return f"EXC {type(e).__name__}"


def spec_natspec(t):
    """independent scanner (no regular expression): a tag is '@' followed by a maximal non-empty run
    of non-white-space; the annotation is what follows each @custom:halmos tag up to the next tag,
    concatenated and stripped"""
    t = t or ""
    n, i, res, on = len(t), 0, [], False
    while i < n:
        if t[i] == "@" and i + 1 < n and not t[i + 1].isspace():
            j = i + 1
            while j < n and not t[j].isspace():
                j += 1
            on = t[i:j] == "@custom:halmos"
            i = j
        else:
            if on:
                res.append(t[i])
            i += 1
    return "".join(res).strip()


# ----------------------------------------------------------------- run

def run(rep, tier):
    install_known()
    b = common.build_property(PID, TRANSLATORS)
    common.standard_obligations(rep, PID, b)
    exe = None
    if b["make_ok"]:
        exe, log = common.build_driver(PID)
        rep.obligation("extraction of Model/ConfigModel.v entry points + OCaml driver build", exe is not None, "" if exe else log[-800:])
        if exe is None:
            rep.fail("broken-tie", "extracted model driver does not build: " + log[-400:], case={})
    m = Model(exe) if exe is not None else None
    r = common.rng(PID)
    nfail = {}

    def fail(kind, what, case, **kw):
        key = (kind, case.get("tie"), case.get("codec"), json.dumps(kw.get("sig"), sort_keys=True))
        nfail[key] = nfail.get(key, 0) + 1
        rep.count("failures", f"{kind}:{case.get('tie')}:{case.get('codec')}:{(kw.get('sig') or {}).get('defect')}")
        if nfail[key] <= 4:
            rep.fail(kind, what, case=case, **kw)

    stack_cases = gen_stack_cases(tier, r)
    runner_cases = gen_runner_cases(tier, r)
    codec_cases = gen_codec_strings(tier, r)
    float_cases = gen_float_values(tier, r)
    int_cases = gen_int_values(tier, r)
    natspec_cases = gen_natspec_texts(tier, r)
    with Pool(min(16, os.cpu_count() or 4)) as pool:
        a_stack = pool.map_async(impl_stack_case, stack_cases, chunksize=32)
        a_run = pool.map_async(impl_runner_case, runner_cases, chunksize=1)
        a_codec = pool.map_async(impl_codec, codec_cases, chunksize=128)
        a_float = pool.map_async(impl_float, float_cases, chunksize=64)
        a_int = pool.map_async(impl_int, int_cases, chunksize=64)
        a_nat = pool.map_async(impl_natspec, natspec_cases, chunksize=128)
        stack_impl = a_stack.get()
        codec_impl = a_codec.get()
        float_impl = a_float.get()
        int_impl = a_int.get()
        natspec_impl = a_nat.get()
        runner_impl = a_run.get()

    # ---------------- X-stack
    coder = Coder()
    layers_of = [stack_layers_full(c) for c in stack_cases]
    model_res = None
    if m is not None:
        model_res = m.parallel_batch([model_stack_call(ls, coder) for ls in layers_of])
    for i, c in enumerate(stack_cases):
        ls = layers_of[i]
        srcs = [s for s, _ in ls]
        equal = len(set(srcs)) < len(srcs)
        rep.count("stack_height", len(ls))
        rep.count("stack_kind", "equal_sources" if equal else "distinct_sources")
        rep.case({"stack": c}, nontrivial=len(ls) >= 2)
        sp, mp = compare_stack(ls, stack_impl[i], model_res[i] if model_res is not None else None, coder)
        if sp is not None:
            fail("failing-input", f"precedence: real Config disagrees with the property on stack {c}: {sp}", {"tie": "X-stack", "stack": c, **sp}, sig={"tie": "stack", "option": sp["option"]})
        elif mp is not None:
            fail("broken-tie", f"model and implementation disagree on stack {c}: {mp}", {"tie": "X-stack", "stack": c, **mp})

    # ---------------- X-runner
    model_run = None
    if m is not None:
        model_run = m.batch([model_runner_call(c, coder) for c in runner_cases])
    nfun = 0
    for i, c in enumerate(runner_cases):
        exp = runner_expected_layers(c)
        got = runner_impl[i]
        annotated = sum(1 for cc in c["contracts"] if cc["eff"]) + sum(1 for cc in c["contracts"] for f in cc["fns"] if f["eff"])
        rep.count("runner_annotated_items", min(annotated, 6))
        rep.case({"runner": c}, nontrivial=annotated > 0)
        rec = got["recorded"]
        if got["status"] != 0 or [(a, b2) for a, b2, _ in rec] != [(a, b2) for a, b2, _ in exp]:
            # the project is well-formed and every annotation in it is valid: the property says it
            # runs every test function with the expected config; aborting / skipping is a failure
            fail("failing-input", f"a well-formed annotated project is not run as the property says: status={got['status']} functions run={[(a, b2) for a, b2, _ in rec]} expected={[(a, b2) for a, b2, _ in exp]} log={got['log'][-300:]}; project = {json.dumps(c)[:600]}",
                 {"tie": "X-runner", "runner": c, "status": str(got["status"])}, sig={"tie": "runner", "option": "(aborted)"})
            continue
        width = 3 * len(OPTS) + 2
        for k, (cn, sig, ls) in enumerate(exp):
            nfun += 1
            mres = model_run[i][k * width:(k + 1) * width] if model_run is not None and model_run[i] is not None else None
            sp, mp = compare_stack(ls, rec[k][2], mres, coder)
            if sp is not None:
                fail("failing-input", f"effective config of {cn}.{sig} disagrees with the property: {sp}; project = {json.dumps(c)[:700]}", {"tie": "X-runner", "runner": c, "contract": cn, "function": sig, **sp}, sig={"tie": "runner", "option": sp["option"]})
                break
            if mp is not None:
                fail("broken-tie", f"model and implementation disagree on the config of {cn}.{sig}: {mp}", {"tie": "X-runner", "runner": c, "contract": cn, "function": sig, **mp})
                break
    rep.coverage["runner_functions_checked"] = nfun
    rep.coverage["exhaustive"] = True
    rep.coverage["exhaustive_note"] = ("X-stack includes every stack of height <= %d over sources 1..5 x {set, unset} for one option and every stack of height <= %d over "
                                       "sources x {solver set/unset} x {solver_command unset/''/'cmdA'}; X-codec includes every integer-ms timeout below the bound; X-float includes the non-finite values, both zeros, the extreme subnormal/normal magnitudes and a searched set of values whose product with 1000 is whole only after rounding and does not divide back") % ((3, 2) if tier == "quick" else (5, 3))

    # ---------------- X-natspec
    nres = m.parallel_batch([("c18_natspec", S(t or "")) for t in natspec_cases]) if m is not None else None
    for k, t in enumerate(natspec_cases):
        got = natspec_impl[k]
        ntags = (t or "").count("@custom:halmos")
        rep.count("natspec_halmos_tags", min(ntags, 4))
        rep.case({"natspec": t}, nontrivial=ntags > 0)
        want = spec_natspec(t)
        case = {"tie": "X-natspec", "text": t, "implementation": got, "spec": want}
        if got != want:
            fail("failing-input", f"parse_natspec({t!r}) = {got!r}; the text of the @custom:halmos tags is {want!r}", case, sig={"tie": "natspec"})
        elif nres is not None and (nres[k] is None or U(nres[k]) != got):
            fail("broken-tie", f"parse_natspec({t!r}): model {None if nres[k] is None else U(nres[k])!r}, implementation {got!r}", case)

    # ---------------- X-codec
    calls = []
    idx = []
    for k, (codec, s) in enumerate(codec_cases):
        if in_model_alphabet(codec, s):
            idx.append(k)
            calls.append((f"c18_{codec}_parse", S(s)))
    mparse = {}
    if m is not None:
        res = m.parallel_batch(calls)
        mparse = {k: v for k, v in zip(idx, res)}
    ucalls, uidx = [], []
    for k, (codec, s) in enumerate(codec_cases):
        o = codec_impl[k]
        rep.count("codec", codec)
        accepted = o["parse"] != "REJECT" and not str(o["parse"]).startswith("EXC")
        rep.count("codec_outcome", f"{codec}:{'accepted' if accepted else 'rejected'}")
        rep.case({"codec": codec, "string": s}, nontrivial=True)
        spec = SPEC_PARSE[codec](s)
        inalpha = in_model_alphabet(codec, s)
        # (1) rejection / value: spec vs implementation
        if inalpha and not spec_undecided(codec, s):
            if spec is None and accepted:
                fail("failing-input", f"{codec}: malformed value {s!r} is accepted as {o['parse']}", {"tie": "X-codec", "codec": codec, "string": s, "implementation": o["parse"]}, sig={"codec": codec, "defect": "malformed-accepted"})
                continue
            if spec is not None and not accepted:
                fail("failing-input", f"{codec}: well-formed value {s!r} is rejected ({o['parse']})", {"tie": "X-codec", "codec": codec, "string": s}, sig={"codec": codec, "defect": "wellformed-rejected"})
                continue
            if spec is not None and not same_value(codec, o["parse"], spec):
                fail("failing-input", f"{codec}: {s!r} parses to {o['parse']}, the documented meaning is {spec}", {"tie": "X-codec", "codec": codec, "string": s, "implementation": o["parse"]}, sig={"codec": codec, "defect": "wrong-value"})
                continue
        if accepted and o.get("toml") != o["parse"]:
            fail("failing-input", f"{codec}: TomlParser.parse_dict gives {o.get('toml')} for {s!r}, the command line gives {o['parse']}", {"tie": "X-codec", "codec": codec, "string": s}, sig={"codec": codec, "defect": "toml-differs"})
        # (2) round trip of the parsed value: spec vs implementation
        if accepted and inalpha:
            if o.get("unparse") is None:
                defect = raises_sig(float.fromhex(o["parse"][1])) if codec == "timeout" else "unparse-raises"
                fail("failing-input",
                     f"{codec}: unparse raises {o.get('unparse_exc')} on the value {o['parse']} that parse gives for {s!r}",
                     {"tie": "X-codec", "codec": codec, "string": s, "value": o["parse"]},
                     sig={"codec": codec, "defect": defect})
            elif not survives(codec, o["parse"], o.get("reparse")):
                fail("failing-input",
                     f"{codec}: value {o['parse']} (from {s!r}) does not survive unparse/parse: unparse -> {o.get('unparse')!r} -> {o.get('reparse')}",
                     {"tie": "X-codec", "codec": codec, "string": s, "value": o["parse"], "unparse": o.get("unparse"), "reparse": o.get("reparse")},
                     sig={"codec": codec, "defect": "roundtrip"})
        # (3) model vs implementation
        if k in mparse:
            mr = mparse[k]
            d = model_parse_differs(codec, mr, o)
            if d:
                fail("broken-tie", f"{codec}: model and implementation disagree on {s!r}: {d}", {"tie": "X-codec", "codec": codec, "string": s, "detail": d})
            elif accepted:
                uidx.append(k)
                ucalls.append(model_unparse_call(codec, mr))
    if m is not None and ucalls:
        ures = m.parallel_batch(ucalls)
        for k, ur in zip(uidx, ures):
            codec, s = codec_cases[k]
            o = codec_impl[k]
            if ur is None:
                ok, mu = False, "model error"
            elif codec == "timeout":
                mu = None if ur[:1] == [0] else U(ur[1:])        # [0] = the model's unparse raises
                ok = mu == o.get("unparse")
            elif o.get("unparse") is None:
                ok, mu = False, U(ur)
            elif codec == "errcodes":
                mu = U(ur)
                ok = sorted(mu.split(",")) == sorted(o["unparse"].split(","))
            else:
                mu = U(ur)
                ok = mu == o["unparse"]
            if not ok:
                fail("broken-tie", f"{codec}: unparse of {o['parse']}: model {mu!r}, implementation {o.get('unparse')!r}", {"tie": "X-codec", "codec": codec, "string": s})

    # ---------------- X-float: values handed to ParseTimeout.unparse directly
    fres = None
    if m is not None:
        encs = [f_enc(float.fromhex(h)) for h in float_cases]
        fres = m.parallel_batch([("c18_timeout_unparse", e) for e in encs] + [("c18_float_repr", e) for e in encs]
                                + [("c18_timeout_parse_float", e) for e in encs] + [("c18_timeout_parse_int", [i]) for i in int_cases])
    nfl = len(float_cases)
    for k, h in enumerate(float_cases):
        v = float.fromhex(h)
        o = float_impl[k]
        kind = "nan" if v != v else "inf" if abs(v) == math.inf else "zero" if v == 0 else "subnormal" if abs(v) < 2.2250738585072014e-308 else \
            "negative" if v < 0 else "whole-s" if v >= 1 and v == int(v) else "whole-ms" if v * 1000 == int(v * 1000) and v * 1000 / 1000 == v else \
            "ms-whole-not-dividing-back" if v * 1000 == int(v * 1000) else "other"
        rep.count("float_kind", kind)
        rep.count("float_rendering", "raises" if o["unparse"] is None else "ms" if o["unparse"].endswith("ms") else "exact" if o["unparse"] == repr(v) + "s" else "s")
        rep.case({"float": h}, nontrivial=True)
        case = {"tie": "X-float", "codec": "timeout", "value": h, "repr": o["repr"], "unparse": o.get("unparse"), "reparse": o.get("reparse")}
        # spec vs implementation: the value survives
        if o["unparse"] is None:
            fail("failing-input", f"timeout: unparse raises {o.get('unparse_exc')} on the float {o['repr']} ({h})", case, sig={"codec": "timeout", "defect": raises_sig(v)})
        elif str(o["reparse"]).startswith("EXC") or not same_float(float.fromhex(o["reparse"]), v):
            fail("failing-input", f"timeout: the float {o['repr']} ({h}) does not survive unparse/parse: unparse -> {o['unparse']!r} -> {o['reparse']}", case, sig={"codec": "timeout", "defect": "roundtrip"})
        # model vs implementation (strings, exactly)
        if fres is not None:
            mu, mr = fres[k], fres[nfl + k]
            mus = "model error" if mu is None else None if mu[:1] == [0] else U(mu[1:])
            if mus != o["unparse"]:
                fail("broken-tie", f"timeout: unparse of the float {o['repr']} ({h}): model {mus!r}, implementation {o['unparse']!r}", case)
            if mr is None or U(mr) != o["repr"]:
                fail("broken-tie", f"float model: repr of {h}: model {None if mr is None else U(mr)!r}, CPython {o['repr']!r}", case)
            mt = fres[2 * nfl + k]
            if num_differs(mt, o["toml"]):
                fail("broken-tie", f"timeout: the float {o['repr']} as a number in halmos.toml: model {mt}, implementation {o['toml']}", case)
        # a number in the file is a number of milliseconds (spec), and x / 1000 rounded once (model)
        finite = v == v and abs(v) != math.inf
        if o["toml"].startswith("EXC") or (o["toml"] == "REJECT" and finite and v >= 0) or (o["toml"] != "REJECT" and finite and not close(o["toml"], Fraction(v) / 1000)):
            fail("failing-input", f"timeout: the number {o['repr']} in halmos.toml is read as {o['toml']}, the documented meaning is {o['repr']} milliseconds", case, sig={"codec": "timeout", "defect": "toml-number"})
    for k, i in enumerate(int_cases):
        o = int_impl[k]
        rep.count("toml_int", "negative" if i < 0 else "zero" if i == 0 else "<2^53" if i < 2 ** 53 else "big")
        rep.case({"toml_int": i}, nontrivial=True)
        case = {"tie": "X-float", "codec": "timeout", "toml_int": i, "implementation": o["toml"]}
        if o["toml"] == "REJECT" or o["toml"].startswith("EXC") or not close(o["toml"], Fraction(i, 1000)):
            fail("failing-input", f"timeout: the integer {i} in halmos.toml is read as {o['toml']}, the documented meaning is {i} milliseconds", case, sig={"codec": "timeout", "defect": "toml-number"})
        if fres is not None and num_differs(fres[3 * nfl + k], o["toml"]):
            fail("broken-tie", f"timeout: the integer {i} as a number in halmos.toml: model {fres[3 * nfl + k]}, implementation {o['toml']}", case)
    rep.coverage["traces_validated_against_impl"] = (len(stack_cases) + nfun + len(idx) + (nfl if fres is not None else 0)) if m is not None else 0
    return rep.finish(
        checker_cmd="make -C coq Props/C18.vo (coq_makefile, coqc 8.16.1) after regenerating coq/Gen/GenConfig.v, GenConfigTime.v, GenConfigMain.v, GenConfigNatspec.v from /repo/src/halmos/{config,utils,__main__,build}.py",
        trusted_base=common.TRUSTED_BASE_COMMON + ["argparse / toml / shlex / re of CPython 3.12 (annotation text -> option values)"],
        assumptions=ASSUMPTIONS,
        partial=PARTIAL,
        rule="X-stack: random stacks of 1..9 layers (bottom optionally the real default_config()), sources 0..5 with many equal sources, random subsets of 14 representative options including falsy values (0, False, '', empty set), built with the real Config/with_overrides; observed: value_with_source, two attribute reads, resolved_solver_command for every option; non-trivial = height >= 2. "
             "X-runner: fabricated forge projects (1-3 contracts x 1-3 test functions, natspec with @custom:halmos in single/multi-line/multi-tag/mid-line placements and decoy tags, devdoc entries, halmos.toml, command line) run through the real _main/run_contract/run_tests with run_test replaced by a recorder; non-trivial = at least one annotation. "
             "X-natspec: concatenations of 0-9 pieces (halmos tags, other tags, near-miss tags, lonely and doubled '@', tags glued to text, every kind of white space, option text) and the missing-text case through the real build.parse_natspec; compared with an independent regex-free scanner and with the extracted model; non-trivial = contains @custom:halmos. "
             "X-codec: grammar-generated and malformed strings per codec (timeouts: decimals, scientific notation, the words float() knows, huge/tiny/negative magnitudes), all integer ms/s timeouts up to a bound; observed: parse (value or rejection), TomlParser.parse_dict, unparse, re-parse; compared with an independent regex/Fraction rendering of the documented grammar and, bit for bit, with the extracted model. "
             "X-float also hands every value, and a list of integers (0, small, above 2^53, up to 1e309, negative), to TomlParser.parse_dict as a NUMBER (parse_time's int|float arm): spec = that many milliseconds, model = x/1000 rounded once, bit for bit. "
             "X-float: binary64 values handed to ParseTimeout.unparse directly (specials, subnormals, whole milliseconds and their neighbours, values whose product with 1000 is whole only after rounding, whole seconds and halves up to 1e17, magnitudes next to the overflow of value*1000 in both signs, random bit patterns, powers of two); observed: unparse (string or exception), re-parse, repr; the value must survive (same number / same infinity / nan again) and the model must give the same strings. distinct by hash of the case.",
    )


def num_differs(mres, impl_hex):
    """model result [0] | [1; tag; neg; k] against the implementation's float.hex() / REJECT"""
    if mres is None:
        return True
    if impl_hex == "REJECT" or impl_hex.startswith("EXC"):
        return mres != [0]
    return mres != [1] + f_enc(float.fromhex(impl_hex))


def survives(codec, parsed, reparsed):
    """round trip of a parsed value, compared as values (floats: the same number / infinity / nan)"""
    if reparsed is None or reparsed == "REJECT":
        return False
    if codec == "timeout":
        return same_float(float.fromhex(parsed[1]), float.fromhex(reparsed[1]))
    return parsed == reparsed


def same_value(codec, got, spec):
    if codec == "timeout":
        return close(got[1], spec)
    if codec == "errcodes":
        return got == sorted(spec)
    if codec == "arrlen":
        return got == [[k, v] for k, v in spec.items()]
    return got == spec


def model_parse_differs(codec, mr, o):
    if mr is None:
        return "model error"
    accepted = o["parse"] != "REJECT" and not str(o["parse"]).startswith("EXC")
    if mr[0] == 2:
        return "model out of fuel / outside its domain"
    if mr[0] == 0:
        return None if not accepted else {"model": "REJECT", "implementation": o["parse"]}
    if not accepted:
        return {"model": mr[1:], "implementation": o["parse"]}
    if codec == "timeout":
        return None if mr[1:] == f_enc(float.fromhex(o["parse"][1])) else {"model": mr[1:3] + [hex(mr[3])] if len(mr) > 3 else mr, "implementation": o["parse"][1]}
    if codec == "errcodes":
        return None if sorted(set(mr[1:])) == o["parse"] else {"model": mr[1:], "implementation": o["parse"]}
    if codec == "trace":
        names = ["LOG", "SSTORE", "SLOAD"]
        got = [names[i] if 0 <= i < 3 else "?" for i in mr[1:]]
        return None if got == o["parse"] else {"model": got, "implementation": o["parse"]}
    if codec == "arrlen":
        items, p = [], 2
        for _ in range(mr[1]):
            n = mr[p]
            name = U(mr[p + 1:p + 1 + n])
            p += 1 + n
            k = mr[p]
            sizes = mr[p + 1:p + 1 + k]
            p += 1 + k
            items.append([name, sizes])
        return None if items == o["parse"] else {"model": items, "implementation": o["parse"]}
    return None if mr[1:] == o["parse"] else {"model": mr[1:], "implementation": o["parse"]}


def model_unparse_call(codec, mr):
    """feed the MODEL's parsed value to the model's unparse"""
    if codec == "timeout":
        return ("c18_timeout_unparse", mr[1:4])
    if codec == "errcodes":
        seen, vals = set(), []
        for v in mr[1:]:
            if v not in seen:
                seen.add(v)
                vals.append(v)
        return ("c18_errcodes_unparse", vals)
    if codec == "arrlen":
        return ("c18_arrlen_unparse", mr[1:])
    return (f"c18_{codec}_unparse", mr[1:])


def replay(rep, body):
    for f in body.get("failures", []):
        case = f.get("case") or {}
        if case.get("tie") == "X-natspec":
            print("natspec", repr(case["text"]), "->", repr(impl_natspec(case["text"])), "spec:", repr(spec_natspec(case["text"])))
        elif case.get("tie") == "X-float":
            print("float", case["value"], "->", impl_float(case["value"]))
        elif case.get("tie") == "X-codec":
            print("codec", case["codec"], repr(case["string"]), "->", impl_codec((case["codec"], case["string"])), "spec:", SPEC_PARSE[case["codec"]](case["string"]))
        elif case.get("tie") == "X-stack":
            print("stack", case["stack"], "->", impl_stack_case(case["stack"]))
        elif case.get("tie") == "X-runner":
            print("runner ->", impl_runner_case(case["runner"]))
    return 0
