"""C13 — assume and assert cheatcodes have exactly their stated meaning.

Obligations: T-selectors-assert, T-selectors-assume, Props/C13.vo (theorems about
Model/AssertModel.v over the regenerated selector tables), lint.
Tie X-C13:
  L1  every bound selector with generated ABI-encoded calldata (concrete, symbolic words under
      valuations, malformed) -> the real handler from halmos.assertions -> its condition
      evaluated, vs the extracted model, vs an independent Python rendering of the spec;
      mk_assert_handler on generated signature strings vs the model (behaviourally, on probes);
  L2  SEVM.run on a hand-built Exec: a chain of forwarding contracts places the vm.assert* /
      vm.assume call at call depth 0..3; yielded paths, their FailCheatcode flag
      (is_global_fail_set) and constraints are compared with the spec per sampled input and
      with the branching model fed with the recorded solver answers.
"""
import itertools
import os
from multiprocessing import Pool

from harness import common
from harness.common import Model

PID = "C13"
TRANSLATORS = ["T-selectors-assert", "T-selectors-assume"]

# genuine defects of halmos found by this check (see the final report); a failing input whose
# `sig` matches an entry is printed as KNOWN-FINDING instead of VIOLATION
KNOWN = [
    {
        "id": "C13-unicode-message",
        "property": "C13",
        "what": "a vm.assert*(…, string) call whose (concrete) message is not valid UTF-8 makes extract_string_argument raise UnicodeDecodeError, which no handler in SEVM.run catches: the whole test ends as ERROR whatever the asserted relation is (passing and failing inputs alike), instead of a failure reported exactly when the relation is false",
        "match": {"defect": "unicode-message"},
    },
    {
        "id": "C13-bytes-array-not-implemented",
        "property": "C13",
        "what": "assertEq/assertNotEq on bytes[] / string[] raise NotImplementedError, which is not a HalmosException and escapes SEVM.run: the whole test ends as ERROR (all paths lost) rather than one stuck path",
        "match": {"defect": "bytes-array-not-implemented"},
    },
]

PARTIAL = ("the Coq model takes calldata as concrete bytes under a valuation (symbolic offsets/lengths are "
           "NotConcreteError => stuck, outside the model); message bytes that are symbolic are not decoded by halmos and not modelled; "
           "bytes[]/string[] overloads are stated as NotImplemented, their relation is not specified")
ASSUMPTIONS = [
    "ByteVec slices behave as a flat zero-extended byte array (property C07); z3py operators denote their SMT-LIB meaning (== / != equality, ULT/UGT/ULE/UGE unsigned, < > <= >= signed on BitVecRef)",
    "the solver oracle is sound when it answers unsat (Section hypothesis of C13_fail_exact / C13_assert_continue); is_false() only holds for the literal false",
    "the extracted model and driver are faithful to the Coq definitions (extraction is trusted)",
]

W = 1 << 256
HEVM = 0x7109709ECFA91A80626FF3989D68F67F5B1DD12D

# ----------------------------------------------------------------- independent spec (python)

OPS = ["True", "False", "Eq", "NotEq", "Lt", "Gt", "Le", "Ge"]
TYS = ["bool", "uint256", "int256", "address", "bytes32", "string", "bytes"]


def spec_descrs():
    out = []
    for op in OPS:
        for ty in TYS:
            for arr in (False, True):
                for msg in (False, True):
                    if op in ("True", "False"):
                        ok = ty == "bool" and not arr
                    elif op in ("Lt", "Gt", "Le", "Ge"):
                        ok = ty in ("uint256", "int256") and not arr
                    else:
                        ok = True
                    if ok:
                        out.append((op, ty, arr, msg))
    return out


def render(d):
    op, ty, arr, msg = d
    t = ty + ("[]" if arr else "")
    ps = [t] if op in ("True", "False") else [t, t]
    if msg:
        ps.append("string")
    return f"assert{op}({','.join(ps)})"


def selector(sig):
    from eth_hash.auto import keccak

    return int.from_bytes(keccak(sig.encode())[:4], "big")


def _sub(b, off, n):
    if off < 0 or n < 0 or off + n > len(b):
        return None
    return b[off:off + n]


def _word(args, off):
    s = _sub(args, off, 32)
    return None if s is None else int.from_bytes(s, "big")


def _dyn_bytes(args, i):
    off = _word(args, 32 * i)
    if off is None:
        return None
    ln = _word(args, off)
    if ln is None:
        return None
    return _sub(args, off + 32, ln)


def _signed(w):
    return w - W if w >= W // 2 else w


def _valid_word(ty, w):
    if ty == "bool":
        return w <= 1
    if ty == "address":
        return w < (1 << 160)
    return True


def _decode(ty, arr, args, i):
    if ty in ("string", "bytes"):
        if arr:
            return None
        b = _dyn_bytes(args, i)
        return None if b is None else ("bytes", b)
    if arr:
        c = None
        off = _word(args, 32 * i)
        if off is not None:
            ln = _word(args, off)
            if ln is not None:
                c = _sub(args, off + 32, 32 * ln)
        if c is None:
            return None
        ws = [int.from_bytes(c[32 * k:32 * k + 32], "big") for k in range(len(c) // 32)]
        if not all(_valid_word(ty, w) for w in ws):
            return None
        return ("arr", ws)
    w = _word(args, 32 * i)
    if w is None or not _valid_word(ty, w):
        return None
    return ("word", w)


def _norm(ty, w):
    """the value a decoded word stands for"""
    if ty == "int256":
        return _signed(w)
    if ty == "bool":
        return w != 0
    return w


def spec_assert(d, cd):
    """None: not a valid encoding; else True iff the assertion holds."""
    op, ty, arr, msg = d
    if len(cd) < 4:
        return None
    args = cd[4:]
    unary = op in ("True", "False")
    if msg and _dyn_bytes(args, 1 if unary else 2) is None:
        return None
    v1 = _decode(ty, arr, args, 0)
    if v1 is None:
        return None
    if unary:
        return (v1[1] != 0) == (op == "True")
    v2 = _decode(ty, arr, args, 1)
    if v2 is None:
        return None
    if v1[0] == "word":
        a, b = _norm(ty, v1[1]), _norm(ty, v2[1])
    elif v1[0] == "arr":
        a, b = [_norm(ty, w) for w in v1[1]], [_norm(ty, w) for w in v2[1]]
    else:
        a, b = v1[1], v2[1]
    if op == "Eq":
        return a == b
    if op == "NotEq":
        return a != b
    if v1[0] != "word" or ty not in ("uint256", "int256"):
        return None
    return {"Lt": a < b, "Gt": a > b, "Le": a <= b, "Ge": a >= b}[op]


def spec_msg(d, cd):
    op, ty, arr, msg = d
    if not msg or len(cd) < 4:
        return None
    return _dyn_bytes(cd[4:], 1 if op in ("True", "False") else 2)


def utf8_ok(b):
    try:
        b.decode("utf-8")
        return True
    except UnicodeDecodeError:
        return False


# ----------------------------------------------------------------- calldata construction

def w32(x):
    return (x % W).to_bytes(32, "big")


def pad32(b):
    return b + b"\0" * ((32 - len(b) % 32) % 32)


def abi_encode(items):
    """items: list of ('w', int) | ('b', bytes) | ('a', [int]) -> standard ABI encoding (no selector)"""
    head, tail = [], b""
    hl = 32 * len(items)
    for kind, v in items:
        if kind == "w":
            head.append(w32(v))
        elif kind == "b":
            head.append(w32(hl + len(tail)))
            tail += w32(len(v)) + pad32(v)
        else:
            head.append(w32(hl + len(tail)))
            tail += w32(len(v)) + b"".join(w32(x) for x in v)
    return b"".join(head) + tail


def concretize(segs, val):
    out = b""
    for s in segs:
        if s[0] == "c":
            out += bytes.fromhex(s[1])
        else:
            out += (val[s[1]] % (1 << (8 * s[2]))).to_bytes(s[2], "big")
    return out


def segs_of(data, syms=()):
    """data: bytes; syms: list of (offset, nbytes, name) non-overlapping -> segments"""
    segs, pos = [], 0
    for off, n, name in sorted(syms):
        if off > pos:
            segs.append(["c", data[pos:off].hex()])
        segs.append(["s", name, n])
        pos = off + n
    if pos < len(data):
        segs.append(["c", data[pos:].hex()])
    return segs


# ----------------------------------------------------------------- implementation side (L1)

def _build_bytevec(sel, segs):
    import z3

    from halmos.bytevec import ByteVec

    parts = [sel.to_bytes(4, "big")]
    syms = {}
    for s in segs:
        if s[0] == "c":
            if s[1]:
                parts.append(bytes.fromhex(s[1]))
        else:
            v = z3.BitVec(s[1], 8 * s[2])
            syms[s[1]] = v
            parts.append(v)
    return ByteVec(parts), syms


def _eval_bool(cond, syms, val):
    import z3

    if isinstance(cond, bool):
        return cond
    subs = [(v, z3.BitVecVal(val[n], v.size())) for n, v in syms.items()]
    r = z3.simplify(z3.substitute(cond, *subs)) if subs else z3.simplify(cond)
    if z3.is_true(r):
        return True
    if z3.is_false(r):
        return False
    return f"unevaluated:{r}"


def _classify_exc(e):
    if isinstance(e, UnicodeDecodeError):
        return [5]
    if isinstance(e, NotImplementedError):
        return [4]
    if isinstance(e, ValueError):
        return [3]
    return [f"EXC {type(e).__name__}"]


def _run_handler_obs(h, sel, segs, vals):
    """observation per valuation, in the encoding of the model entry c13_run"""
    arg, syms = _build_bytevec(sel, segs)
    try:
        va = h(arg)
    except Exception as e:  # noqa: BLE001
        return [_classify_exc(e)] * len(vals)
    out = []
    for val in vals:
        c = _eval_bool(va.cond, syms, val)
        if not isinstance(c, bool):
            out.append([c])
            continue
        m = va.msg
        if m is None:
            out.append([1, int(c)])
        elif isinstance(m, str):
            out.append([2, int(c)] + list(m.encode("utf-8")))
        else:
            out.append(["symbolic-msg", int(c)])
    return out


def impl_l1(case):
    from halmos.assertions import assert_cheatcode_handler

    h = assert_cheatcode_handler.get(case["sel"])
    if h is None:
        return [["unbound"]] * len(case["vals"])
    return _run_handler_obs(h, case["sel"], case["segs"], case["vals"])


def impl_sig(case):
    """mk_assert_handler on a signature string, then the handler on probe calldata"""
    from halmos.assertions import mk_assert_handler
    from halmos.exceptions import HalmosException

    try:
        h = mk_assert_handler(case["sig"])
    except HalmosException:
        return [[0]] * len(case["probes"])
    except Exception as e:  # noqa: BLE001
        return [[f"EXC {type(e).__name__}"]] * len(case["probes"])
    return [_run_handler_obs(h, 0, [["c", p]], [{}])[0] for p in case["probes"]]


# ----------------------------------------------------------------- generators

WORDS = [0, 1, 2, (1 << 255) - 1, 1 << 255, (1 << 255) + 1, W - 1, W - 2, (1 << 160) - 1, 1 << 160, 255, 256]
MSGS = [b"", b"a", b"assertion failed: x must be less than y!!", "hé€\U0001F600".encode(),
        b"\xff", b"ok\xc3\x28", b"\xc0\x80", b"\xed\xa0\x80", b"\xf4\x90\x80\x80", b"\xe2\x82", b"\xf0\x9f\x98\x80"]
BYTES_LENS = [0, 1, 31, 32, 33, 64]


def word_pool(ty, r, n):
    if ty == "bool":
        base = [0, 1, 0, 1, 2, W - 1, 1 << 255]
    elif ty == "address":
        base = [0, 1, (1 << 160) - 1, (1 << 159), 1 << 160, W - 1]
    else:
        base = list(WORDS)
    return base + [r.randrange(W) for _ in range(n)]


def bytes_pairs(r):
    out = []
    for n in BYTES_LENS:
        a = bytes(r.randrange(256) for _ in range(n))
        out.append((a, a))
        if n:
            for k in {0, n - 1, r.randrange(n)}:
                b = bytearray(a)
                b[k] ^= 1 << r.randrange(8)
                out.append((a, bytes(b)))
            out.append((a, a[:-1]))              # differing length, common prefix
            out.append((a + b"\0", a))           # only a trailing zero byte differs
            out.append((b"\0" * n, b""))         # zeros vs empty
        out.append((a, a + bytes([r.randrange(256)])))
    out.append((b"", b""))
    out.append((b"\0" * 32, b"\0" * 31))
    return out


def array_pairs(ty, r):
    pool = word_pool(ty, r, 2)
    out = [([], []), ([], [0]), ([0], []), ([0], [0, 0])]
    for n in (1, 2, 3):
        a = [r.choice(pool) for _ in range(n)]
        out.append((a, list(a)))
        for k in range(n):
            b = list(a)
            b[k] = (b[k] ^ (1 << r.choice([0, 7, 8, 159, 255]))) % W
            out.append((a, b))
        out.append((a, a[:-1]))
        out.append((a, a + [0]))
        out.append((a, a + [r.choice(pool)]))
    if ty == "int256":
        out.append(([W - 1], [1]))
    return out


def mk_case(d, sel, data, syms=(), vals=None):
    return {"kind": "l1", "descr": list(d), "sig": render(d), "sel": sel, "segs": segs_of(data, syms), "vals": vals or [{}]}


def gen_l1(tier, r, table):
    """table: spec selector -> descr"""
    cases = []
    thorough = tier != "quick"
    for sel, d in table.items():
        op, ty, arr, msg = d
        unary = op in ("True", "False")
        msgs = MSGS if msg else [None]
        if ty in ("string", "bytes") and arr:
            # bytes[] / string[]: any calldata
            enc = abi_encode([("w", 64), ("w", 96), ("w", 0), ("w", 0)] + ([("b", b"m")] if msg else []))
            cases.append(mk_case(d, sel, enc))
            cases.append(mk_case(d, sel, b""))
            continue
        if not arr and ty not in ("string", "bytes"):
            pool = word_pool(ty, r, 3 if not thorough else 12)
            if unary:
                pairs = [(a, None) for a in pool]
            else:
                pairs = list(itertools.product(pool, pool)) if thorough else \
                    [(a, b) for a in pool for b in pool if (a in WORDS[:8] and b in WORDS[:8]) or r.random() < 0.25]
                pairs += [(a, a) for a in pool]
            for k, (a, b) in enumerate(pairs):
                m = msgs[k % len(msgs)]
                items = [("w", a)] + ([] if unary else [("w", b)]) + ([("b", m)] if m is not None else [])
                cases.append(mk_case(d, sel, abi_encode(items)))
            # symbolic operands under valuations (x alone, x and y, x against a constant)
            nv = 60 if thorough else 24
            for m in (msgs if thorough else msgs[:2]):
                extra = [("b", m)] if m is not None else []
                if unary:
                    enc = abi_encode([("w", 0)] + extra)
                    vals = [{"x": v} for v in pool]
                    cases.append(mk_case(d, sel, enc, [(0, 32, "x")], vals))
                    # only the low byte symbolic
                    cases.append(mk_case(d, sel, enc, [(31, 1, "x")], [{"x": v % 256} for v in pool]))
                else:
                    enc = abi_encode([("w", 0), ("w", 0)] + extra)
                    vals = [{"x": r.choice(pool), "y": r.choice(pool)} for _ in range(nv)] + [{"x": v, "y": v} for v in pool[:8]]
                    cases.append(mk_case(d, sel, enc, [(0, 32, "x"), (32, 32, "y")], vals))
                    c = r.choice(pool)
                    enc = abi_encode([("w", 0), ("w", c)] + extra)
                    cases.append(mk_case(d, sel, enc, [(0, 32, "x")], [{"x": v} for v in pool + [c, (c + 1) % W, (c - 1) % W]]))
                    enc = abi_encode([("w", c), ("w", 0)] + extra)
                    cases.append(mk_case(d, sel, enc, [(32, 32, "y")], [{"y": v} for v in pool + [c, (c + 1) % W, (c - 1) % W]]))
            # truncated calldata (zero padding of out-of-bounds reads)
            full = abi_encode([("w", 3)] + ([] if unary else [("w", 5)]) + ([("b", b"msg")] if msg else []))
            for cut in sorted({0, 1, 31, 32, 33, 63, 64, len(full) - 1}):
                if 0 <= cut < len(full):
                    cases.append(mk_case(d, sel, full[:cut]))
        elif not arr:
            prs = bytes_pairs(r)
            for k, (a, b) in enumerate(prs):
                m = msgs[k % len(msgs)]
                items = [("b", a), ("b", b)] + ([("b", m)] if m is not None else [])
                cases.append(mk_case(d, sel, abi_encode(items)))
            # non-standard but valid layouts: shared tail, reversed tails
            a = bytes(r.randrange(256) for _ in range(33))
            tail = w32(len(a)) + pad32(a)
            hl = 96 if msg else 64
            enc = w32(hl) + w32(hl) + (w32(hl) if msg else b"") + tail
            cases.append(mk_case(d, sel, enc))
            b = bytes(r.randrange(256) for _ in range(5))
            tb = w32(len(b)) + pad32(b)
            enc = w32(hl + len(tb)) + w32(hl) + (w32(hl) if msg else b"") + tb + tail
            cases.append(mk_case(d, sel, enc))
            # symbolic content bytes
            for n in (1, 32, 33):
                enc = abi_encode([("b", b"\0" * n), ("b", a[:n])] + ([("b", b"m")] if msg else []))
                off = (96 if msg else 64) + 32
                vals = [{"x": int.from_bytes(a[:n], "big")}, {"x": 0}, {"x": int.from_bytes(a[:n], "big") ^ 1}, {"x": r.randrange(1 << (8 * n))}]
                cases.append(mk_case(d, sel, enc, [(off, n, "x")], vals))
            # malformed: offsets / lengths pointing outside, truncated
            full = abi_encode([("b", a), ("b", a)] + ([("b", b"msg")] if msg else []))
            for cut in sorted({0, 4, 32, 64, 65, 96, 128, len(full) - 40, len(full) - 1}):
                if 0 <= cut < len(full):
                    cases.append(mk_case(d, sel, full[:cut]))
            for badoff in (len(full), len(full) + 7, 1 << 64, W - 1, W - 36):
                cases.append(mk_case(d, sel, w32(badoff) + full[32:]))
                cases.append(mk_case(d, sel, full[:32] + w32(badoff) + full[64:]))
            # length a little beyond the end
            cases.append(mk_case(d, sel, full[:hl] + w32(100) + full[hl + 32:]))
        else:
            prs = array_pairs(ty, r)
            for k, (a, b) in enumerate(prs):
                m = msgs[k % len(msgs)]
                items = [("a", a), ("a", b)] + ([("b", m)] if m is not None else [])
                cases.append(mk_case(d, sel, abi_encode(items)))
            pool = word_pool(ty, r, 2)
            a = [r.choice(pool) for _ in range(2)]
            hl = 96 if msg else 64
            # symbolic element
            enc = abi_encode([("a", [0, a[1]]), ("a", a)] + ([("b", b"m")] if msg else []))
            vals = [{"x": a[0]}, {"x": a[0] ^ 1}, {"x": (a[0] + (1 << 255)) % W}] + [{"x": v} for v in pool[:4]]
            cases.append(mk_case(d, sel, enc, [(hl + 32, 32, "x")], vals))
            full = abi_encode([("a", a), ("a", a)] + ([("b", b"msg")] if msg else []))
            for cut in sorted({0, 32, 64, 96, 100, len(full) - 33, len(full) - 1}):
                if 0 <= cut < len(full):
                    cases.append(mk_case(d, sel, full[:cut]))
            for badoff in (len(full), 1 << 64, W - 1):
                cases.append(mk_case(d, sel, w32(badoff) + full[32:]))
            cases.append(mk_case(d, sel, full[:hl] + w32(3) + full[hl + 32:]))
    return cases


PROBES = None


def probes(r):
    """calldata probes (hex, without meaning for a particular signature) used to compare
    mk_assert_handler(sig) with the model behaviourally: word, bytes and array layouts that
    tell the extractor class, the operator and its signedness, and the message flag apart"""
    # word values are >= 2^254 so that a bytes/array extractor applied to the same probe reads
    # an out-of-range offset (=> empty operand) instead of a gigantic length
    ps = []
    P = 1 << 254
    for a, b in [(P, 2 * P), (2 * P, P), (W - 1, W - 1), (P, P + 1), (P + 1, P), (P, P)]:
        ps.append(abi_encode([("w", a), ("w", b), ("b", b"m")]))
    ps.append(abi_encode([("w", 0), ("b", b"unary msg")]))
    ps.append(abi_encode([("w", W - 1), ("b", b"\xff")]))
    ps.append(abi_encode([("b", b"abc"), ("b", b"abc"), ("b", b"m")]))
    ps.append(abi_encode([("b", b"abc"), ("b", b"abd"), ("b", b"\xff")]))
    ps.append(abi_encode([("b", b""), ("b", b"")]))
    ps.append(abi_encode([("a", [1, 2]), ("a", [1, 2]), ("b", b"m")]))
    ps.append(abi_encode([("a", [1]), ("a", [2]), ("b", b"m")]))
    ps.append(abi_encode([("a", [W - 1]), ("a", [1])]))
    ps.append(abi_encode([("a", []), ("a", [1])]))
    ps.append(b"")
    return [b"\0\0\0\0".hex() + p.hex() for p in ps]


def gen_sigs(tier, r, table_sigs):
    ops = OPS + ["Foo", "Equal", "NotEQ", "Lte", "true", "ULt", "SLt"]
    tys = TYS + ["uint8", "uint", "uint256[]", "bytes[]", "string[]", "bytes32[]", "uint256[][]", "[]", "bytes[", "int256", " uint256"]
    sigs = list(table_sigs)
    for op in ops:
        for ty in tys:
            for n in (1, 2, 3, 4):
                ps = [ty] * min(n, 2) + ["string"] * max(0, n - 2)
                sigs.append(f"assert{op}({','.join(ps)})")
    sigs += ["assertEq()", "assertEq(", "assertEq", "assert(bool)", "assert()", "assertEq(uint256,uint256", "assertEq)uint256(",
             "assertLt(uint256,int256)", "assertLt(int256,uint256)", "assertEq(uint256, uint256)", "assertTrue(bool,string,string)",
             "assertFalse()", "assertTrue(uint256)", "assertEq(a(,b)", "assertE)q(a,b)", "assertEq(,)", "assertEq(,,)",
             "assertGe(uint256,uint256)(", "assertGe(uint256,uint256))", "assertLe((uint256,uint256)"]
    seen, out = set(), []
    for s in sigs:
        if s not in seen and s.count("assert") == 1 and s.startswith("assert"):
            seen.add(s)
            out.append(s)
    if tier == "quick":
        keep = [s for s in out if s in set(table_sigs)]
        rest = [s for s in out if s not in set(table_sigs)]
        r.shuffle(rest)
        out = keep + rest[:160]
    return out


# ----------------------------------------------------------------- comparison helpers

def is_huge(obs):
    return isinstance(obs, list) and obs and isinstance(obs[0], str) and obs[0] in ("EXC OverflowError", "EXC MemoryError")


def enc_sig_cd(sig, cd):
    return [len(sig)] + [ord(c) for c in sig] + list(cd)


def known_or_fail(rep, what, case, sig):
    """failing input: KNOWN-FINDING when it matches a recorded defect, else a violation"""
    f = {"sig": sig}
    global_ids = {k.get("id") for k in common.known_findings().get("findings", [])}
    for k in KNOWN:
        if common.finding_matches(k, f):
            if k["id"] in global_ids:
                break  # let Report.finish match it against known_findings.json
            hits = rep.coverage.setdefault("known_findings_hit_local", {})
            if k["id"] not in hits:
                print(f"KNOWN-FINDING: property={PID} {k['id']}: {k['what']}")
                hits[k["id"]] = {"what": k["what"], "first_case": case, "count": 0}
            hits[k["id"]]["count"] += 1
            return True
    if len([f for f in rep.failures if f["kind"] == "failing-input"]) < 10:
        rep.fail("failing-input", what, case=case, sig=sig)
    return False


def run(rep, tier):
    b = common.build_property(PID, TRANSLATORS)
    common.standard_obligations(rep, PID, b)
    exe = None
    if b["make_ok"]:
        exe, log = common.build_driver(PID)
        rep.obligation("extraction of Model/AssertModel.v + Spec/AssertSpec.v entry points + OCaml driver build", exe is not None, "" if exe else log[-800:])
        if exe is None:
            rep.fail("broken-tie", "extracted model driver does not build: " + log[-400:], case={})
    r = common.rng(PID)
    nbad = [0]

    def bad(kind, what, case, sig=None):
        if kind == "failing-input":
            known_or_fail(rep, what, case, sig or {})
        else:
            nbad[0] += 1
            if nbad[0] <= 10:
                rep.fail(kind, what, case=case)

    # ---- the spec's selector table vs the table halmos binds
    from halmos.assertions import assert_cheatcode_handler
    from halmos.cheatcodes import hevm_cheat_code

    table = {selector(render(d)): d for d in spec_descrs()}
    real = set(assert_cheatcode_handler)
    for sel in sorted(set(table) - real):
        bad("failing-input", f"forge-std overload {render(table[sel])} (selector {sel:#010x}) is not bound by halmos", {"sig": render(table[sel]), "sel": sel}, {"defect": "unbound-selector", "sel": sel})
    for sel in sorted(real - set(table)):
        bad("failing-input", f"halmos binds selector {sel:#010x}, which is not the selector of any forge-std assertion overload of the specification", {"sel": sel}, {"defect": "unknown-selector", "sel": sel})
    if hevm_cheat_code.assume_sig != selector("assume(bool)"):
        bad("failing-input", f"vm.assume selector constant {hevm_cheat_code.assume_sig:#x} is not bytes4(keccak256('assume(bool)'))", {"sel": hevm_cheat_code.assume_sig}, {"defect": "assume-selector"})

    # ---- L1
    cases = gen_l1(tier, r, table)
    sig_cases = [{"kind": "sig", "sig": s, "probes": probes(r)} for s in gen_sigs(tier, r, [render(d) for d in table.values()])]
    with Pool(min(16, os.cpu_count() or 4)) as pool:
        impl = pool.map(impl_l1, cases, chunksize=32)
        impl_s = pool.map(impl_sig, sig_cases, chunksize=8)

    # model calls; a length beyond what Python can index (OverflowError / MemoryError in the real
    # code, malformed calldata only) is outside the model: such evaluations are counted, not compared
    calls, where = [], {}
    for i, c in enumerate(cases):
        for j, val in enumerate(c["vals"]):
            if is_huge(impl[i][j]):
                continue
            cd = c["sel"].to_bytes(4, "big") + concretize(c["segs"], val)
            where["r", i, j] = len(calls)
            calls.append(("c13_run", enc_sig_cd(c["sig"], cd)))
            where["s", i, j] = len(calls)
            calls.append(("c13_spec", enc_sig_cd(c["sig"], cd)))
    for i, sc in enumerate(sig_cases):
        for j, p in enumerate(sc["probes"]):
            if is_huge(impl_s[i][j]):
                continue
            where["p", i, j] = len(calls)
            calls.append(("c13_run", enc_sig_cd(sc["sig"], bytes.fromhex(p))))
    res = Model(exe).parallel_batch(calls, timeout=300) if exe is not None else None

    for i, c in enumerate(cases):
        d = tuple(c["descr"])
        nontriv = False
        for j, val in enumerate(c["vals"]):
            cd = c["sel"].to_bytes(4, "big") + concretize(c["segs"], val)
            sp = spec_assert(d, cd)
            im = impl[i][j]
            shown = {"sig": c["sig"], "sel": c["sel"], "calldata": cd.hex() if len(cd) <= 400 else cd[:400].hex() + "...", "segs": c["segs"] if len(cd) <= 400 else "long", "valuation": val}
            if sp is not None:
                nontriv = True
                rep.count("spec_outcome", "holds" if sp else "violated")
                m = spec_msg(d, cd)
                if d[1] in ("string", "bytes") and d[2]:
                    pass
                elif m is not None and not utf8_ok(m) and any(isinstance(s, list) and s[0] == "c" for s in c["segs"]):
                    # message not UTF-8: the defect C13-unicode-message when halmos raises
                    if im == [5]:
                        bad("failing-input", f"{c['sig']}: message {m!r} is not valid UTF-8 -> UnicodeDecodeError escapes (relation {'holds' if sp else 'is violated'})", shown, {"defect": "unicode-message"})
                    elif im[0] not in (1, 2) or im[1] != int(sp):
                        bad("failing-input", f"{c['sig']}: condition evaluates to {im}, the stated relation is {sp}", shown, {"defect": "wrong-condition", "sig": c["sig"]})
                elif im[0] not in (1, 2) or im[1] != int(sp):
                    bad("failing-input", f"{c['sig']}: handler gives {im} on calldata {shown['calldata'][:200]}, the stated relation is {sp}", shown, {"defect": "wrong-condition", "sig": c["sig"]})
                elif (im[0] == 2) != d[3] or (im[0] == 2 and bytes(im[2:]) != m):
                    bad("failing-input", f"{c['sig']}: message reported {im[2:]} differs from the encoded one {m!r}", shown, {"defect": "wrong-message", "sig": c["sig"]})
            else:
                rep.count("spec_outcome", "invalid-encoding")
            if d[1] in ("string", "bytes") and d[2]:
                rep.count("spec_outcome", "bytes-array")
                if im == [4]:
                    bad("failing-input", f"{c['sig']}: NotImplementedError", shown, {"defect": "bytes-array-not-implemented"})
                else:
                    bad("failing-input", f"{c['sig']}: expected NotImplementedError (model), got {im}", shown, {"defect": "bytes-array-changed"})
            if is_huge(im):
                rep.count("spec_outcome", "huge-length-outside-model")
                if sp is not None:
                    bad("failing-input", f"{c['sig']}: {im} on a valid encoding", shown, {"defect": "overflow-on-valid-encoding"})
            elif res is not None:
                mo = res[where["r", i, j]]
                ms = res[where["s", i, j]]
                if mo != im:
                    bad("broken-tie", f"model and implementation disagree on {c['sig']} calldata {shown['calldata'][:200]}: implementation {im}, model {mo}", shown)
                want = [0] if sp is None else [1, int(sp)]
                if ms != want:
                    bad("broken-tie", f"Coq spec and its Python rendering disagree on {c['sig']}: coq {ms}, python {want}", shown)
        rep.count("operand_class", ("array" if d[2] else "") + d[1])
        rep.count("symbolic", "symbolic" if any(s[0] == "s" for s in c["segs"]) else "concrete")
        rep.case({"sig": c["sig"], "segs": c["segs"] if sum(len(s[1]) // 2 if s[0] == "c" else s[2] for s in c["segs"]) <= 300 else "long:" + common.case_hash(c["segs"]), "nvals": len(c["vals"])}, nontrivial=nontriv)

    for i, sc in enumerate(sig_cases):
        for j, p in enumerate(sc["probes"]):
            if res is not None and ("p", i, j) in where:
                mo = res[where["p", i, j]]
                if mo != impl_s[i][j]:
                    bad("broken-tie", f"mk_assert_handler({sc['sig']!r}) behaves differently from the model on probe {j}: implementation {impl_s[i][j]}, model {mo}", {"sig": sc["sig"], "probe": p})
        rep.count("signature_strings", "table" if sc["sig"] in {render(d) for d in table.values()} else "variant")
        rep.case({"mk_assert_handler": sc["sig"]}, nontrivial=impl_s[i][0] != [0])

    rep.coverage["traces_validated_against_impl"] = (len(calls) // 1) if res is not None else 0
    rep.coverage["exhaustive"] = False
    return rep.finish(
        checker_cmd="make -C coq Props/C13.vo (coq_makefile, coqc 8.16.1) after regenerating coq/Gen/GenAssertSelectors.v, GenAssumeSelector.v from /repo/src/halmos/{assertions,cheatcodes}.py",
        trusted_base=common.TRUSTED_BASE_COMMON,
        assumptions=ASSUMPTIONS,
        partial=PARTIAL,
        rule="L1 cases = (bound selector, calldata layout of concrete and symbolic chunks, valuations): word operands over sign/width boundaries (all pairs), bytes of lengths 0,1,31,32,33,64 equal / one bit flipped / prefix / trailing zero, arrays of lengths 0-3 equal / one element / length differing, messages incl. invalid UTF-8, truncated and out-of-range offsets; a case is non-trivial when its concretised calldata is a valid ABI encoding for the signature (so that the stated relation is defined); each valuation is one evaluation of the real handler's z3 condition vs the extracted model vs the Python spec. Signature-string cases = mk_assert_handler on table and mutated signatures compared behaviourally on 16 probe calldatas",
    )


def replay(rep, body):
    for f in body.get("failures", []):
        case = f.get("case") or {}
        if "segs" in case and isinstance(case["segs"], list):
            c = {"sel": case["sel"], "segs": case["segs"], "vals": [case.get("valuation") or {}]}
            print("case          :", case.get("sig"), case.get("calldata"))
            print("implementation:", impl_l1(c))
            for d in spec_descrs():
                if render(d) == case.get("sig"):
                    cd = case["sel"].to_bytes(4, "big") + concretize(case["segs"], case.get("valuation") or {})
                    print("spec          :", spec_assert(d, cd))
    return 0
