"""C13 — assume and assert cheatcodes have exactly their stated meaning.

Obligations: T-selectors-assert, T-selectors-assume, T-assert-arms, T-exc-hierarchy, T-run-excepts,
Props/C13.vo (theorems about Model/AssertModel.v over the regenerated selector tables, handler
arms, exception hierarchy and except clauses of SEVM.run), lint.
Tie X-C13:
  L1  every bound selector with generated ABI-encoded calldata (concrete, symbolic words under
      valuations, malformed) -> the real handler from halmos.assertions -> its condition
      evaluated, vs the extracted model, vs an independent Python rendering of the spec;
      mk_assert_handler on generated signature strings vs the model (behaviourally, on probes);
  L2  SEVM.run on a hand-built Exec: a chain of forwarding contracts places the vm.assert* /
      vm.assume call at call depth 0..3; yielded paths, their FailCheatcode flag
      (is_global_fail_set) and constraints are compared with the spec per sampled input and
      with the branching model fed with the recorded solver answers;
  L2s the same with a SEQUENCE of cheatcode calls issued by the frame at depth 0..3 (asserts,
      assumes, unsupported overloads, in generated orders): per sampled input the yielded paths are
      compared with Foundry's run of the sequence on that input alone (C13_seq_exact), and the
      outcome shape with Model.run_prog fed with the recorded solver answers.
"""
import itertools
import os
from multiprocessing import Pool

from harness import common
from harness.common import Model

PID = "C13"
TRANSLATORS = ["T-selectors-assert", "T-selectors-assume", "T-assert-arms", "T-exc-hierarchy", "T-run-excepts", "T-jumpi"]

# genuine defects of halmos found by this check (see the final report); a failing input whose
# `sig` matches an entry is printed as KNOWN-FINDING instead of VIOLATION
KNOWN = common.known_for("C13")  # entries live in /verif/known_findings.json

PARTIAL = ("the Coq model takes calldata as concrete bytes under a valuation (symbolic offsets/lengths are "
           "NotConcreteError => stuck, outside the model); message bytes that are symbolic are not decoded by halmos and not modelled; "
           "bytes[]/string[] overloads are not supported by halmos: proved and checked to end the current path as a stuck path "
           "(no pass claimed, other paths kept); their relation itself is not specified; "
           "a sequence is cheatcode calls and two-way branches (sides rejoin) run by one frame; branches that halmos decides without asking the oracle "
           "(a symbol pinned by an equality on the path) are outside the model: outcomes no sampled input lies on are not compared")
ASSUMPTIONS = [
    "ByteVec slices behave as a flat zero-extended byte array (property C07); z3py operators denote their SMT-LIB meaning (== / != equality, ULT/UGT/ULE/UGE unsigned, < > <= >= signed on BitVecRef)",
    "the solver oracle is sound when it answers unsat for the path it is asked about (Section hypothesis of C13_fail_exact / C13_assert_continue / C13_seq_exact); tested on every run: each unsat answer ex.check gives inside the assert branch or SEVM.jumpi is checked against the sampled inputs of that path; is_false() only holds for the literal false",
    "the extracted model and driver are faithful to the Coq definitions (extraction is trusted)",
]

W = 1 << 256
HEVM = 0x7109709ECFA91A80626FF3989D68F67F5B1DD12D

# ----------------------------------------------------------------- independent spec (python)

OPS = ["True", "False", "Eq", "NotEq", "Lt", "Gt", "Le", "Ge"]
TYS = ["bool", "uint256", "int256", "address", "bytes32", "string", "bytes"]


def spec_descrs():
    out = []
    for op in OPS:
        for ty in TYS:
            for arr in (False, True):
                for msg in (False, True):
                    if op in ("True", "False"):
                        ok = ty == "bool" and not arr
                    elif op in ("Lt", "Gt", "Le", "Ge"):
                        ok = ty in ("uint256", "int256") and not arr
                    else:
                        ok = True
                    if ok:
                        out.append((op, ty, arr, msg))
    return out


def render(d):
    op, ty, arr, msg = d
    t = ty + ("[]" if arr else "")
    ps = [t] if op in ("True", "False") else [t, t]
    if msg:
        ps.append("string")
    return f"assert{op}({','.join(ps)})"


def selector(sig):
    from eth_hash.auto import keccak

    return int.from_bytes(keccak(sig.encode())[:4], "big")


def _sub(b, off, n):
    if off < 0 or n < 0 or off + n > len(b):
        return None
    return b[off:off + n]


def _word(args, off):
    s = _sub(args, off, 32)
    return None if s is None else int.from_bytes(s, "big")


def _dyn_bytes(args, i):
    off = _word(args, 32 * i)
    if off is None:
        return None
    ln = _word(args, off)
    if ln is None:
        return None
    return _sub(args, off + 32, ln)


def _signed(w):
    return w - W if w >= W // 2 else w


def _valid_word(ty, w):
    if ty == "bool":
        return w <= 1
    if ty == "address":
        return w < (1 << 160)
    return True


def _decode(ty, arr, args, i):
    if ty in ("string", "bytes"):
        if arr:
            return None
        b = _dyn_bytes(args, i)
        return None if b is None else ("bytes", b)
    if arr:
        c = None
        off = _word(args, 32 * i)
        if off is not None:
            ln = _word(args, off)
            if ln is not None:
                c = _sub(args, off + 32, 32 * ln)
        if c is None:
            return None
        ws = [int.from_bytes(c[32 * k:32 * k + 32], "big") for k in range(len(c) // 32)]
        if not all(_valid_word(ty, w) for w in ws):
            return None
        return ("arr", ws)
    w = _word(args, 32 * i)
    if w is None or not _valid_word(ty, w):
        return None
    return ("word", w)


def _norm(ty, w):
    """the value a decoded word stands for"""
    if ty == "int256":
        return _signed(w)
    if ty == "bool":
        return w != 0
    return w


def spec_assert(d, cd):
    """None: not a valid encoding; else True iff the assertion holds."""
    op, ty, arr, msg = d
    if len(cd) < 4:
        return None
    args = cd[4:]
    unary = op in ("True", "False")
    if msg and _dyn_bytes(args, 1 if unary else 2) is None:
        return None
    v1 = _decode(ty, arr, args, 0)
    if v1 is None:
        return None
    if unary:
        return (v1[1] != 0) == (op == "True")
    v2 = _decode(ty, arr, args, 1)
    if v2 is None:
        return None
    if v1[0] == "word":
        a, b = _norm(ty, v1[1]), _norm(ty, v2[1])
    elif v1[0] == "arr":
        a, b = [_norm(ty, w) for w in v1[1]], [_norm(ty, w) for w in v2[1]]
    else:
        a, b = v1[1], v2[1]
    if op == "Eq":
        return a == b
    if op == "NotEq":
        return a != b
    if v1[0] != "word" or ty not in ("uint256", "int256"):
        return None
    return {"Lt": a < b, "Gt": a > b, "Le": a <= b, "Ge": a >= b}[op]


def spec_msg(d, cd):
    op, ty, arr, msg = d
    if not msg or len(cd) < 4:
        return None
    return _dyn_bytes(cd[4:], 1 if op in ("True", "False") else 2)


def utf8_ok(b):
    try:
        b.decode("utf-8")
        return True
    except UnicodeDecodeError:
        return False


# ----------------------------------------------------------------- calldata construction

def w32(x):
    return (x % W).to_bytes(32, "big")


def pad32(b):
    return b + b"\0" * ((32 - len(b) % 32) % 32)


def abi_encode(items):
    """items: list of ('w', int) | ('b', bytes) | ('a', [int]) -> standard ABI encoding (no selector)"""
    head, tail = [], b""
    hl = 32 * len(items)
    for kind, v in items:
        if kind == "w":
            head.append(w32(v))
        elif kind == "b":
            head.append(w32(hl + len(tail)))
            tail += w32(len(v)) + pad32(v)
        else:
            head.append(w32(hl + len(tail)))
            tail += w32(len(v)) + b"".join(w32(x) for x in v)
    return b"".join(head) + tail


def concretize(segs, val):
    out = b""
    for s in segs:
        if s[0] == "c":
            out += bytes.fromhex(s[1])
        elif s[0] == "m":
            out += w32(hard_fun(val[s[1]]))
        else:
            out += (val[s[1]] % (1 << (8 * s[2]))).to_bytes(s[2], "big")
    return out


def hard_fun(x):
    """a word the branching solver cannot decide within its 1 ms: a cubic over the low 64 bits of x, sign-extended
    (64-bit multipliers: z3 gives up quickly; with 256-bit ones a single check costs seconds of bit-blasting, which its
    timeout does not interrupt)"""
    t = x % (1 << 64)
    v = (t * t * t + 0x9E3779B97F4A7C15 * t) % (1 << 64)
    return (v - (1 << 64)) % W if v >= (1 << 63) else v


def segs_of(data, syms=()):
    """data: bytes; syms: list of (offset, nbytes, name) non-overlapping -> segments"""
    segs, pos = [], 0
    for off, n, name in sorted(syms):
        if off > pos:
            segs.append(["c", data[pos:off].hex()])
        segs.append(["s", name, n])
        pos = off + n
    if pos < len(data):
        segs.append(["c", data[pos:].hex()])
    return segs


# ----------------------------------------------------------------- implementation side (L1)

def _build_bytevec(sel, segs):
    import z3

    from halmos.bytevec import ByteVec

    parts = [sel.to_bytes(4, "big")]
    syms = {}
    for s in segs:
        if s[0] == "c":
            if s[1]:
                parts.append(bytes.fromhex(s[1]))
        else:
            v = z3.BitVec(s[1], 8 * s[2])
            syms[s[1]] = v
            parts.append(v)
    return ByteVec(parts), syms


def _eval_bool(cond, syms, val):
    import z3

    if isinstance(cond, bool):
        return cond
    subs = [(v, z3.BitVecVal(val[n], v.size())) for n, v in syms.items()]
    r = z3.simplify(z3.substitute(cond, *subs)) if subs else z3.simplify(cond)
    if z3.is_true(r):
        return True
    if z3.is_false(r):
        return False
    return f"unevaluated:{r}"


def _classify_exc(e):
    if isinstance(e, _CaseTimeout):
        _TIMEOUTS[0] += 1
        return ["EXC TimeoutError"]
    if isinstance(e, UnicodeDecodeError):
        return [5]
    if isinstance(e, ValueError):
        return [3]
    if isinstance(e, (OverflowError, MemoryError)):
        return [f"EXC {type(e).__name__}"]   # huge lengths in malformed calldata: outside the model (is_huge)
    # any other class: its name, and whether SEVM.run turns it into a stuck path (HalmosException)
    from halmos.exceptions import HalmosException

    return [4, int(isinstance(e, HalmosException))] + [ord(c) for c in type(e).__name__]


def _run_handler_obs(h, sel, segs, vals):
    """observation per valuation, in the encoding of the model entry c13_run"""
    arg, syms = _build_bytevec(sel, segs)
    try:
        va = h(arg)
    except MemoryError:
        raise
    except Exception as e:  # noqa: BLE001
        return [_classify_exc(e)] * len(vals)
    out = []
    for val in vals:
        c = _eval_bool(va.cond, syms, val)
        if not isinstance(c, bool):
            out.append([c])
            continue
        m = va.msg
        if m is None:
            out.append([1, int(c)])
        elif isinstance(m, str):
            if len(m) > 65536:
                out.append(["EXC huge-message", int(c), len(m)])   # not expanded (a gigabyte message would exhaust the harness)
            else:
                out.append([2, int(c)] + list(m.encode("utf-8")))
        else:
            out.append(["symbolic-msg", int(c)])
    return out


CASE_TIMEOUT_S = 20      # a case normally takes milliseconds
_TIMEOUTS = [0]          # per worker process: after two timeouts the allowance drops to 3 s


def _pool_init():
    import resource

    lim = 4 << 30
    try:
        resource.setrlimit(resource.RLIMIT_AS, (lim, lim))
    except (ValueError, OSError):
        pass


class _CaseTimeout(Exception):
    pass


def _guarded(fn, case, n, allowance=None):
    """run fn(case) under an alarm; on timeout / MemoryError return n observations naming it"""
    import signal

    def on_alarm(signum, frame):
        raise _CaseTimeout()

    old = signal.signal(signal.SIGALRM, on_alarm)
    signal.alarm(allowance or (CASE_TIMEOUT_S if _TIMEOUTS[0] < 2 else 3))
    try:
        return fn(case)
    except _CaseTimeout:
        _TIMEOUTS[0] += 1
        return None if n is None else [["EXC TimeoutError"]] * n
    except MemoryError:
        return None if n is None else [["EXC MemoryError"]] * n
    finally:
        signal.alarm(0)
        signal.signal(signal.SIGALRM, old)


def impl_l1(case):
    return _guarded(_impl_l1, case, len(case["vals"]))


def impl_sig(case):
    return _guarded(_impl_sig, case, len(case["probes"]))


def impl_l2(case):
    r = _guarded(_impl_l2, case, None)
    if r is None and _TIMEOUTS[0] <= 1:
        # the first timeout of this worker: the machine may just be loaded; once more, with a long allowance
        r = _guarded(_impl_l2, case, None, allowance=90)
    # a case that cannot be evaluated is a broken tie (never a pass, never a failing input)
    return r if r is not None else {"exc": "TIMEOUT", "checks": []}


def _impl_l1(case):
    from halmos.assertions import assert_cheatcode_handler

    h = assert_cheatcode_handler.get(case["sel"])
    if h is None:
        return [["unbound"]] * len(case["vals"])
    return _run_handler_obs(h, case["sel"], case["segs"], case["vals"])


def _impl_sig(case):
    """mk_assert_handler on a signature string, then the handler on probe calldata"""
    from halmos.assertions import mk_assert_handler
    from halmos.exceptions import HalmosException

    try:
        h = mk_assert_handler(case["sig"])
    except HalmosException:
        return [[0]] * len(case["probes"])
    except Exception as e:  # noqa: BLE001
        return [[f"EXC {type(e).__name__}"]] * len(case["probes"])
    return [_run_handler_obs(h, 0, [["c", p[8:]]], [{}])[0] for p in case["probes"]]


# ----------------------------------------------------------------- generators

WORDS = [0, 1, 2, (1 << 255) - 1, 1 << 255, (1 << 255) + 1, W - 1, W - 2, (1 << 160) - 1, 1 << 160, 255, 256]
MSGS = [b"", b"a", b"assertion failed: x must be less than y!!", "hé€\U0001F600".encode(),
        b"\xff", b"ok\xc3\x28", b"\xc0\x80", b"\xed\xa0\x80", b"\xf4\x90\x80\x80", b"\xe2\x82", b"\xf0\x9f\x98\x80"]
BYTES_LENS = [0, 1, 31, 32, 33, 64]


def word_pool(ty, r, n):
    if ty == "bool":
        base = [0, 1, 0, 1, 2, W - 1, 1 << 255]
    elif ty == "address":
        base = [0, 1, (1 << 160) - 1, (1 << 159), 1 << 160, W - 1]
    else:
        base = list(WORDS)
    return base + [r.randrange(W) for _ in range(n)]


def bytes_pairs(r):
    out = []
    for n in BYTES_LENS:
        a = bytes(r.randrange(256) for _ in range(n))
        out.append((a, a))
        if n:
            for k in {0, n - 1, r.randrange(n)}:
                b = bytearray(a)
                b[k] ^= 1 << r.randrange(8)
                out.append((a, bytes(b)))
            out.append((a, a[:-1]))              # differing length, common prefix
            out.append((a + b"\0", a))           # only a trailing zero byte differs
            out.append((b"\0" * n, b""))         # zeros vs empty
        out.append((a, a + bytes([r.randrange(256)])))
    out.append((b"", b""))
    out.append((b"\0" * 32, b"\0" * 31))
    return out


def array_pairs(ty, r):
    pool = word_pool(ty, r, 2)
    out = [([], []), ([], [0]), ([0], []), ([0], [0, 0])]
    for n in (1, 2, 3):
        a = [r.choice(pool) for _ in range(n)]
        out.append((a, list(a)))
        for k in range(n):
            b = list(a)
            b[k] = (b[k] ^ (1 << r.choice([0, 7, 8, 159, 255]))) % W
            out.append((a, b))
        out.append((a, a[:-1]))
        out.append((a, a + [0]))
        out.append((a, a + [r.choice(pool)]))
    if ty == "int256":
        out.append(([W - 1], [1]))
    return out


def mk_case(d, sel, data, syms=(), vals=None):
    return {"kind": "l1", "descr": list(d), "sig": render(d), "sel": sel, "segs": segs_of(data, syms), "vals": vals or [{}]}


def gen_l1(tier, r, table):
    """table: spec selector -> descr"""
    cases = []
    thorough = tier != "quick"
    for sel, d in table.items():
        op, ty, arr, msg = d
        unary = op in ("True", "False")
        msgs = MSGS if msg else [None]
        if ty in ("string", "bytes") and arr:
            # bytes[] / string[]: any calldata
            enc = abi_encode([("w", 64), ("w", 96), ("w", 0), ("w", 0)] + ([("b", b"m")] if msg else []))
            cases.append(mk_case(d, sel, enc))
            cases.append(mk_case(d, sel, b""))
            continue
        if not arr and ty not in ("string", "bytes"):
            pool = word_pool(ty, r, 3 if not thorough else 12)
            if unary:
                pairs = [(a, None) for a in pool]
            else:
                pairs = list(itertools.product(pool, pool)) if thorough else \
                    [(a, b) for a in pool for b in pool if (a in WORDS[:8] and b in WORDS[:8]) or r.random() < 0.08]
                pairs += [(a, a) for a in pool]
            for k, (a, b) in enumerate(pairs):
                m = msgs[k % len(msgs)]
                items = [("w", a)] + ([] if unary else [("w", b)]) + ([("b", m)] if m is not None else [])
                cases.append(mk_case(d, sel, abi_encode(items)))
            # symbolic operands under valuations (x alone, x and y, x against a constant)
            nv = 60 if thorough else 14
            for m in (msgs if thorough else msgs[:2]):
                extra = [("b", m)] if m is not None else []
                if unary:
                    enc = abi_encode([("w", 0)] + extra)
                    vals = [{"x": v} for v in pool]
                    cases.append(mk_case(d, sel, enc, [(0, 32, "x")], vals))
                    # only the low byte symbolic
                    cases.append(mk_case(d, sel, enc, [(31, 1, "x")], [{"x": v % 256} for v in pool]))
                else:
                    enc = abi_encode([("w", 0), ("w", 0)] + extra)
                    vals = [{"x": r.choice(pool), "y": r.choice(pool)} for _ in range(nv)] + [{"x": v, "y": v} for v in pool[:8]]
                    cases.append(mk_case(d, sel, enc, [(0, 32, "x"), (32, 32, "y")], vals))
                    c = r.choice(pool)
                    enc = abi_encode([("w", 0), ("w", c)] + extra)
                    cases.append(mk_case(d, sel, enc, [(0, 32, "x")], [{"x": v} for v in pool + [c, (c + 1) % W, (c - 1) % W]]))
                    enc = abi_encode([("w", c), ("w", 0)] + extra)
                    cases.append(mk_case(d, sel, enc, [(32, 32, "y")], [{"y": v} for v in pool + [c, (c + 1) % W, (c - 1) % W]]))
            # truncated calldata (zero padding of out-of-bounds reads)
            full = abi_encode([("w", 3)] + ([] if unary else [("w", 5)]) + ([("b", b"msg")] if msg else []))
            for cut in sorted({0, 1, 31, 32, 33, 63, 64, len(full) - 1}):
                if 0 <= cut < len(full):
                    cases.append(mk_case(d, sel, full[:cut]))
        elif not arr:
            prs = bytes_pairs(r)
            for k, (a, b) in enumerate(prs):
                m = msgs[k % len(msgs)]
                items = [("b", a), ("b", b)] + ([("b", m)] if m is not None else [])
                cases.append(mk_case(d, sel, abi_encode(items)))
            # non-standard but valid layouts: shared tail, reversed tails
            a = bytes(r.randrange(256) for _ in range(33))
            tail = w32(len(a)) + pad32(a)
            hl = 96 if msg else 64
            enc = w32(hl) + w32(hl) + (w32(hl) if msg else b"") + tail
            cases.append(mk_case(d, sel, enc))
            b = bytes(r.randrange(256) for _ in range(5))
            tb = w32(len(b)) + pad32(b)
            enc = w32(hl + len(tb)) + w32(hl) + (w32(hl) if msg else b"") + tb + tail
            cases.append(mk_case(d, sel, enc))
            # symbolic content bytes
            for n in (1, 32, 33):
                enc = abi_encode([("b", b"\0" * n), ("b", a[:n])] + ([("b", b"m")] if msg else []))
                off = (96 if msg else 64) + 32
                vals = [{"x": int.from_bytes(a[:n], "big")}, {"x": 0}, {"x": int.from_bytes(a[:n], "big") ^ 1}, {"x": r.randrange(1 << (8 * n))}]
                cases.append(mk_case(d, sel, enc, [(off, n, "x")], vals))
            # malformed: offsets / lengths pointing outside, truncated
            full = abi_encode([("b", a), ("b", a)] + ([("b", b"msg")] if msg else []))
            for cut in sorted({0, 4, 32, 64, 65, 96, 128, len(full) - 40, len(full) - 1}):
                if 0 <= cut < len(full):
                    cases.append(mk_case(d, sel, full[:cut]))
            for badoff in (len(full), len(full) + 7, 1 << 64, W - 1, W - 36):
                cases.append(mk_case(d, sel, w32(badoff) + full[32:]))
                cases.append(mk_case(d, sel, full[:32] + w32(badoff) + full[64:]))
            # length a little beyond the end
            cases.append(mk_case(d, sel, full[:hl] + w32(100) + full[hl + 32:]))
        else:
            prs = array_pairs(ty, r)
            for k, (a, b) in enumerate(prs):
                m = msgs[k % len(msgs)]
                items = [("a", a), ("a", b)] + ([("b", m)] if m is not None else [])
                cases.append(mk_case(d, sel, abi_encode(items)))
            pool = word_pool(ty, r, 2)
            a = [r.choice(pool) for _ in range(2)]
            hl = 96 if msg else 64
            # symbolic element
            enc = abi_encode([("a", [0, a[1]]), ("a", a)] + ([("b", b"m")] if msg else []))
            vals = [{"x": a[0]}, {"x": a[0] ^ 1}, {"x": (a[0] + (1 << 255)) % W}] + [{"x": v} for v in pool[:4]]
            cases.append(mk_case(d, sel, enc, [(hl + 32, 32, "x")], vals))
            full = abi_encode([("a", a), ("a", a)] + ([("b", b"msg")] if msg else []))
            for cut in sorted({0, 32, 64, 96, 100, len(full) - 33, len(full) - 1}):
                if 0 <= cut < len(full):
                    cases.append(mk_case(d, sel, full[:cut]))
            for badoff in (len(full), 1 << 64, W - 1):
                cases.append(mk_case(d, sel, w32(badoff) + full[32:]))
            cases.append(mk_case(d, sel, full[:hl] + w32(3) + full[hl + 32:]))
    return cases


PROBES = None


def probes(r):
    """calldata probes (hex, without meaning for a particular signature) used to compare
    mk_assert_handler(sig) with the model behaviourally: word, bytes and array layouts that
    tell the extractor class, the operator and its signedness, and the message flag apart"""
    # word values are >= 2^254 so that a bytes/array extractor applied to the same probe reads
    # an out-of-range offset (=> empty operand) instead of a gigantic length
    ps = []
    P = 1 << 254
    for a, b in [(P, 2 * P), (2 * P, P), (W - 1, W - 1), (P, P + 1), (P + 1, P), (P, P)]:
        ps.append(abi_encode([("w", a), ("w", b), ("b", b"m")]))
    ps.append(abi_encode([("w", 0), ("b", b"unary msg")]))
    ps.append(abi_encode([("w", W - 1), ("b", b"\xff")]))
    ps.append(abi_encode([("b", b"abc"), ("b", b"abc"), ("b", b"m")]))
    ps.append(abi_encode([("b", b"abc"), ("b", b"abd"), ("b", b"\xff")]))
    ps.append(abi_encode([("b", b""), ("b", b"")]))
    ps.append(abi_encode([("a", [1, 2]), ("a", [1, 2]), ("b", b"m")]))
    ps.append(abi_encode([("a", [1]), ("a", [2]), ("b", b"m")]))
    ps.append(abi_encode([("a", [W - 1]), ("a", [1])]))
    ps.append(abi_encode([("a", []), ("a", [1])]))
    ps.append(b"")
    return [b"\0\0\0\0".hex() + p.hex() for p in ps]


def gen_sigs(tier, r, table_sigs):
    ops = OPS + ["Foo", "Equal", "NotEQ", "Lte", "true", "ULt", "SLt"]
    tys = TYS + ["uint8", "uint", "uint256[]", "bytes[]", "string[]", "bytes32[]", "uint256[][]", "[]", "bytes[", "int256", " uint256"]
    sigs = list(table_sigs)
    for op in ops:
        for ty in tys:
            for n in (1, 2, 3, 4):
                ps = [ty] * min(n, 2) + ["string"] * max(0, n - 2)
                sigs.append(f"assert{op}({','.join(ps)})")
    sigs += ["assertEq()", "assertEq(", "assertEq", "assert(bool)", "assert()", "assertEq(uint256,uint256", "assertEq)uint256(",
             "assertLt(uint256,int256)", "assertLt(int256,uint256)", "assertEq(uint256, uint256)", "assertTrue(bool,string,string)",
             "assertFalse()", "assertTrue(uint256)", "assertEq(a(,b)", "assertE)q(a,b)", "assertEq(,)", "assertEq(,,)",
             "assertGe(uint256,uint256)(", "assertGe(uint256,uint256))", "assertLe((uint256,uint256)"]
    seen, out = set(), []
    for s in sigs:
        if s not in seen and s.count("assert") == 1 and s.startswith("assert"):
            seen.add(s)
            out.append(s)
    if tier == "quick":
        keep = [s for s in out if s in set(table_sigs)]
        rest = [s for s in out if s not in set(table_sigs)]
        r.shuffle(rest)
        out = keep + rest[:160]
    return out


# ----------------------------------------------------------------- L2: SEVM.run with the call at depth 0..3

ASSUME_SEL = 0x4C63E562


# what a calling frame does with the success flag of the nested call: "ignore" (POP) or "assume_ok" -- the common
# `(bool ok,) = target.call(data); vm.assume(ok);`.  It must make no difference: a failed assertion ends the path in the
# failing frame, the caller is never resumed with ok = 0 (where vm.assume(ok) would discard the path, failure included)
_AFTER_CALL = {
    "ignore": bytes([0x50, 0x00]),
    # [ok] PUSH4 assume-selector PUSH1 0xE0 SHL PUSH0 MSTORE; PUSH1 4 MSTORE (mem[4:36] = ok); CALL(gas, hevm, 0, 0, 36, 0, 0); POP; STOP
    "assume_ok": (bytes([0x63]) + (0x4C63E562).to_bytes(4, "big") + bytes([0x60, 0xE0, 0x1B, 0x5F, 0x52, 0x60, 0x04, 0x52])
                  + bytes([0x5F, 0x5F, 0x60, 0x24, 0x5F, 0x5F, 0x73]) + HEVM.to_bytes(20, "big") + bytes([0x5A, 0xF1, 0x50, 0x00])),
}


def _fwd_code(target, after="ignore"):
    # CALLDATASIZE PUSH0 PUSH0 CALLDATACOPY; CALL(gas, target, 0, 0, CALLDATASIZE, 0, 0); <after>
    return bytes([0x36, 0x5F, 0x5F, 0x37, 0x5F, 0x5F, 0x36, 0x5F, 0x5F, 0x73]) + target.to_bytes(20, "big") + bytes([0x5A, 0xF1]) + _AFTER_CALL[after]


def _root_code(target, after="ignore"):
    # copy calldata; CALL(hevm, mem[0:36]) (the vm.assume prefix); CALL(target, mem[36:]); <after>
    return (bytes([0x36, 0x5F, 0x5F, 0x37, 0x5F, 0x5F, 0x60, 0x24, 0x5F, 0x5F, 0x73]) + HEVM.to_bytes(20, "big") + bytes([0x5A, 0xF1, 0x50])
            + bytes([0x5F, 0x5F, 0x60, 0x24, 0x36, 0x03, 0x60, 0x24, 0x5F, 0x73]) + target.to_bytes(20, "big") + bytes([0x5A, 0xF1])
            + (_AFTER_CALL[after] if target != HEVM else _AFTER_CALL["ignore"]))


CMP_OPS = {"ult": 0x10, "ugt": 0x11, "slt": 0x12, "sgt": 0x13, "eq": 0x14}


def _seq_code(chunks, steps=None):
    """copy calldata to memory; per step, on its calldata chunk (offset, length):
         cheatcode call: CALL(gas, hevm, 0, offset, length, 0, 0); POP
         branch        : PUSH32 c; CALLDATALOAD(offset); <cmp> [ISZERO]; PUSH2 L; JUMPI; L: JUMPDEST   (both sides go on at L)
       then STOP.  Returns (code, [(first pc, end pc) of each step])."""
    code = bytes([0x36, 0x5F, 0x5F, 0x37])
    ranges = []
    for k, (off, n) in enumerate(chunks):
        st = steps[k] if steps is not None else None
        start = len(code)
        if st is not None and st["kind"] == "branch":
            code += bytes([0x7F]) + (st["c"] % W).to_bytes(32, "big") + bytes([0x61]) + off.to_bytes(2, "big") + bytes([0x35, CMP_OPS[st["cmp"]]])
            if st.get("neg"):
                code += bytes([0x15])
            dest = len(code) + 4
            code += bytes([0x61]) + dest.to_bytes(2, "big") + bytes([0x57, 0x5B])
        else:
            code += (bytes([0x5F, 0x5F, 0x61]) + n.to_bytes(2, "big") + bytes([0x61]) + off.to_bytes(2, "big")
                     + bytes([0x5F, 0x73]) + HEVM.to_bytes(20, "big") + bytes([0x5A, 0xF1, 0x50]))
        ranges.append((start, len(code)))
    return code + b"\x00", ranges


def branch_taken(st, val):
    """truth of the JUMPI condition of a branch step under a valuation"""
    x, c = val[st["var"]] % W, st["c"] % W
    if st.get("hard"):
        x = hard_fun(x)
    t = {"ult": x < c, "ugt": x > c, "slt": _signed(x) < _signed(c), "sgt": _signed(x) > _signed(c), "eq": x == c}[st["cmp"]]
    return t != bool(st.get("neg"))


def _assume_word(spec, syms):
    import z3

    if spec[0] == "const":
        return w32(spec[1])
    x = syms.setdefault(spec[1], z3.BitVec(spec[1], 256))
    if spec[0] == "var":
        return x
    one, zero = z3.BitVecVal(1, 256), z3.BitVecVal(0, 256)
    if spec[0] == "ult":
        return z3.If(z3.ULT(x, z3.BitVecVal(spec[2], 256)), one, zero)
    if spec[0] == "slt":
        return z3.If(x < z3.BitVecVal(spec[2], 256), one, zero)
    raise ValueError(spec)


def assume_holds(spec, val):
    if spec[0] == "const":
        return spec[1] != 0
    x = val[spec[1]]
    if spec[0] == "var":
        return x != 0
    if spec[0] == "ult":
        return x < spec[2]
    return _signed(x) < _signed(spec[2])


def _impl_l2(case):
    """returns {"paths": [...per yielded path: flag, stuck, error, depth, holds-per-valuation], "checks": [...]} or {"exc": name}"""
    import z3

    from halmos.__main__ import is_global_fail_set, mk_block, mk_solver
    from halmos.bytevec import ByteVec
    from halmos.calldata import FunctionInfo
    from halmos.cheatcodes import hevm_cheat_code
    from halmos.config import default_config
    from halmos.sevm import SEVM, CallContext, Contract, Exec, Message, Path, con_addr
    from halmos.utils import EVM

    depth = case["depth"]
    syms = {}

    def seg_parts(segs):
        out, n = [], 0
        for s in segs:
            if s[0] == "c":
                if s[1]:
                    out.append(bytes.fromhex(s[1]))
                n += len(s[1]) // 2
            elif s[0] == "m":
                x = syms.setdefault(s[1], z3.BitVec(s[1], 256))
                t = z3.Extract(63, 0, x)
                out.append(z3.SignExt(192, t * t * t + z3.BitVecVal(0x9E3779B97F4A7C15, 64) * t))
                n += 32
            else:
                out.append(syms.setdefault(s[1], z3.BitVec(s[1], 8 * s[2])))
                n += s[2]
        return out, n

    seq = case.get("steps")
    chunks = []
    if seq is None:
        parts = [ASSUME_SEL.to_bytes(4, "big"), _assume_word(case["assume"], syms), case["sel"].to_bytes(4, "big")]
        parts += seg_parts(case["segs"])[0]
    else:
        # the frame at `depth` issues one cheatcode call per step, each on its own calldata chunk
        parts, pos = [], 0
        for st in seq:
            if st["kind"] == "assume":
                ps, n = [ASSUME_SEL.to_bytes(4, "big"), _assume_word(st["assume"], syms)], 36
            elif st["kind"] == "branch":
                # the compared word: the variable itself, or (hard) a function of it the branching solver cannot decide in 1 ms
                ps, n = seg_parts([["m", st["var"]] if st.get("hard") else ["s", st["var"], 32]])[0], 32
            else:
                sp, sn = seg_parts(st["segs"])
                ps, n = [st["sel"].to_bytes(4, "big")] + sp, 4 + sn
            parts += ps
            chunks.append((pos, n))
            pos += n
    data = ByteVec(parts)

    args = default_config()
    sevm = SEVM(args, FunctionInfo("T", "test", "test()", "f8a8fd6d"))
    solver = mk_solver(args)
    if case.get("branch_timeout_ms"):
        solver.set("timeout", case["branch_timeout_ms"])   # the branching solver's allowance (default 1 ms)
    addrs = [0x1000 + i for i in range(depth + 1)]
    seq_ranges = []
    code = {}
    for i, a in enumerate(addrs):
        tgt = addrs[i + 1] if i < depth else HEVM
        if seq is None:
            after = case.get("after", "ignore") if i < depth else "ignore"   # the frame that calls hevm itself just goes on
            code[con_addr(a)] = Contract(_root_code(tgt, after) if i == 0 else _fwd_code(tgt, after))
        else:
            if i < depth:
                code[con_addr(a)] = Contract(_fwd_code(tgt, case.get("after", "ignore")))
            else:
                sc, seq_ranges = _seq_code(chunks, seq)
                code[con_addr(a)] = Contract(sc)
    this = con_addr(addrs[0])
    message = Message(target=this, caller=z3.BitVec("msg_sender", 160), origin=z3.BitVec("tx_origin", 160),
                      value=z3.BitVecVal(0, 256), data=data, call_scheme=EVM.CALL)
    ex0 = sevm.mk_exec(code=code, storage={a: {} for a in code}, transient_storage={a: {} for a in code},
                       balance=z3.Array("balance_0", z3.BitVecSort(160), z3.BitVecSort(256)), block=mk_block(),
                       context=CallContext(message), pgm=code[this], path=Path(solver))

    # record the solver answers given inside hevm_cheat_code.handle (second call = the cheatcode under test)
    checks = []
    state = {"in": 0, "n": 0, "site": 0, "k": 0}
    orig_check, orig_handle, orig_jumpi = Exec.check, hevm_cheat_code.__dict__["handle"], SEVM.jumpi
    vals = case["vals"]
    truth = {}      # z3 term (by sexpr) -> its truth under each valuation
    records = {}    # (mask of the valuations on the path asked about, step, negated?) -> answer
    unsound, conflicts = [], []

    def truth_of(term):
        key = term.sexpr() if hasattr(term, "sexpr") else repr(term)
        if key not in truth:
            truth[key] = [_eval_bool(term, syms, {n: val.get(n, 0) for n in syms}) for val in vals]
        return truth[key]

    def mask_of(conds):
        m = 0
        for j in range(len(vals)):
            if all(truth_of(c)[j] is True for c in conds):
                m |= 1 << j
        return m

    def check(self, cond):
        r = orig_check(self, cond)
        if state["in"]:
            checks.append((state["n"], str(r)))
        if state["site"]:
            # one query of the assert branch / of SEVM.jumpi: the first asks about the condition, the second about its negation
            neg, state["k"] = state["k"], state["k"] + 1
            m = mask_of(list(self.path.conditions))
            if str(r) == "unsat":
                # the Section hypothesis of C13_fail_exact / C13_seq_exact: an unsat answer must be true of the path it is given for
                tv = truth_of(z3.simplify(cond))
                bad = [j for j in range(len(vals)) if m >> j & 1 and tv[j] is True]
                if bad and len(unsound) < 4:
                    unsound.append({"valuation": vals[bad[0]], "cond": str(z3.simplify(cond))[:300], "pc": self.pc, "depth": self.context.depth,
                                    "path": [str(c)[:200] for c in self.path.conditions][:12]})
            if seq is not None and self.context.depth == depth + 1 and neg < 2:
                ks = [k for k, (a, b) in enumerate(seq_ranges) if a <= self.pc < b]
                if len(ks) == 1:
                    key = (m, ks[0], neg)
                    if records.setdefault(key, str(r)) != str(r):
                        conflicts.append(key)
        return r

    def handle(sevm_, ex, arg, stack):
        state["in"] += 1
        state["n"] += 1
        state["site"], state["k"] = 1, 0
        try:
            return orig_handle.__func__(sevm_, ex, arg, stack)
        finally:
            state["in"] -= 1
            state["site"] = 0

    def jumpi(self_, ex, stack, target, cond):
        state["site"], state["k"] = 1, 0
        try:
            return orig_jumpi(self_, ex, stack, target, cond)
        finally:
            state["site"] = 0

    Exec.check = check
    hevm_cheat_code.handle = staticmethod(handle)
    SEVM.jumpi = jumpi
    out = {"paths": [], "checks": None}
    try:
        for e in sevm.run(ex0):
            conds = list(e.path.conditions)
            holds = []
            for val in case["vals"]:
                ok = True
                for c in conds:
                    v = _eval_bool(c, syms, {n: val.get(n, 0) for n in syms})
                    if v is not True:
                        ok = v if v is False else str(v)
                        break
                holds.append(ok)
            err = e.context.output.error
            out["paths"].append({"flag": bool(is_global_fail_set(e.context)), "stuck": bool(e.context.is_stuck()),
                                 "error": type(err).__name__ if err is not None else None, "depth": e.context.depth,
                                 "nconds": len(conds), "holds": holds,
                                 "mask": sum(1 << j for j, h in enumerate(holds) if h is True)})
    except (_CaseTimeout, MemoryError):
        raise
    except Exception as e:  # noqa: BLE001
        out = {"exc": type(e).__name__}
    finally:
        Exec.check = orig_check
        hevm_cheat_code.handle = orig_handle
        SEVM.jumpi = orig_jumpi
    out["checks"] = [r for n, r in checks if n == 2]
    out["unsound"] = unsound
    if seq is not None:
        # the oracle as it answered: (samples on the path asked about, step, negated?) -> answer
        out["records"] = [[m, k, g, a] for (m, k, g), a in sorted(records.items())]
        out["record_conflicts"] = len(conflicts)
        out["calls"] = state["n"]
    return out


def gen_l2(tier, r, table):
    cases = []
    by_sig = {render(d): (sel, d) for sel, d in table.items()}
    thorough = tier != "quick"
    pool = WORDS[:8] + [5, 7, 10, 11]

    def add(depth, assume, sig, data, syms=(), vals=None, mode="assert"):
        sel, d = by_sig[sig] if sig in by_sig else (ASSUME_SEL, None)
        cases.append({"kind": "l2", "mode": mode, "depth": depth, "assume": assume, "sig": sig, "sel": sel,
                      "descr": list(d) if d else None, "segs": segs_of(data, syms), "vals": vals or [{}],
                      "after": "assume_ok" if depth and len(cases) % 2 else "ignore"})

    T = ["const", 1]
    for depth in range(4):
        xy = [{"x": r.choice(pool), "y": r.choice(pool)} for _ in range(24 if thorough else 10)] + [{"x": v, "y": v} for v in pool[:4]]
        for sig in ["assertLt(uint256,uint256)", "assertLt(int256,int256)", "assertGe(int256,int256,string)", "assertLe(uint256,uint256)",
                    "assertEq(uint256,uint256)", "assertNotEq(address,address)", "assertEq(bytes32,bytes32,string)"]:
            msg = [("b", b"why")] if sig.endswith(",string)") else []
            add(depth, T, sig, abi_encode([("w", 0), ("w", 0)] + msg), [(0, 32, "x"), (32, 32, "y")], xy)
            conc = [(3, 3), (3, W - 4), (W - 4, 3)]
            for ci, (a_, b_) in enumerate(conc):
                if thorough or ci == (depth + len(sig)) % 3:
                    add(depth, T, sig, abi_encode([("w", a_), ("w", b_)] + msg))
        xs = [{"x": v} for v in pool]
        # prior path from vm.assume, then an assert that it implies / contradicts / splits
        add(depth, ["ult", "x", 5], "assertLt(uint256,uint256)", abi_encode([("w", 0), ("w", 10)]), [(0, 32, "x")], xs)
        add(depth, ["ult", "x", 10], "assertLt(uint256,uint256)", abi_encode([("w", 0), ("w", 5)]), [(0, 32, "x")], xs)
        add(depth, ["ult", "x", 5], "assertGe(uint256,uint256)", abi_encode([("w", 0), ("w", 5)]), [(0, 32, "x")], xs)
        add(depth, ["slt", "x", 0], "assertLt(int256,int256)", abi_encode([("w", 0), ("w", 0)]), [(0, 32, "x")], xs)
        add(depth, ["slt", "x", 0], "assertLt(uint256,uint256)", abi_encode([("w", 0), ("w", 1 << 255)]), [(0, 32, "x")], xs)
        add(depth, ["var", "x"], "assertTrue(bool)", abi_encode([("w", 0)]), [(0, 32, "x")], xs)
        add(depth, ["var", "x"], "assertFalse(bool,string)", abi_encode([("w", 0), ("b", b"m")]), [(0, 32, "x")], xs)
        add(depth, ["const", 0], "assertTrue(bool)", abi_encode([("w", 0)]))
        add(depth, T, "assertGe(uint256,uint256)", abi_encode([("w", 0), ("w", 0)]), [(0, 32, "x")], xs)      # trivially true
        add(depth, T, "assertEq(uint256,uint256)", abi_encode([("w", 0), ("w", 0)]), [(0, 32, "x"), (32, 32, "x")], xs)
        add(depth, T, "assertTrue(bool)", abi_encode([("w", 0)]), [(0, 32, "x")], xs)
        add(depth, T, "assertFalse(bool)", abi_encode([("w", 0)]), [(31, 1, "x")], [{"x": v % 256} for v in pool])
        # a condition the solver cannot decide within the 1 ms branching timeout (=> unknown): both
        # the failing branch and the continuing path must exist
        hx = r.choice(pool[4:])
        hv = [{"x": hx}, {"x": (hx + 1) % W}, {"x": 3}, {"x": 0}]
        cases.append({"kind": "l2", "mode": "assert", "depth": depth, "assume": T, "sig": "assertEq(uint256,uint256)",
                      "sel": by_sig["assertEq(uint256,uint256)"][0], "descr": list(by_sig["assertEq(uint256,uint256)"][1]),
                      "segs": [["m", "x"], ["c", w32(hard_fun(hx)).hex()]], "vals": hv})
        cases.append({"kind": "l2", "mode": "assert", "depth": depth, "assume": T, "sig": "assertLt(int256,int256)",
                      "sel": by_sig["assertLt(int256,int256)"][0], "descr": list(by_sig["assertLt(int256,int256)"][1]),
                      "segs": [["m", "x"], ["c", w32(hard_fun(hx)).hex()]], "vals": hv})
        # bytes / arrays
        a = bytes(r.randrange(256) for _ in range(33))
        add(depth, T, "assertEq(bytes,bytes)", abi_encode([("b", a), ("b", a)]))
        add(depth, T, "assertEq(bytes,bytes)", abi_encode([("b", a), ("b", a[:-1])]))
        add(depth, T, "assertNotEq(string,string,string)", abi_encode([("b", a), ("b", a), ("b", b"m")]))
        add(depth, T, "assertEq(string,string)", abi_encode([("b", b"\0" * 32), ("b", a[:32])]), [(64 + 32, 32, "x")],
            [{"x": int.from_bytes(a[:32], "big")}, {"x": 0}, {"x": 1}])
        add(depth, T, "assertEq(uint256[],uint256[])", abi_encode([("a", [1, 2]), ("a", [1, 2])]))
        add(depth, T, "assertEq(uint256[],uint256[])", abi_encode([("a", [1, 2]), ("a", [1])]))
        add(depth, T, "assertEq(int256[],int256[])", abi_encode([("a", [0, 2]), ("a", [1, 2])]), [(64 + 32, 32, "x")], xs)
        add(depth, T, "assertNotEq(bool[],bool[])", abi_encode([("a", []), ("a", [])]))
        # known defects, at depth
        add(depth, T, "assertTrue(bool,string)", abi_encode([("w", 1), ("b", b"\xff")]))
        add(depth, T, "assertEq(bytes[],bytes[])", abi_encode([("w", 64), ("w", 96), ("w", 0), ("w", 0)]))
        # vm.assume itself placed at this depth
        add(depth, T, "assume(bool)", abi_encode([("w", 0)]), [(0, 32, "x")], xs, mode="assume")
        add(depth, ["ult", "x", 7], "assume(bool)", abi_encode([("w", 0)]), [(0, 32, "y")], xy, mode="assume")
        add(depth, T, "assume(bool)", abi_encode([("w", 0)]), mode="assume")
        add(depth, T, "assume(bool)", abi_encode([("w", 2)]), mode="assume")
    # every bound selector once failing and once passing, at a random depth
    for sel, d in table.items():
        op, ty, arr, msg = d
        if ty in ("string", "bytes") and arr:
            continue
        m = [("b", b"m")] if msg else []
        if op in ("True", "False"):
            items = [[("w", 1)], [("w", 0)]]
        elif ty in ("string", "bytes"):
            items = [[("b", b"ab"), ("b", b"ab")], [("b", b"ab"), ("b", b"ab\0")]]
        elif arr:
            items = [[("a", [1, 0]), ("a", [1, 0])], [("a", [1, 0]), ("a", [1])]]
        else:
            # (1, 0) and (0, 1): one of them violates each of Lt Gt Le Ge Eq; (1, 1) violates NotEq, Lt, Gt
            items = [[("w", 1), ("w", 0)], [("w", 0), ("w", 1)], [("w", 1), ("w", 1)]]
            if not thorough:
                items = items[:2] if op in ("Lt", "Gt") else (items[1:] if op == "Ge" else [items[0], items[2]])
        for it in items:
            add(r.randrange(4), T, render(d), abi_encode(it + m))
    return cases


# ----------------------------------------------------------------- comparison helpers

def is_huge(obs):
    return isinstance(obs, list) and obs and isinstance(obs[0], str) and obs[0] in ("EXC OverflowError", "EXC MemoryError", "EXC TimeoutError", "EXC _CaseTimeout", "EXC huge-message")


def enc_sig_cd(sig, cd):
    return [len(sig)] + [ord(c) for c in sig] + list(cd)


def known_or_fail(rep, what, case, sig):
    """failing input: KNOWN-FINDING when it matches a recorded defect, else a violation"""
    f = {"sig": sig}
    global_ids = {k.get("id") for k in common.known_findings().get("findings", [])}
    for k in KNOWN:
        if common.finding_matches(k, f):
            if k["id"] in global_ids:
                break  # let Report.finish match it against known_findings.json
            hits = rep.coverage.setdefault("known_findings_hit_local", {})
            if k["id"] not in hits:
                print(f"KNOWN-FINDING: property={PID} {k['id']}: {k['what']}")
                hits[k["id"]] = {"what": k["what"], "first_case": case, "count": 0}
            hits[k["id"]]["count"] += 1
            return True
    # at most 4 recorded per kind of defect (a known finding must not use up the room of a new one)
    if len([f for f in rep.failures if f["kind"] == "failing-input" and (f.get("sig") or {}).get("defect") == sig.get("defect")]) < 4:
        rep.fail("failing-input", what, case=case, sig=sig)
    return False


def check_l2(rep, bad, l2, impl2, res2):
    """spec-vs-implementation per sampled input, model-vs-implementation on the outcome shape"""
    enc = {"unsat": 0, "sat": 1, "unknown": 2}
    for k, (c, im) in enumerate(zip(l2, impl2)):
        d = tuple(c["descr"]) if c["descr"] else None
        shown = {"l2": True, "mode": c["mode"], "depth": c["depth"], "assume": c["assume"], "sig": c["sig"], "sel": c["sel"], "segs": c["segs"], "after": c.get("after", "ignore")}
        rep.count("l2_callers", c.get("after", "ignore") if c["depth"] else "no-caller")
        rep.count("l2_depth", c["depth"])
        rep.count("l2_mode", c["mode"] + ("/hard" if any(s[0] == "m" for s in c["segs"]) else "/symbolic" if any(s[0] == "s" for s in c["segs"]) else "/concrete"))
        if im.get("checks"):
            rep.count("l2_solver_answers", "/".join(im["checks"]))
        nontriv = False
        if im.get("exc") == "TIMEOUT":
            bad("broken-tie", f"L2 {c['sig']} depth {c['depth']}: the run did not finish within the allowance (twice): not evaluated", shown)
            continue
        if "exc" in im:
            cd0 = c["sel"].to_bytes(4, "big") + concretize(c["segs"], c["vals"][0])
            m = spec_msg(d, cd0) if d else None
            if d and d[1] in ("string", "bytes") and d[2]:
                bad("failing-input", f"{c['sig']} at call depth {c['depth']}: {im['exc']} escapes SEVM.run: the unsupported overload takes every path of the test down instead of ending this path as stuck", shown, {"defect": "unsupported-escapes-run", "exc": im["exc"]})
            elif m is not None and not utf8_ok(m) and im["exc"] == "UnicodeDecodeError":
                bad("failing-input", f"{c['sig']} at call depth {c['depth']}: UnicodeDecodeError escapes SEVM.run", shown, {"defect": "unicode-message"})
            else:
                bad("failing-input", f"{c['sig']} at call depth {c['depth']}: {im['exc']} escapes SEVM.run", shown, {"defect": "exception", "exc": im["exc"]})
            rep.case({"l2": k, "sig": c["sig"], "depth": c["depth"]}, nontrivial=True)
            continue
        paths = im["paths"]
        report_unsound(bad, im, f"L2 {c['sig']} at call depth {c['depth']}", shown)
        for p in paths:
            if p["flag"] and (p["error"] != "FailCheatcode" or p["stuck"] or p["depth"] != c["depth"] + 1):
                bad("broken-tie", f"L2 {c['sig']} depth {c['depth']}: a flagged path is not an un-finalized FailCheatcode state of the calling frame: {p}", shown)
            if any(isinstance(h, str) for h in p["holds"]):
                bad("broken-tie", f"L2 {c['sig']}: a path condition could not be evaluated: {p['holds']}", shown)
        for j, val in enumerate(c["vals"]):
            prior = assume_holds(c["assume"], val)
            failed = any(p["flag"] and p["holds"][j] is True for p in paths)
            normal = any((not p["flag"]) and p["error"] is None and not p["stuck"] and p["holds"][j] is True for p in paths)
            other = any((not p["flag"]) and (p["error"] is not None or p["stuck"]) and p["holds"][j] is True for p in paths)
            cd = c["sel"].to_bytes(4, "big") + concretize(c["segs"], val)
            sv = dict(shown, valuation=val, observed={"failure_reported": failed, "continues": normal})
            if d and d[1] in ("string", "bytes") and d[2]:
                # unsupported overload: exactly the inputs of the prior path end on a stuck path; nothing passes, nothing fails
                nontriv = True
                rep.count("l2_expected", "stuck" if prior else "excluded-by-assume")
                stuckp = any((not p["flag"]) and p["stuck"] and p["holds"][j] is True for p in paths)
                errp = any((not p["flag"]) and (not p["stuck"]) and p["error"] is not None and p["holds"][j] is True for p in paths)
                if failed or normal or errp or stuckp != prior:
                    bad("failing-input", f"L2 {c['sig']} at call depth {c['depth']} after vm.assume({c['assume']}): input {val}: failure={failed}, continues={normal}, stuck={stuckp}, other error={errp}; an unsupported cheatcode must leave exactly the inputs of the prior path ({prior}) on a stuck path", sv, {"defect": "l2-unsupported", "sig": c["sig"]})
                continue
            if other:
                bad("failing-input", f"L2 {c['sig']} depth {c['depth']}: input {val} ends in an error/stuck path that is not a reported assertion failure", sv, {"defect": "l2-other-path", "sig": c["sig"]})
            if c["mode"] == "assume":
                want = prior and (int.from_bytes(cd[4:36], "big") != 0)
                nontriv = True
                if failed or normal != want:
                    bad("failing-input", f"L2 vm.assume at depth {c['depth']}: input {val}: continues={normal}, failure={failed}; the path must continue exactly when the assumed conditions hold ({want})", sv, {"defect": "l2-assume"})
                continue
            sp = spec_assert(d, cd)
            if sp is None:
                continue
            nontriv = True
            want_fail = prior and not sp
            rep.count("l2_expected", "fail" if want_fail else ("pass" if prior else "excluded-by-assume"))
            if failed != want_fail:
                bad("failing-input", f"L2 {c['sig']} at call depth {c['depth']} after vm.assume({c['assume']}): input {val}: failure reported = {failed}, but the relation {'holds' if sp else 'is violated'} and the assumption {'holds' if prior else 'fails'}", sv, {"defect": "l2-wrong-failure-set", "sig": c["sig"]})
            if prior and sp and not normal:
                bad("failing-input", f"L2 {c['sig']} at call depth {c['depth']}: passing input {val} is dropped (no continuing path)", sv, {"defect": "l2-dropped-pass", "sig": c["sig"]})
            if not prior and normal:
                bad("failing-input", f"L2 {c['sig']} at call depth {c['depth']}: input {val} violates the earlier vm.assume but continues", sv, {"defect": "l2-assume", "sig": c["sig"]})
        # outcome shape vs the branching model fed with the recorded solver answers
        if res2 is not None and res2.get(k) is not None:
            mo = res2[k]
            outs = [mo[i:i + 4] for i in range(0, len(mo), 4)]
            m_y = [o for o in outs if o[0] == 1]
            m_c = [o for o in outs if o[0] == 2]
            i_y = [p for p in paths if p["flag"]]
            i_c = [p for p in paths if not p["flag"] and p["error"] is None and not p["stuck"]]
            ok = len(m_y) == len(i_y) and len(m_c) == len(i_c) and all(o[2] == 1 and o[3] == c["depth"] + 1 for o in m_y)
            if not ok:
                bad("broken-tie", f"L2 {c['sig']} depth {c['depth']}: solver answers {im['checks']} -> model outcomes {outs}, implementation paths {paths}", shown)
        rep.case({"l2": k, "sig": c["sig"], "depth": c["depth"], "assume": c["assume"], "segs": c["segs"], "nvals": len(c["vals"])}, nontrivial=nontriv)


# ----------------------------------------------------------------- L2s: a sequence of cheatcode calls in one frame

def _is_unsupported(d):
    return d is not None and d[1] in ("string", "bytes") and bool(d[2])


def gen_l2seq(tier, r, table):
    """cases {"kind": "l2seq", "depth", "steps": [...], "vals": [...]}: the frame at call depth `depth` issues the
    steps one after the other (each a vm.assert* overload on its own calldata, or vm.assume) and returns"""
    by_sig = {render(d): (sel, d) for sel, d in table.items()}
    thorough = tier != "quick"
    pool = WORDS[:8] + [3, 4, 5, 7, 9, 10, 11]

    def A(sig, items, syms=()):
        sel, d = by_sig[sig]
        return {"kind": "assert", "sig": sig, "sel": sel, "descr": list(d), "segs": segs_of(abi_encode(items), syms)}

    def M(spec):
        return {"kind": "assume", "assume": spec}

    def Br(cmp_, var, c, neg=False, hard=False):
        # `if (var cmp c) {} else {}`: a JUMPI on the condition (negated: on its complement, i.e. the other side is the
        # fall-through, explored first), both sides rejoin
        return {"kind": "branch", "cmp": cmp_, "var": var, "c": c, "neg": neg, "hard": hard}

    X, Y, B = [(0, 32, "x")], [(0, 32, "y")], [(31, 1, "b")]
    unsupported = [lambda: A("assertEq(bytes[],bytes[])", [("w", 64), ("w", 96), ("w", 0), ("w", 0)]),
                   lambda: A("assertNotEq(string[],string[],string)", [("w", 96), ("w", 128), ("b", b"m"), ("w", 0), ("w", 0)]),
                   lambda: A("assertEq(string[],string[])", [("w", 64), ("w", 96), ("w", 0), ("w", 0)]),
                   lambda: A("assertNotEq(bytes[],bytes[])", [])]
    asserts = [lambda: A("assertLt(uint256,uint256)", [("w", 0), ("w", 5)], X),
               lambda: A("assertLt(uint256,uint256)", [("w", 0), ("w", 10)], X),
               lambda: A("assertGe(uint256,uint256)", [("w", 0), ("w", 3)], X),
               lambda: A("assertLt(int256,int256)", [("w", 0), ("w", 0)], X),
               lambda: A("assertGt(int256,int256,string)", [("w", 0), ("w", W - 3), ("b", b"why")], Y),
               lambda: A("assertTrue(bool)", [("w", 0)], B),
               lambda: A("assertFalse(bool,string)", [("w", 0), ("b", b"no")], B),
               lambda: A("assertEq(uint256,uint256)", [("w", 0), ("w", 0)], [(0, 32, "x"), (32, 32, "y")]),
               lambda: A("assertNotEq(uint256,uint256)", [("w", 0), ("w", 7)], X),
               lambda: A("assertLe(uint256,uint256)", [("w", 0), ("w", 0)], [(0, 32, "y"), (32, 32, "x")]),
               lambda: A("assertTrue(bool)", [("w", 0)]),                                   # literally false: the state itself fails
               lambda: A("assertEq(uint256,uint256)", [("w", 3), ("w", 3)]),                # literally true
               lambda: A("assertEq(bytes,bytes)", [("b", b"ab"), ("b", b"ab")]),
               lambda: A("assertEq(string,string)", [("b", b"ab"), ("b", b"ab\0")]),
               lambda: A("assertEq(uint256[],uint256[])", [("a", [1, 2]), ("a", [1, 2])]),
               lambda: A("assertNotEq(int256[],int256[])", [("a", [0]), ("a", [1])], [(64 + 32, 32, "y")])]
    assumes = [lambda: M(["ult", "x", 10]), lambda: M(["ult", "x", 4]), lambda: M(["slt", "x", 0]), lambda: M(["var", "y"]),
               lambda: M(["ult", "y", 1 << 255]), lambda: M(["const", 1]), lambda: M(["const", 0])]

    def vals(n):
        out = [{"x": r.choice(pool), "y": r.choice(pool), "b": r.choice([0, 1, 1, 0])} for _ in range(n)]
        out += [{"x": v, "y": v, "b": k % 2} for k, v in enumerate(pool[:4])]
        return out

    branches = [lambda: Br("ult", "x", 5), lambda: Br("ult", "x", 5, True), lambda: Br("ugt", "x", 200), lambda: Br("ugt", "x", 9, True),
                lambda: Br("ult", "x", 10), lambda: Br("ult", "x", 3, True), lambda: Br("slt", "x", 0), lambda: Br("sgt", "x", 4, True),
                lambda: Br("eq", "x", 7), lambda: Br("eq", "x", 7, True), lambda: Br("ult", "y", 5), lambda: Br("ugt", "y", 9, True)]
    cases = []

    def add(depth, steps, tag, slow_solver=None):
        has_branch = any(st["kind"] == "branch" for st in steps)
        # valuations: random ones, plus every constant the steps compare against and its two neighbours (the inputs
        # that tell the sides of each branch / assumption / assertion apart), for x and for y
        consts = {3, 5, 10}
        for st in steps:
            if st["kind"] == "branch":
                consts.add(st["c"] % W)
            elif st["kind"] == "assume" and len(st["assume"]) == 3:
                consts.add(st["assume"][2] % W)
        bnd = sorted({(c_ + d_) % W for c_ in consts for d_ in (-1, 0, 1)})
        if len(bnd) > 14:
            bnd = sorted(r.sample(bnd, 14))
        vs = vals(10 if thorough else 4)
        vs += [{"x": v, "y": r.choice(bnd), "b": k % 2} for k, v in enumerate(bnd)]
        vs += [{"x": r.choice(bnd), "y": v, "b": k % 2} for k, v in enumerate(bnd[::3])]
        c = {"kind": "l2seq", "depth": depth, "steps": steps, "vals": vs, "tag": tag,
             "after": "assume_ok" if depth and len(cases) % 2 else "ignore"}
        if has_branch if slow_solver is None else slow_solver:
            # let the branching solver decide (its default allowance of 1 ms mostly does, but not on a loaded machine):
            # what a path learns from a decided query is what must not reach its siblings
            c["branch_timeout_ms"] = 400
        cases.append(c)

    for depth in range(4):
        u = unsupported[depth % len(unsupported)]
        # an earlier assertion's failing branch is on the worklist when the unsupported call is reached
        add(depth, [asserts[0](), u()], "assert;unsupported")
        add(depth, [M(["ult", "x", 10]), asserts[2](), u(), asserts[10]()], "assume;assert;unsupported;assert")
        add(depth, [u(), asserts[10]()], "unsupported;false")
        add(depth, [asserts[10](), u()], "false;unsupported")
        add(depth, [M(["const", 0]), u()], "assume(false);unsupported")
        add(depth, [asserts[1](), asserts[0](), M(["var", "y"]), asserts[7]()], "assert;assert;assume;assert")
        add(depth, [asserts[5](), M(["ult", "x", 4]), asserts[3](), asserts[11]()], "assert;assume;assert;true")
        # known finding, in a sequence: the UnicodeDecodeError of the second call takes the first call's failure down
        add(depth, [asserts[0](), A("assertTrue(bool,string)", [("w", 1), ("b", b"\xff")])], "assert;non-utf8-message")
        for _ in range(30 if thorough else 5):
            n = r.choice([2, 3, 3, 4, 5])
            steps = []
            for _k in range(n):
                q = r.random()
                steps.append(r.choice(unsupported)() if q < 0.15 else r.choice(assumes)() if q < 0.4 else r.choice(asserts)())
            add(depth, steps, "random")
        # branches on the asserted operand before the assertions: sibling paths reach the same assertion under different
        # constraints, in both orders of exploration (the fall-through side runs first; `neg` swaps the sides)
        for neg in (False, True):
            add(depth, [M(["ult", "x", 100]), Br("ugt", "x", 200), Br("ult", "x", 5, neg), asserts[1]()], "assume;branch;branch;assert")
        add(depth, [asserts[1](), Br("ult", "x", 5, depth % 2 == 0), asserts[0](), asserts[2]()], "assert;branch;assert;assert")
        add(depth, [M(["ult", "x", 10]), Br("ult", "x", 3, depth % 2 == 1), asserts[2](), u()], "assume;branch;assert;unsupported")
        # a branch the solver cannot decide (default allowance): both sides must be followed
        add(depth, [Br("ult", "x", 1 << 200, depth % 2 == 1, hard=True), asserts[1]()], "undecided-branch;assert", slow_solver=False)
        add(depth, [M(["ult", "x", 12]), Br("slt", "x", 0, depth % 2 == 0, hard=True), asserts[0](), asserts[2]()], "assume;undecided-branch;assert;assert", slow_solver=False)
        for _ in range(24 if thorough else 4):
            # assume / refuted branch first (so that something has been learnt), then branches and asserts interleaved
            steps = [r.choice(assumes[:3])(), r.choice(branches)()]
            for _k in range(r.choice([2, 3, 3, 4])):
                q = r.random()
                steps.append(r.choice(branches)() if q < 0.4 else r.choice(assumes)() if q < 0.5 else r.choice(unsupported)() if q < 0.57 else r.choice(asserts[:10])())
            steps.append(r.choice(asserts[:4])())
            add(depth, steps, "random-branching")
    return cases


def step_calldata(st, val):
    return st["sel"].to_bytes(4, "big") + concretize(st["segs"], val)


def foundry_verdict(steps, val):
    """Foundry's run of the sequence on ONE input: 'fail' at the first false assertion, 'rejected' at the first false
    assumption, 'unsupported' at an overload halmos does not implement, else 'pass'; None when some assert's calldata is
    not a valid encoding under this valuation (the relation is undefined)"""
    for st in steps:
        if st["kind"] == "branch":
            continue   # both sides rejoin: nothing changes for a single input
        if st["kind"] == "assume":
            if not assume_holds(st["assume"], val):
                return "rejected"
        else:
            d = tuple(st["descr"])
            if _is_unsupported(d):
                return "unsupported"
            sp = spec_assert(d, step_calldata(st, val))
            if sp is None:
                return None
            if not sp:
                return "fail"
    return "pass"


def step_truth(st, val):
    """truth of the step's condition under a valuation, from the specification (not from halmos' terms)"""
    if st["kind"] == "assume":
        return assume_holds(st["assume"], val)
    if st["kind"] == "branch":
        return branch_taken(st, val)
    d = tuple(st["descr"])
    if _is_unsupported(d):
        return False
    return bool(spec_assert(d, step_calldata(st, val)))


def step_name(st):
    if st["kind"] == "assert":
        return st["sig"]
    if st["kind"] == "assume":
        return f"assume({st['assume']})"
    return f"if({'!' if st.get('neg') else ''}{'f(' + st['var'] + ')' if st.get('hard') else st['var']} {st['cmp']} {st['c']})"


def l2seq_model_calls(cases, impls):
    enc = {"unsat": 0, "sat": 1, "unknown": 2}
    calls = []
    for c, im in zip(cases, impls):
        vals = c["vals"]
        args = [c["depth"], len(vals), len(c["steps"])]
        for st in c["steps"]:
            tbl = [int(step_truth(st, v)) for v in vals]
            if st["kind"] == "assume":
                args += [1, int(st["assume"] == ["const", 0])] + tbl
            elif st["kind"] == "branch":
                args += [2] + tbl
            else:
                cd = step_calldata(st, vals[0])
                args += [0, len(st["sig"])] + [ord(x) for x in st["sig"]] + [len(cd)] + list(cd) + tbl
        for m, k, g, a in im.get("records") or []:
            args += [m, k, g, enc[a]]
        calls.append(("c13_seq", args))
    return calls


def report_unsound(bad, im, where, shown):
    """an `unsat` answer of ex.check that a sampled input of the path it was asked about contradicts: the hypothesis under
    which C13_fail_exact / C13_seq_exact hold does not hold of the implementation (C13_seq_unsound_oracle_misses)"""
    for u in im.get("unsound") or []:
        bad("failing-input", f"{where}: ex.check answered unsat for {u['cond']} on the path {u['path']}, but input {u['valuation']} satisfies both "
            f"(pc {u['pc']}, frame depth {u['depth']}): the branching oracle is unsound for this path, a failing branch is not forked",
            dict(shown, valuation=u["valuation"]), {"defect": "unsound-check"})


def check_l2seq(rep, bad, cases, impls, res):
    for k, (c, im) in enumerate(zip(cases, impls)):
        steps = c["steps"]
        descr = "; ".join(step_name(st) for st in steps)
        shown = {"l2seq": True, "depth": c["depth"], "steps": steps, "after": c.get("after", "ignore"), "branch_timeout_ms": c.get("branch_timeout_ms")}
        rep.count("l2_callers", c.get("after", "ignore") if c["depth"] else "no-caller")
        rep.count("l2seq_depth", c["depth"])
        rep.count("l2seq_shape", c["tag"])
        rep.count("l2seq_len", len(steps))
        mo = res[k] if res is not None else None
        if im.get("exc") == "TIMEOUT":
            bad("broken-tie", f"L2s [{descr}] depth {c['depth']}: the run did not finish within the allowance (twice): not evaluated", shown)
            continue
        if "exc" in im:
            bad_msg = [st for st in steps if st["kind"] == "assert" and st["descr"][3] and not _is_unsupported(st["descr"])
                       and (spec_msg(tuple(st["descr"]), step_calldata(st, c["vals"][0])) is not None)
                       and not utf8_ok(spec_msg(tuple(st["descr"]), step_calldata(st, c["vals"][0])))]
            if bad_msg and im["exc"] == "UnicodeDecodeError":
                bad("failing-input", f"sequence [{descr}] at call depth {c['depth']}: UnicodeDecodeError escapes SEVM.run", shown, {"defect": "unicode-message"})
            elif any(st["kind"] == "assert" and _is_unsupported(st["descr"]) for st in steps):
                bad("failing-input", f"sequence [{descr}] at call depth {c['depth']}: {im['exc']} escapes SEVM.run: an unsupported overload takes every path of the test down (the failures found before it included) instead of ending one path as stuck",
                    dict(shown, valuation=c["vals"][0]), {"defect": "unsupported-escapes-seq", "exc": im["exc"]})
            else:
                bad("failing-input", f"sequence [{descr}] at call depth {c['depth']}: {im['exc']} escapes SEVM.run", shown, {"defect": "exception", "exc": im["exc"]})
            if mo is not None and mo != [9]:
                bad("broken-tie", f"L2s [{descr}] depth {c['depth']}: {im['exc']} escapes the implementation, the model yields {mo}", shown)
            rep.case({"l2seq": k, "steps": descr, "depth": c["depth"]}, nontrivial=True)
            continue
        paths = im["paths"]
        for p in paths:
            if any(isinstance(h, str) for h in p["holds"]):
                bad("broken-tie", f"L2s [{descr}]: a path condition could not be evaluated: {p['holds']}", shown)
        report_unsound(bad, im, f"sequence [{descr}] at call depth {c['depth']}", shown)
        if any(st["kind"] == "branch" for st in steps):
            rep.count("l2seq_branching", f"{sum(st['kind'] == 'branch' for st in steps)} branches / {len(paths)} paths")
        nontriv = False
        for j, val in enumerate(c["vals"]):
            v = foundry_verdict(steps, val)
            if v is None:
                continue
            nontriv = True
            rep.count("l2seq_verdict", v)
            failed = any(p["flag"] and p["holds"][j] is True for p in paths)
            normal = any((not p["flag"]) and p["error"] is None and not p["stuck"] and p["holds"][j] is True for p in paths)
            stuck = any((not p["flag"]) and p["stuck"] and p["holds"][j] is True for p in paths)
            other = any((not p["flag"]) and (not p["stuck"]) and p["error"] is not None and p["holds"][j] is True for p in paths)
            sv = dict(shown, valuation=val, observed={"failure_reported": failed, "reaches_end": normal, "stuck": stuck, "other_error": other}, foundry=v)
            if failed != (v == "fail"):
                bad("failing-input", f"sequence [{descr}] at call depth {c['depth']}: input {val}: failure reported = {failed}, Foundry's run of the sequence on this input: {v}", sv, {"defect": "l2seq-wrong-failure-set"})
            if normal and v not in ("pass", "fail"):
                bad("failing-input", f"sequence [{descr}] at call depth {c['depth']}: input {val} reaches the normal end although Foundry's run is: {v}", sv, {"defect": "l2seq-wrong-pass"})
            if v == "pass" and not normal:
                bad("failing-input", f"sequence [{descr}] at call depth {c['depth']}: passing input {val} is dropped (no path reaches the end)", sv, {"defect": "l2seq-dropped-pass"})
            if stuck and v not in ("unsupported", "fail"):
                bad("failing-input", f"sequence [{descr}] at call depth {c['depth']}: input {val} is on a stuck path although Foundry's run is: {v}", sv, {"defect": "l2seq-wrong-stuck"})
            if v == "unsupported" and not stuck:
                bad("failing-input", f"sequence [{descr}] at call depth {c['depth']}: input {val} meets the unsupported call but is on no stuck path (it is silently dropped or passed)", sv, {"defect": "l2seq-unsupported-not-stuck"})
            if other:
                bad("failing-input", f"sequence [{descr}] at call depth {c['depth']}: input {val} ends on an error path that is neither a reported failure nor a stuck path", sv, {"defect": "l2seq-other-path"})
        if mo is not None:
            if mo == [9]:
                bad("broken-tie", f"L2s [{descr}] depth {c['depth']}: the model says an exception escapes, the implementation yields {paths}", shown)
            else:
                outs = [mo[i:i + 5] for i in range(0, len(mo), 5)]
                # outcomes no sampled input lies on are left out on both sides: where halmos decides a branch without
                # asking the oracle (a symbol pinned by an equality on the path makes the condition concrete) the model,
                # for which an unrecorded query is Unknown, also follows the side that is empty; a side that is wrongly
                # not followed still shows, as a model outcome with inputs on it that the implementation lacks
                m_shape = sorted((o[0], o[3] if o[0] in (1, 3) else 0, o[2], o[4]) for o in outs if o[4])
                i_shape = sorted(((1, p["depth"], 1, p["mask"]) if p["flag"] else (3, p["depth"], 0, p["mask"]) if p["stuck"]
                                  else (2, 0, 0, p["mask"]) if p["error"] is None else (4, p["depth"], 0, p["mask"])) for p in paths if p["mask"])
                if len(m_shape) != len(outs) or len(i_shape) != len(paths):
                    rep.count("l2seq_model", "outcomes-without-sampled-input-left-out")
                if im.get("record_conflicts"):
                    # two paths that the sampled inputs do not tell apart got different answers for the same query:
                    # the oracle table handed to the model is ambiguous, the shapes are not compared
                    rep.count("l2seq_model", "ambiguous-oracle-table")
                elif m_shape != i_shape:
                    bad("broken-tie", f"L2s [{descr}] depth {c['depth']}: solver answers (samples on the path, step, negated, answer) {im.get('records')} -> model outcomes (kind, frames, flag, samples) {m_shape}, implementation paths {i_shape}", shown)
                else:
                    rep.count("l2seq_model", "same-outcomes")
        rep.case({"l2seq": k, "steps": descr, "depth": c["depth"], "nvals": len(c["vals"])}, nontrivial=nontriv)


# exceptions SEVM.run's clauses name; an exception class reaches the clause it is a subclass of (the four are disjoint subtrees)
CLAUSE_ACTION = {"InfeasiblePath": 1, "EvmException": 2, "HalmosException": 3, "FailCheatcode": 4}


def catch_expectations():
    """(class name, expected action code) for every class of halmos.exceptions and some builtins, from Python's own issubclass"""
    import halmos.exceptions as hx

    out = []
    classes = [v for v in vars(hx).values() if isinstance(v, type) and v.__module__ == hx.__name__]
    classes += [ValueError, UnicodeDecodeError, NotImplementedError, KeyError, IndexError, OverflowError, AssertionError, Exception, RuntimeError, TypeError]
    for cls in classes:
        hits = [a for n, a in CLAUSE_ACTION.items() if issubclass(cls, getattr(hx, n))]
        out.append((cls.__name__, hits[0] if len(hits) == 1 else 0 if not hits else -1))
    return out


def l2_model_calls(l2, impl2):
    enc = {"unsat": 0, "sat": 1, "unknown": 2}
    calls, idx = [], {}
    for k, (c, im) in enumerate(zip(l2, impl2)):
        if "exc" in im:
            continue
        if c["mode"] == "assume":
            lit_false = all(s[0] == "c" for s in c["segs"]) and int.from_bytes(concretize(c["segs"], {})[:32], "big") == 0
            if c["assume"] == ["const", 0]:
                continue
            idx[k] = len(calls)
            calls.append(("c13_assume_step", [int(lit_false), c["depth"]]))
        else:
            ch = im["checks"]
            if not ch or c["assume"] == ["const", 0]:
                continue
            idx[k] = len(calls)
            calls.append(("c13_step", [enc[ch[0]], enc[ch[1]] if len(ch) > 1 else 2, c["depth"]]))
    return calls, idx


def run(rep, tier):
    import time

    t0 = time.time()
    phases = rep.coverage.setdefault("phase_s", {})

    def lap(name):
        nonlocal t0
        phases[name] = round(time.time() - t0, 1)
        t0 = time.time()

    b = common.build_property(PID, TRANSLATORS)
    common.standard_obligations(rep, PID, b)
    exe = None
    if b["make_ok"]:
        exe, log = common.build_driver(PID)
        rep.obligation("extraction of Model/AssertModel.v + Spec/AssertSpec.v entry points + OCaml driver build", exe is not None, "" if exe else log[-800:])
        if exe is None:
            rep.fail("broken-tie", "extracted model driver does not build: " + log[-400:], case={})
    lap("coq_build_and_driver")
    r = common.rng(PID)
    nbad = [0]

    def bad(kind, what, case, sig=None):
        if kind == "failing-input":
            known_or_fail(rep, what, case, sig or {})
        else:
            nbad[0] += 1
            if nbad[0] <= 10:
                rep.fail(kind, what, case=case)

    # ---- the spec's selector table vs the table halmos binds
    from halmos.assertions import assert_cheatcode_handler
    from halmos.cheatcodes import hevm_cheat_code

    table = {selector(render(d)): d for d in spec_descrs()}
    real = set(assert_cheatcode_handler)
    for sel in sorted(set(table) - real):
        bad("failing-input", f"forge-std overload {render(table[sel])} (selector {sel:#010x}) is not bound by halmos", {"sig": render(table[sel]), "sel": sel}, {"defect": "unbound-selector", "sel": sel})
    for sel in sorted(real - set(table)):
        bad("failing-input", f"halmos binds selector {sel:#010x}, which is not the selector of any forge-std assertion overload of the specification", {"sel": sel}, {"defect": "unknown-selector", "sel": sel})
    if hevm_cheat_code.assume_sig != selector("assume(bool)"):
        bad("failing-input", f"vm.assume selector constant {hevm_cheat_code.assume_sig:#x} is not bytes4(keccak256('assume(bool)'))", {"sel": hevm_cheat_code.assume_sig}, {"defect": "assume-selector"})

    # ---- L1
    cases = gen_l1(tier, r, table)
    sig_cases = [{"kind": "sig", "sig": s, "probes": probes(r)} for s in gen_sigs(tier, r, [render(d) for d in table.values()])]
    with Pool(min(16, os.cpu_count() or 4), initializer=_pool_init) as pool:
        impl = pool.map(impl_l1, cases, chunksize=32)
        impl_s = pool.map(impl_sig, sig_cases, chunksize=8)
        lap("impl_l1")
        l2 = gen_l2(tier, r, table)
        impl2 = pool.map(impl_l2, l2, chunksize=4)
        l2s = gen_l2seq(tier, r, table)
        impl2s = pool.map(impl_l2, l2s, chunksize=2)
    # a run that did not finish in a worker (a loaded machine: 16 workers share the cores with whatever else runs) is
    # repeated here, alone, with a long allowance; only if that fails too is it reported (as a broken tie)
    for cs, ims in ((l2, impl2), (l2s, impl2s)):
        for k, im in enumerate(ims):
            if im.get("exc") == "TIMEOUT" and rep.coverage.get("l2_reruns_after_timeout", 0) < 6:
                rep.coverage["l2_reruns_after_timeout"] = rep.coverage.get("l2_reruns_after_timeout", 0) + 1
                r2 = _guarded(_impl_l2, cs[k], None, allowance=300)
                if r2 is not None:
                    ims[k] = r2
    lap("impl_l2")

    # model calls; a length beyond what Python can index (OverflowError / MemoryError in the real
    # code, malformed calldata only) is outside the model: such evaluations are counted, not compared
    calls, where = [], {}
    for i, c in enumerate(cases):
        for j, val in enumerate(c["vals"]):
            if is_huge(impl[i][j]):
                continue
            cd = c["sel"].to_bytes(4, "big") + concretize(c["segs"], val)
            where["r", i, j] = len(calls)
            calls.append(("c13_run", enc_sig_cd(c["sig"], cd)))
            where["s", i, j] = len(calls)
            calls.append(("c13_spec", enc_sig_cd(c["sig"], cd)))
    table_sigs = {render(d) for d in table.values()}
    for i, sc in enumerate(sig_cases):
        for j, p in enumerate(sc["probes"]):
            if is_huge(impl_s[i][j]):
                continue
            where["p", i, j] = len(calls)
            calls.append(("c13_run", enc_sig_cd(sc["sig"], bytes.fromhex(p))))
    calls2, idx2 = l2_model_calls(l2, impl2)
    n1 = len(calls)
    calls += calls2
    n2 = len(calls)
    calls += l2seq_model_calls(l2s, impl2s)
    n3 = len(calls)
    catches = catch_expectations()
    calls += [("c13_catch", [ord(ch) for ch in name]) for name, _ in catches]
    res = Model(exe).parallel_batch(calls, timeout=300) if exe is not None else None
    res2 = {k: res[n1 + i] for k, i in idx2.items()} if res is not None else None
    res2s = res[n2:n3] if res is not None else None
    lap("model")

    for i, c in enumerate(cases):
        d = tuple(c["descr"])
        nontriv = False
        for j, val in enumerate(c["vals"]):
            cd = c["sel"].to_bytes(4, "big") + concretize(c["segs"], val)
            sp = spec_assert(d, cd)
            im = impl[i][j]
            shown = {"sig": c["sig"], "sel": c["sel"], "calldata": cd.hex() if len(cd) <= 400 else cd[:400].hex() + "...", "segs": c["segs"] if len(cd) <= 400 else "long", "valuation": val}
            if sp is not None:
                nontriv = True
                rep.count("spec_outcome", "holds" if sp else "violated")
                m = spec_msg(d, cd)
                if d[1] in ("string", "bytes") and d[2]:
                    pass
                elif m is not None and not utf8_ok(m) and any(isinstance(s, list) and s[0] == "c" for s in c["segs"]):
                    # message not UTF-8: the defect C13-unicode-message when halmos raises
                    if im == [5]:
                        bad("failing-input", f"{c['sig']}: message {m!r} is not valid UTF-8 -> UnicodeDecodeError escapes (relation {'holds' if sp else 'is violated'})", shown, {"defect": "unicode-message"})
                    elif im[0] not in (1, 2) or im[1] != int(sp):
                        bad("failing-input", f"{c['sig']}: condition evaluates to {im}, the stated relation is {sp}", shown, {"defect": "wrong-condition", "sig": c["sig"]})
                elif im[0] not in (1, 2) or im[1] != int(sp):
                    bad("failing-input", f"{c['sig']}: handler gives {im} on calldata {shown['calldata'][:200]}, the stated relation is {sp}", shown, {"defect": "wrong-condition", "sig": c["sig"]})
                elif (im[0] == 2) != d[3] or (im[0] == 2 and bytes(im[2:]) != m):
                    bad("failing-input", f"{c['sig']}: message reported {im[2:]} differs from the encoded one {m!r}", shown, {"defect": "wrong-message", "sig": c["sig"]})
            else:
                rep.count("spec_outcome", "invalid-encoding")
            if d[1] in ("string", "bytes") and d[2]:
                rep.count("spec_outcome", "bytes-array")
                # not supported: the handler must say so with a HalmosException (=> only this path is stuck);
                # any other exception class is caught by no clause of SEVM.run and takes the whole test down
                if not (isinstance(im, list) and len(im) >= 2 and im[0] == 4 and im[1] == 1):
                    name = "".join(chr(x) for x in im[2:]) if isinstance(im, list) and im and im[0] == 4 else str(im)
                    bad("failing-input", f"{c['sig']}: the unsupported overload does not raise a HalmosException but {name}: only a HalmosException ends just this path as stuck (a class no clause of SEVM.run catches takes every path of the test down, InfeasiblePath drops the path silently, an EVM error lets the caller go on)",
                        shown, {"defect": "unsupported-escapes", "exc": name})
            if is_huge(im):
                rep.count("spec_outcome", "huge-length-outside-model")
                if sp is not None:
                    bad("failing-input", f"{c['sig']}: {im} on a valid encoding", shown, {"defect": "overflow-on-valid-encoding"})
            elif res is not None:
                mo = res[where["r", i, j]]
                ms = res[where["s", i, j]]
                if mo != im:
                    bad("broken-tie", f"model and implementation disagree on {c['sig']} calldata {shown['calldata'][:200]}: implementation {im}, model {mo}", shown)
                want = [0] if sp is None else [1, int(sp)]
                if ms != want:
                    bad("broken-tie", f"Coq spec and its Python rendering disagree on {c['sig']}: coq {ms}, python {want}", shown)
        rep.count("operand_class", ("array" if d[2] else "") + d[1])
        rep.count("symbolic", "symbolic" if any(s[0] == "s" for s in c["segs"]) else "concrete")
        rep.case({"sig": c["sig"], "segs": c["segs"] if sum(len(s[1]) // 2 if s[0] == "c" else s[2] for s in c["segs"]) <= 300 else "long:" + common.case_hash(c["segs"]), "nvals": len(c["vals"])}, nontrivial=nontriv)

    table_sigs = {render(d) for d in table.values()}
    for i, sc in enumerate(sig_cases):
        for j, p in enumerate(sc["probes"]):
            if res is not None and ("p", i, j) in where:
                mo = res[where["p", i, j]]
                if mo != impl_s[i][j]:
                    if sc["sig"] in table_sigs:
                        bad("broken-tie", f"mk_assert_handler({sc['sig']!r}) behaves differently from the model on probe {j}: implementation {impl_s[i][j]}, model {mo}", {"sig": sc["sig"], "probe": p})
                    else:
                        # mk_assert_handler is only ever applied to the table's signatures: a difference on
                        # another string does not concern the property; it is recorded in the evidence
                        rep.coverage.setdefault("signature_variant_disagreements", []).append(sc["sig"]) if len(rep.coverage.get("signature_variant_disagreements", [])) < 20 else None
        rep.count("signature_strings", "table" if sc["sig"] in {render(d) for d in table.values()} else "variant")
        rep.case({"mk_assert_handler": sc["sig"]}, nontrivial=impl_s[i][0] != [0])

    check_l2(rep, bad, l2, impl2, res2)
    check_l2seq(rep, bad, l2s, impl2s, res2s)
    # which except clause of SEVM.run an exception class reaches: the model (regenerated hierarchy + clauses) vs Python's issubclass
    for k, (name, want) in enumerate(catches):
        rep.count("catch_class", {0: "escapes", 1: "dropped", 2: "frame-error", 3: "stuck", 4: "fail-yield", -1: "ambiguous"}[want])
        if want == -1:
            bad("broken-tie", f"exception class {name} is a subclass of more than one class named by SEVM.run's except clauses: the clause order decides, outside the model", {"class": name})
        elif res is not None and res[n3 + k] != [want]:
            bad("broken-tie", f"exception class {name}: the model sends it to action {res[n3 + k]}, Python's issubclass to {want} (0 escapes, 1 dropped, 2 frame error, 3 stuck, 4 yield)", {"class": name})
        rep.case({"catch": name}, nontrivial=want != 0)
    rep.coverage["l2_runs"] = len(l2) + len(l2s)
    rep.coverage["traces_validated_against_impl"] = (len(calls) // 1) if res is not None else 0
    rep.coverage["exhaustive"] = False
    return rep.finish(
        checker_cmd="make -C coq Props/C13.vo (coq_makefile, coqc 8.16.1) after regenerating coq/Gen/GenAssertSelectors.v, GenAssumeSelector.v from /repo/src/halmos/{assertions,cheatcodes}.py",
        trusted_base=common.TRUSTED_BASE_COMMON,
        assumptions=ASSUMPTIONS,
        partial=PARTIAL,
        rule="L1 cases = (bound selector, calldata layout of concrete and symbolic chunks, valuations): word operands over sign/width boundaries (all pairs), bytes of lengths 0,1,31,32,33,64 equal / one bit flipped / prefix / trailing zero, arrays of lengths 0-3 equal / one element / length differing, messages incl. invalid UTF-8, truncated and out-of-range offsets; a case is non-trivial when its concretised calldata is a valid ABI encoding for the signature (so that the stated relation is defined); each valuation is one evaluation of the real handler's z3 condition vs the extracted model vs the Python spec. Signature-string cases = mk_assert_handler on table and mutated signatures compared behaviourally on 16 probe calldatas. L2 cases = (call depth 0..3, a vm.assume prefix [const / x<c / signed x<c / x!=0], a cheatcode call with concrete or symbolic operands, valuations): SEVM.run on a chain of forwarding contracts; per valuation the set of yielded paths whose constraints hold is compared with the spec (failure reported iff assumption holds and relation false; passing inputs continue; inputs excluded by the assumption have no path), and the outcome shape with the branching model fed with the recorded solver answers; every bound selector is also run once passing and once failing at a random depth. L2s cases = (call depth 0..3, a sequence of 2-5 cheatcode calls issued by that frame: asserts over x / y / a bool, literally true / false asserts, bytes and array asserts, assumes [x<c, signed, y!=0, const], unsupported bytes[]/string[] overloads; fixed orders that put a failing branch on the worklist before an unsupported call, plus random orders; valuations of x, y, b): per valuation the yielded paths are compared with Foundry's run of the sequence on that input alone (failure iff first bad step is an assertion; pass => reaches the end; unsupported => on a stuck path; rejected => nowhere), and the multiset of (kind, frame depth, flag) with Model.run_prog fed with the recorded solver answers; non-trivial when at least one valuation gives every assert a valid encoding. Branching sequences (the same comparison): an assumption or a refuted branch first, then JUMPIs on x / y / an undecidable function of x (both polarities, so that either side is the fall-through explored first) interleaved with asserts on the same operands; valuations include every compared constant and its neighbours; the oracle handed to the model is the table of the real ex.check answers keyed by (sampled inputs on the path asked about, step, negated), and every unsat answer is tested against those inputs. Catch cases = every class of halmos.exceptions and 10 builtins: the model's except-clause routing vs Python's issubclass",
    )


def replay(rep, body):
    for f in body.get("failures", []):
        case = f.get("case") or {}
        print(f.get("kind"), ":", (f.get("what") or "")[:300])
        if case.get("l2seq"):
            c = {"kind": "l2seq", "depth": case["depth"], "steps": case["steps"], "vals": [case.get("valuation") or {}], "after": case.get("after", "ignore")}
            c["branch_timeout_ms"] = case.get("branch_timeout_ms")
            print("L2s case      : depth", c["depth"], [step_name(st) for st in c["steps"]], c["vals"])
            print("implementation:", impl_l2(c))
            if case.get("valuation"):
                print("spec (Foundry's run on this input):", foundry_verdict(c["steps"], case["valuation"]))
            continue
        if case.get("l2"):
            d = [list(x) for x in spec_descrs() if render(x) == case.get("sig")]
            c = {"kind": "l2", "mode": case["mode"], "depth": case["depth"], "assume": case["assume"], "sig": case["sig"], "sel": case["sel"],
                 "descr": d[0] if d else None, "segs": case["segs"], "vals": [case.get("valuation") or {}], "after": case.get("after", "ignore")}
            print("L2 case       :", {k: c[k] for k in ("mode", "depth", "assume", "sig", "segs", "vals")})
            print("implementation:", impl_l2(c))
            if d:
                cd = c["sel"].to_bytes(4, "big") + concretize(c["segs"], c["vals"][0] or {s[1]: 0 for s in c["segs"] if s[0] != "c"})
                print("spec          : assumption holds =", assume_holds(c["assume"], c["vals"][0]) if c["vals"][0] or c["assume"][0] == "const" else "?", "; relation =", spec_assert(tuple(d[0]), cd))
            continue
        if "segs" in case and isinstance(case["segs"], list):
            c = {"sel": case["sel"], "segs": case["segs"], "vals": [case.get("valuation") or {}]}
            print("case          :", case.get("sig"), case.get("calldata"))
            print("implementation:", impl_l1(c))
            for d in spec_descrs():
                if render(d) == case.get("sig"):
                    cd = case["sel"].to_bytes(4, "big") + concretize(case["segs"], case.get("valuation") or {})
                    print("spec          :", spec_assert(d, cd))
    return 0
