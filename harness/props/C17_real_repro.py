"""One-off run of the C17 findings on the real halmos classes with REAL child processes.
F5 (446a9a7, 2f54d38), F6 (1eaaf0c) and F15 (0f4e35b) are repaired: the scenarios now show the repaired behaviour.
Run: PYTHONPATH=/repo/src /venv/bin/python harness/props/C17_real_repro.py   (not part of bin/check; the check
replays the same schedules through its forced-schedule tie, see CORPUS in C17.py)."""
import sys, threading, time
sys.path.insert(0, "/repo/src")
import psutil
import halmos.processes as P


def alive(marker):
    out = []
    try:
        for p in psutil.process_iter(["cmdline", "status"]):
            try:
                if marker in " ".join(p.info["cmdline"] or []) and p.info["status"] != psutil.STATUS_ZOMBIE:
                    out.append(p.pid)
            except Exception:
                pass
    except Exception:
        pass
    return out


# ---- F5 (repaired): flag test before the lock, shutdown(wait=False) in between
ex = P.PopenExecutor()
real_event = ex._shutdown
passed, go = threading.Event(), threading.Event()
first = [True]


class Ev:
    def is_set(self):
        v = real_event.is_set()
        if threading.current_thread().name == "submitter" and first[0]:
            first[0] = False
            passed.set(); go.wait()          # park the submitter right after its first flag test
        return v
    def set(self):
        real_event.set()


ex._shutdown = Ev()
f = P.PopenFuture(["sh", "-c", "sleep 4 # F5marker"])
outcome = []


def submitter():
    try:
        ex.submit(f); outcome.append("accepted")
    except P.ShutdownError:
        outcome.append("rejected (ShutdownError)")


t = threading.Thread(target=submitter, name="submitter"); t.start()
passed.wait()
ex.shutdown(wait=False)                       # request + cancel everything + return
go.set(); t.join(); time.sleep(0.3)
print("F5 (repaired): submit() whose first flag test preceded shutdown(wait=False):", outcome[0],
      "; registered futures =", len(ex.futures), "running children =", alive("F5marker"))
f.cancel()

# ---- F6 (repaired): shutdown(wait=False) while the worker is inside Popen: cancel() waits for the spawn, then kills
ex = P.PopenExecutor()
at_popen, go2 = threading.Event(), threading.Event()
real_popen = P.Popen


def slow_popen(*a, **kw):
    at_popen.set(); go2.wait()                # the worker thread is about to spawn the solver
    return real_popen(*a, **kw)


P.Popen = slow_popen
f = P.PopenFuture(["sh", "-c", "sleep 4 # F6marker"])
ex.submit(f)
at_popen.wait()
threading.Timer(0.3, go2.set).start()         # the repaired cancel() waits for the spawn in progress
ex.shutdown(wait=False)
print("F6 (repaired): shutdown(wait=False) returned after waiting for the spawn in progress; process of the job:", f.process)
go2.set(); time.sleep(0.3)
print("F6 (repaired): running children after shutdown =", alive("F6marker"), "future done =", f.done())
P.Popen = real_popen
f.cancel()

# ---- F15 (repaired): shutdown(wait=True) with a job that times out first
ex = P.PopenExecutor()
f1 = P.PopenFuture(["sh", "-c", "sleep 5 # F15a"], timeout=0.2)
f2 = P.PopenFuture(["sh", "-c", "sleep 2 # F15bmarker"])
ex.submit(f1); ex.submit(f2)
t0 = time.time()
try:
    ex.shutdown(wait=True)
    print(f"F15 (repaired): shutdown(wait=True) returned normally after {time.time()-t0:.2f}s; second job done = {f2.done()}, children running = {alive('F15bmarker')}")
except Exception as e:
    print(f"F15: shutdown(wait=True) raised {type(e).__name__} after {time.time()-t0:.2f}s; second job done = {f2.done()}, its children still running = {alive('F15bmarker')}")
f2.cancel()
