"""C15 — invariant testing covers every bounded call sequence.

Obligations: T-invfilters (getter selectors, resolve_target_contracts, sender restriction,
resolve_target_selectors regenerated from __main__.py), T-stateid (snapshot_state, the digest behind
get_state_id, regenerated from cheatcodes.py), T-storedigest (StorageData.digest regenerated from
sevm.py), T-pathslice (Path._get_related, the dependency update of Path.append, Path.slice regenerated from sevm.py; Exec.path_slice shape-checked), T-probes (the decisions of _compute_frontier / CounterexampleHandler about probes_reported), Props/C15.vo, lint, extraction.  T-invfilters also regenerates the call sites (run_target_contract / _compute_frontier): targets are resolved per address, in the call that runs them.
Ties:
  X-C15-stateid (inside L3): for the setUp state and every successful end state of every target
      transaction of every L3 run, the components of the state are read off the Exec (term ids, code
      identities, storage items, path conditions, slice; independently: the conditions that mention a
      symbol held in the state) and the ids the real get_state_id returned are compared with
      (spec) the identity of Spec/StateIdSpec.v rendered in Python -- equal ids only for identical
      states; every condition on a state symbol is in the slice -- and (model) the extracted
      regenerated snapshot_state/StorageData.digest with a collision-free hash -- the same partition.
      The frontier model then de-duplicates by the MODEL's state ids.
  X-C15-probes (inside L3): every target transaction that ends in an assertion failure is recorded with the
      feasibility of its full path condition (z3), the functions marked as reported before / after
      _compute_frontier examined it, whether it was handed to the solver and the solver's answer; compared
      with (spec) a feasible failure of every failing function is submitted, a function is marked only when an
      answer carried a model, and (model) the extracted regenerated decisions run over the same events.
  X-C15-filters (L1): the real resolve_target_contracts / resolve_target_selectors vs the
      extracted regenerated model vs an independent Python rendering of Foundry's rule, on an
      exhaustive grid of filter sets.
  X-C15 (L3): fabricated forge projects (assembled stateful targets, filter getters, invariant)
      run through the real `halmos` end to end, with observation wrappers; compared with
      (a) the brute force of all admissible call sequences up to the depth on the reference
          interpreter (spec vs implementation: verdict, counterexample replay, resolved targets),
      (b) the extracted frontier model fed with the recorded per-transaction outcomes
          (model vs implementation: frontiers per depth, evaluated states, probes).
"""
import itertools
import os
import random
import time

from harness import common, pool

PID = "C15"
TRANSLATORS = ["T-invfilters", "T-storedigest", "T-stateid", "T-pathslice", "T-probes", "T-solverlife"]

# Genuine defects of halmos found by this check on the unchanged tree (see the final report).
KNOWN = common.known_for("C15")  # entries live in /verif/known_findings.json

ASSUMPTIONS = [
    "C15_cover / C15_pass_sound are conditional on their visible hypotheses: per-transaction completeness of the symbolic engine (property C02), completeness of the invariant's own run, and the merge hypothesis (equal state ids stand for the same concrete states); with the state id of halmos (C15_cover_snapshot) the latter becomes: what a refreshed state stands for depends only on its balance / code / storage terms, its constraints on state variables and its block fields other than the timestamp; the setUp state is not registered as visited (regenerated flag), so no clause about it is needed",
    "state ids: C15_state_id_identical / C15_cover_snapshot assume collision-free hashes (xxh3_64 / xxh3_128 as injective functions into abstract digest types: a visible hypothesis), one storage-key shape per run (uniform_keys: visible hypothesis) and hash-consed terms (equal id = same term); a hash input is modelled as the list of its fixed-width items (32-byte words from int.to_bytes(_, length=32), 16-byte storage digests), not as bytes; CPython id() reuse for code objects and z3 AST id reuse are not modelled",
    "the slice: the dependency update of Path.append and Path.slice (worklist closure, recognised statement by statement) are regenerated and proved to end within slice_fuel iterations and to give exactly the conditions that constrain the state variables (C15_slice_closure). The variables of a term (Path.get_var_set, z3) and the sources of the state variables in Exec.path_slice (balance, block fields but the timestamp, symbolic code chunks, stored values: shape-checked by the translator) are inputs of the model: on every recorded state the symbols are recomputed from the z3 terms by the harness and the model's slice is compared with Path.sliced",
    "the reference interpreter (Spec/Evm.v) is the EVM oracle; vm.roll/fee/chainId/warp in handlers are given their Foundry meaning by the harness (the block field changes for the rest of the sequence)",
    "probes: the solver's answer for a candidate is an input of the probe model (C15_probe_genuine_reported assumes that every submitted query is answered: on the real code the answers of the last depth are often cut off by the executor shutdown, known finding F12); feasibility of a failing path is decided by the harness with z3 on the path conditions",
    "the extracted model and driver are faithful to the Coq definitions (extraction is trusted)",
    "the invariant's own run (C15_invariant_run_covers_state): the invariant on a state is a decision tree over conditions, the solver is sound and complete on its queries (visible hypotheses); where run_message creates / empties the solver is regenerated (T-solverlife), the quick membership answers of Exec.check, `unknown` answers and the loop bound are outside the model; tied end to end by the solver-ctx L3 cases against the brute force (and by the run_message tie of C20)",
]
PARTIAL = ("the symbolic engine and the timestamp refresh are parameters of the frontier model (tied by feeding the model the outcomes recorded from the real run); the state id is the regenerated snapshot_state over the components recorded for each state (term ids, code identities, storage items, condition ids, slice), the slice the regenerated Path.slice over the recorded symbols of each condition; the two are not composed in one Coq function (term ids vs. symbols); "
           "--early-exit, multiple invariant tests sharing the cached frontier and solver timeouts are not modelled")

TEST = 0x7FA9385BE102AC3EAC297483DD6233D62B3E1496


# ============================================================================= L1: filters

def _methods_table():
    from harness import c15_l3 as L

    sigs = [("f()", "nonpayable"), ("g()", "view"), ("p()", "payable"), ("h()", "pure"), ("test_x()", "nonpayable"),
            ("setUp()", "nonpayable"), ("invariant_a()", "nonpayable"), ("check_y(uint256)", "nonpayable"), ("afterInvariant()", "nonpayable"),
            ("prove_z()", "nonpayable"), ("tester()", "nonpayable")]
    return [(s, L.sel_int(s), m) for s, m in sigs]


def gen_contract_cases(tier, r):
    A, B = 0xAAAA0002, 0xAAAA0003
    U = [TEST, A, B]
    subsets = [list(c) for n in range(4) for c in itertools.combinations(U, n)]
    deployed_opts = [[TEST], [TEST, A], [TEST, A, B], [TEST, B]]
    tsel_opts = []
    for combo in itertools.product([None, [], [7]], repeat=3):
        tsel_opts.append([[a, s] for a, s in zip(U, combo) if s is not None])
    cases = []
    for tc in subsets:
        for ec in subsets:
            for ts in tsel_opts:
                for dep in deployed_opts:
                    cases.append({"tc": tc, "ec": ec, "tsel": ts, "deployed": dep})
    if tier == "quick":
        r.shuffle(cases)
        cases = cases[:1200]
    return cases


def gen_selector_cases(tier, r):
    from harness import c15_l3 as L

    meths = _methods_table()
    sels = [s for _, s, _ in meths]
    A = 0xAAAA0002
    opts = [None, [], [sels[0]], [sels[1]], [sels[0], sels[4]], [sels[5], sels[2]], [0xDEADBEEF], sels[:]]
    cases = []
    for addr in (TEST, A):
        for t in opts:
            for e in opts:
                for other in (False, True):
                    tsel = ([[addr, t]] if t is not None else []) + ([[0xAAAA0003, [sels[0]]]] if other else [])
                    esel = ([[addr, e]] if e is not None else []) + ([[0xAAAA0003, [sels[2]]]] if other else [])
                    cases.append({"addr": addr, "tsel": tsel, "esel": esel})
    return cases


def impl_contracts(case):
    from types import MappingProxyType, SimpleNamespace

    import halmos.__main__ as m
    from halmos.solve import InvariantTestingContext
    from halmos.utils import con_addr, int_of

    ca = lambda a: m.FOUNDRY_TEST if a == TEST else con_addr(a)  # noqa: E731
    ctx = InvariantTestingContext(
        target_senders=frozenset(), target_contracts=frozenset(ca(a) for a in case["tc"]),
        target_selectors=MappingProxyType({ca(a): frozenset(x.to_bytes(4, "big") for x in s) for a, s in case["tsel"]}),
        excluded_senders=frozenset(), excluded_contracts=frozenset(ca(a) for a in case["ec"]),
        excluded_selectors=MappingProxyType({}))
    ex = SimpleNamespace(code={ca(a): None for a in case["deployed"]})
    try:
        res = m.resolve_target_contracts(ctx, ex)
        return sorted(int_of(a) for a in res)
    except Exception as e:  # noqa: BLE001
        return f"EXC {type(e).__name__}"


def impl_selectors(case):
    from types import MappingProxyType

    import halmos.__main__ as m
    from halmos.solve import InvariantTestingContext
    from halmos.utils import con_addr

    ca = lambda a: m.FOUNDRY_TEST if a == TEST else con_addr(a)  # noqa: E731
    mp = lambda pairs: MappingProxyType({ca(a): frozenset(x.to_bytes(4, "big") for x in s) for a, s in pairs})  # noqa: E731
    ctx = InvariantTestingContext(target_senders=frozenset(), target_contracts=frozenset(), target_selectors=mp(case["tsel"]),
                                  excluded_senders=frozenset(), excluded_contracts=frozenset(), excluded_selectors=mp(case["esel"]))
    meths = _methods_table()
    cj = {"abi": [{"type": "function", "name": s.split("(")[0], "inputs": [{"name": "a", "type": t, "internalType": t} for t in s[s.index("(") + 1:-1].split(",") if t],
                   "outputs": [], "stateMutability": mut} for s, _, mut in meths],
          "methodIdentifiers": {s: format(n, "08x") for s, n, _ in meths}}
    try:
        return sorted(sig for sig, _ in m.resolve_target_selectors(ctx, ca(case["addr"]), cj))
    except Exception as e:  # noqa: BLE001
        return f"EXC {type(e).__name__}"


def enc_list(l):
    return [len(l)] + list(l)


def enc_map(pairs):
    out = [len(pairs)]
    for a, s in pairs:
        out += [a] + enc_list(s)
    return out


MUT = {"pure": 0, "view": 1, "nonpayable": 2, "payable": 3}


def run_filters_l1(rep, tier, model, r):
    from harness import c15_lib as B

    t_l1 = time.time()
    cases = gen_contract_cases(tier, r)
    calls = [("c15_resolve_contracts", [TEST] + enc_list(c["tc"]) + enc_list(c["ec"]) + enc_list(c["deployed"]) + enc_map(c["tsel"])) for c in cases]
    mres = model.parallel_batch(calls) if model else None
    nbad = 0
    for i, c in enumerate(cases):
        impl = impl_contracts(c)
        filters = {"targetContracts": c["tc"], "excludeContracts": c["ec"], "targetSelectors": c["tsel"]}
        spec = sorted(B.spec_target_contracts(filters, c["deployed"], TEST))
        spec_obs = spec if spec else "EXC HalmosException"
        rep.count("filters_contracts", f"tc={len(c['tc'])} ec={len(c['ec'])} tsel={len(c['tsel'])}")
        rep.case({"tie": "contracts", **c}, nontrivial=bool(c["tc"] or c["ec"] or c["tsel"]))
        if impl != spec_obs:
            nbad += 1
            if nbad <= 5:
                rep.fail("failing-input", f"resolve_target_contracts disagrees with Foundry's rule on {c}: implementation {impl}, spec {spec_obs}",
                         case={"tie": "contracts", **c, "implementation": impl, "spec": spec_obs}, sig={"defect": "target-contracts", "function": "resolve_target_contracts"})
            continue
        if mres is not None:
            mo = mres[i]
            mobs = "EXC HalmosException" if (mo is None or mo[0] == 1) else sorted(mo[1:])
            if mobs != impl:
                nbad += 1
                if nbad <= 5:
                    rep.fail("broken-tie", f"regenerated model of resolve_target_contracts disagrees with the implementation on {c}: model {mobs}, implementation {impl}", case={"tie": "contracts", **c})
    # selectors
    scases = gen_selector_cases(tier, r)
    meths = _methods_table()
    menc = [len(meths)]
    for s, n, mut in meths:
        menc += [n, MUT[mut]] + enc_list([ord(ch) for ch in s])
    calls = [("c15_resolve_selectors", [c["addr"], TEST] + enc_map(c["tsel"]) + enc_map(c["esel"]) + menc) for c in scases]
    mres = model.parallel_batch(calls) if model else None
    known_hits = 0
    for i, c in enumerate(scases):
        impl = impl_selectors(c)
        filters = {"targetSelectors": c["tsel"], "excludeSelectors": c["esel"]}
        spec = sorted(B.spec_selectors(filters, c["addr"], TEST, meths))
        rep.count("filters_selectors", f"addr={'test' if c['addr'] == TEST else 'other'} tsel={len(c['tsel'])} esel={len(c['esel'])}")
        rep.case({"tie": "selectors", **c}, nontrivial=bool(c["tsel"] or c["esel"]))
        if impl != spec:
            t = B.merged(c["tsel"]).get(c["addr"])
            e = B.merged(c["esel"]).get(c["addr"])
            branch = "targeted" if t else ("excluded" if e else "default")
            missing = [s for s in spec if isinstance(impl, list) and s not in impl]
            sig = {"defect": "selector-overselection" if (isinstance(impl, list) and not missing) else "selector-missing", "branch": branch}
            if known(sig):
                known_hits += 1
                note_known(rep, sig, f"resolve_target_selectors on {c}: implementation {impl}, Foundry {spec}")
            else:
                nbad += 1
                if nbad <= 5:
                    rep.fail("failing-input", f"resolve_target_selectors disagrees with Foundry's rule on {c}: implementation {impl}, spec {spec}",
                             case={"tie": "selectors", **c, "implementation": impl, "spec": spec}, sig=sig)
        if mres is not None and isinstance(impl, list):
            mo = mres[i]
            mobs = sorted(s for (s, _, _), b in zip(meths, mo or []) if b)
            if mobs != impl:
                nbad += 1
                if nbad <= 5:
                    rep.fail("broken-tie", f"regenerated model of resolve_target_selectors disagrees with the implementation on {c}: model {mobs}, implementation {impl}", case={"tie": "selectors", **c})
    # senders: the regenerated function against the spec rendering (the implementation side of
    # the sender restriction is exercised end to end in the L3 cases)
    if model:
        univ = [0x1234, 0x99, 0x98]
        subs = [list(x) for n in range(4) for x in itertools.combinations(univ, n)]
        probes = univ + [0x77]
        calls, keys = [], []
        for ts in subs:
            for es in subs:
                calls.append(("c15_sender_allowed", enc_list(ts) + enc_list(es) + probes))
                keys.append((ts, es))
        for (ts, es), mo in zip(keys, model.batch(calls)):
            spec = [1 if B.spec_sender_ok({"targetSenders": ts, "excludeSenders": es}, s) else 0 for s in probes]
            rep.case({"tie": "senders", "ts": ts, "es": es}, nontrivial=bool(ts or es))
            if mo != spec:
                rep.fail("failing-input", f"the sender restriction of run_target_contract (regenerated) disagrees with Foundry's rule for targetSenders={ts} excludeSenders={es}: {mo} vs {spec}",
                         case={"tie": "senders", "ts": ts, "es": es}, sig={"defect": "sender-filter"})
    rep.coverage["l1_seconds"] = round(time.time() - t_l1, 1)
    return known_hits


def known(sig):
    return any(common.finding_matches(k, {"sig": sig}) for k in KNOWN)


_known_seen = {}


def note_known(rep, sig, what):
    for k in KNOWN:
        if common.finding_matches(k, {"sig": sig}):
            if k["id"] not in _known_seen:
                _known_seen[k["id"]] = what
                # recorded as a failing input: common.finish() classifies it as the listed finding and prints the KNOWN-FINDING line
                rep.fail("failing-input", what, case=None, sig=sig)
                print(f"    reproduced ({k['id']}): {what[:400]}")
            rep.coverage.setdefault("known_findings_reproduced", {})
            rep.coverage["known_findings_reproduced"].setdefault(k["id"], {"what": k["what"], "first_case": what[:600], "hits": 0})
            rep.coverage["known_findings_reproduced"][k["id"]]["hits"] += 1
            return


# ============================================================================= L3

def l3_task(case):
    """pool worker: brute force on the reference + the real halmos (instrumented)"""
    from harness import c15_l3 as L
    from harness import c15_lib as B

    t0 = time.time()
    built = L.build_case(case)
    out = {"name": case["name"]}
    d = case["depth"]
    br = B.brute(case, built, d)
    out["brute"] = {k: br[k] for k in ("inv_depth", "probe_depth", "states", "runs", "complete")}
    out["witness"] = br["inv_witness"]
    out["probe_witness"] = br["probe_witness"]
    h = L.run_halmos(case, timeout=150, instrument=True)
    if h.get("timeout"):  # a loaded machine: one retry with a long limit before calling it a failure
        h = L.run_halmos(case, timeout=420, instrument=True)
    out["halmos"] = {k: h.get(k) for k in ("exitcode", "statuses", "paths", "cexs", "warnings", "timeout")}
    out["trace"] = h.get("trace")
    out["stdout_tail"] = (h.get("stdout") or "")[-1500:] + (h.get("stderr") or "")[-600:]
    status = (h.get("statuses") or {}).get("invariant_0()")
    out["status"] = status
    # counterexample replay
    out["replays"] = []
    for cex in h.get("cexs") or []:
        try:
            ok, detail = B.replay_cex(case, built, cex)
        except Exception as e:  # noqa: BLE001
            ok, detail = False, f"replay raised {type(e).__name__}: {e}"
        out["replays"].append({"probe": cex.get("probe"), "ok": ok, "detail": detail, "valid": cex.get("valid")})
    # which features does a missed violation need?
    if status == "PASS" and br["inv_depth"] is not None:
        needs = None
        for feats in [(), ("cheat",), ("time",), ("value",), ("cheat", "time"), ("cheat", "value"), ("time", "value")]:
            b2 = B.brute(case, built, d, feats=feats)
            if b2["inv_depth"] is not None:
                needs = "+".join(feats) if feats else "plain"
                out["witness"] = b2["inv_witness"]
                break
        out["needs"] = needs or "cheat+time+value"
    # resolved targets per spec
    meths = B.methods_of(built, case)
    deployed = [L.TEST_ADDR] + [L.target_addr(i) for i in range(len(case["targets"]))]
    filters = case.get("filters") or {}
    exp_calls = []
    for a in B.spec_target_contracts(filters, deployed, L.TEST_ADDR):
        for sig in B.spec_selectors(filters, a, L.TEST_ADDR, [(s, n, m) for s, n, m, _ in meths.get(a, [])]):
            exp_calls.append([a, sig])
    out["spec_calls"] = sorted(exp_calls)
    out["seconds"] = round(time.time() - t0, 1)
    return out


def encode_trace(trace, depth, classes=None):
    """classes (uid -> state id according to the regenerated snapshot_state, see check_state_ids):
    when given, the frontier model de-duplicates by the MODEL's state id; otherwise by the
    recorded real one"""
    sid = (lambda u, y: classes.get(u, y)) if classes else (lambda u, y: y)
    # (the id of the setUp state only matters if run_contract registers it as visited: Gen/GenInvFilters.v setup_registered_as_visited)
    enc = [depth, trace["setup"][0], sid(trace["setup"][0], trace["setup"][1]) if trace["setup"][1] != -1 else -2, len(trace["states"])]
    for u, groups in trace["states"].items():
        enc += [int(u), len(groups)]
        for g in groups:
            enc += [len(g["outcomes"])]
            for k, x, y in g["outcomes"]:
                enc += [k, x, sid(x, y) if k == 3 else y]
    return enc


def state_tokens(trace):
    """uid -> token of the id the real get_state_id returned (setUp state + every successful end state)"""
    toks = {trace["setup"][0]: trace["setup"][1]} if trace["setup"][1] != -1 else {}
    for groups in trace["states"].values():
        for g in groups:
            for k, x, y in g["outcomes"]:
                if k == 3 and y != -1:
                    toks[x] = y
    return toks


def describe_difference(ca, cb):
    from harness import c15_lib as B

    ia, ib = B.spec_identity(ca), B.spec_identity(cb)
    parts = []
    for nm, x, y in zip(("balance term", "code", "storage terms"), ia[:3], ib[:3]):
        if x != y:
            parts.append(f"{nm} differ")
    if ia[3] != ib[3]:
        ta, tb = ca.get("cond_text", {}), cb.get("cond_text", {})
        only_a = [ta.get(str(i), c) for i, c in enumerate(ca["conds"]) if c in ia[3] - ib[3]]
        only_b = [tb.get(str(i), c) for i, c in enumerate(cb["conds"]) if c in ib[3] - ia[3]]
        parts.append(f"constraints on state variables differ: {only_a} vs {only_b}")
    if ia[4] != ib[4]:
        names = ["basefee", "chainid", "coinbase", "prevrandao", "gaslimit", "number"]
        parts.append("block fields differ: " + ", ".join(f"{n}: {x // 2 if x % 2 == 0 else 'symbolic'} vs {y // 2 if y % 2 == 0 else 'symbolic'}" for n, x, y in zip(names, ia[4], ib[4]) if x != y))
    return "; ".join(parts) or "no difference"


FORWARD = "forward-related-constraint-not-in-slice"


def check_state_ids(rep, name, trace, model, rerun):
    """'States are merged only when they are identical', on the setUp state and every successful end
    state of the run (the components were read off the Exec when get_state_id was called):
      (spec)  every condition that constrains a symbol held in the state (Spec/PathSliceSpec.v
              constrains, computed from the symbols of the terms) is in the slice; states with one real
              id are identical (Spec/StateIdSpec.v same_identity with those constraints);
      (model) the regenerated Path.append/_get_related/slice give the recorded slice; the regenerated
              snapshot_state / StorageData.digest (identity hash) give the same partition as the real ids.
    -> {"classes": uid -> model state id | None, "cause": why a violation may have been missed | None}"""
    from harness import c15_lib as B

    res = {"classes": None, "cause": None}
    comps = {int(u): c for u, c in (trace.get("components") or {}).items()}
    toks = state_tokens(trace)
    uids = [u for u in toks if u in comps and "error" not in comps[u]]
    if len(uids) != len(toks):
        missing = [u for u in toks if u not in uids]
        rep.fail("broken-tie", f"L3 case {name}: no state components recorded for states {missing[:5]} ({[comps.get(u) for u in missing[:2]]})", case=rerun)
        return res
    rep.coverage["state_ids_compared"] = rep.coverage.get("state_ids_compared", 0) + len(uids)
    # ---- spec vs implementation: the constraints on the state are in the slice
    reported = set()
    for u in uids:
        c = comps[u]
        sl = set(c["sliced"] or ())
        lost = sorted(B.spec_constraints(c) - sl)
        if not lost:
            continue
        kind = "direct" if any(i in c.get("direct", []) for i in lost) else "forward-related"
        sig = {"defect": "state-constraint-not-in-slice", "kind": kind, "cause": FORWARD if kind == "forward-related" else None}
        if kind == "forward-related":
            res["cause"] = FORWARD
        if kind in reported:
            continue
        reported.add(kind)
        txt = c.get("cond_text", {})
        what = (f"L3 case {name}: state {u}: the path condition(s) {[txt.get(str(i), i) for i in lost]} constrain a symbol held in the state ({c.get('state_symbols')}"
                + ("" if kind == "direct" else f", through {[txt.get(str(i), i) for i in sorted(sl)]}")
                + f") but are not in the slice {sorted(sl)}: they are not part of the state id")
        if known(sig):
            note_known(rep, sig, what)
        else:
            rep.fail("failing-input", what, case=dict(rerun, states={str(u): c}), sig=sig)
    if any(B.spec_constraints(comps[u]) for u in uids):
        rep.count("l3_state_ids", "cases with constraints on state symbols")
    # ---- spec vs implementation: equal id => identical
    by_tok = {}
    for u in uids:
        by_tok.setdefault(toks[u], []).append(u)
    merged = 0
    seen_kinds = set()     # one report per kind of difference and case
    for t, us in by_tok.items():
        for u in us[1:]:
            merged += 1
            if B.spec_identity(comps[u]) != B.spec_identity(comps[us[0]]):
                outside = B.spec_identity(comps[u], by_slice=True) == B.spec_identity(comps[us[0]], by_slice=True)
                if outside in seen_kinds:
                    break
                seen_kinds.add(outside)
                sig = {"defect": "non-identical-states-same-id", "differ": "outside-slice" if outside else "inside-slice", "cause": FORWARD if outside and res["cause"] == FORWARD else None}
                what = (f"L3 case {name}: get_state_id gives ONE id to the states {us[0]} and {u}, which are not identical ({describe_difference(comps[us[0]], comps[u])}); "
                        f"the second one is dropped from the frontier as already visited")
                if known(sig):
                    note_known(rep, sig, what)
                else:
                    rep.fail("failing-input", what, case=dict(rerun, states={str(us[0]): comps[us[0]], str(u): comps[u]}), sig=sig)
                break
    rep.count("l3_state_ids", "cases with merged end states" if merged else "cases without merged end states")
    if any(len({B.spec_identity(comps[u])[3] for u in us}) > 1 for us in _by_terms(comps, uids).values()):
        rep.count("l3_state_ids", "cases with states that differ only in their constraints")
    if model is None or not uids:
        return res
    # ---- model vs implementation: the slice
    calls = []
    for u in uids:
        c = comps[u]
        enc = [len(c["cond_syms"])]
        for s in c["cond_syms"]:
            enc += [len(s)] + list(s)
        enc += [len(c["state_syms"])] + list(c["state_syms"])
        calls.append(("c15_slice", enc))
    for u, mo in zip(uids, model.batch(calls)):
        c = comps[u]
        if mo is None or c["sliced"] is None or set(mo) != set(c["sliced"]):
            rep.fail("broken-tie", f"L3 case {name}: state {u}: Path.sliced is {c['sliced']}, the regenerated append/_get_related/slice give {sorted(set(mo or []))} "
                     f"for the conditions with symbols {c['cond_syms']} and the state symbols {c['state_syms']}", case=dict(rerun, states={str(u): c}))
            return res
    rep.coverage["slices_compared"] = rep.coverage.get("slices_compared", 0) + len(uids)
    # ---- model vs implementation: the same partition by state id
    mres = model.batch([("c15_state_classes", [len(uids)] + [z for u in uids for z in B.enc_components(comps[u])])])[0]
    if mres is None or len(mres) != len(uids):
        rep.fail("broken-tie", f"L3 case {name}: the state-id model failed on the recorded components", case=rerun)
        return res
    classes = dict(zip(uids, mres))
    if any(c < 0 for c in mres):
        rep.fail("broken-tie", f"L3 case {name}: the regenerated snapshot_state raises (path not sliced) on a state for which the real get_state_id returned an id", case=rerun)
        return res
    res["classes"] = classes
    m2t, t2m = {}, {}
    for u in uids:
        m2t.setdefault(classes[u], set()).add(toks[u])
        t2m.setdefault(toks[u], set()).add(classes[u])
    for t, ms in t2m.items():
        if len(ms) > 1:
            us = [u for u in uids if toks[u] == t]
            a = us[0]
            b = next(u for u in us if classes[u] != classes[a])
            rep.fail("broken-tie", f"L3 case {name}: state identity: the real get_state_id gives one id to the states {a} and {b}; the regenerated snapshot_state (collision-free hash) tells them apart ({describe_difference(comps[a], comps[b])})",
                     case=dict(rerun, states={str(a): comps[a], str(b): comps[b]}))
            return res
    for m, ts in m2t.items():
        if len(ts) > 1:
            us = [u for u in uids if classes[u] == m]
            rep.fail("broken-tie", f"L3 case {name}: state identity: the regenerated snapshot_state gives one id to the states {us}, the real get_state_id gives {len(ts)} different ids", case=dict(rerun, states={str(u): comps[u] for u in us[:3]}))
            return res
    return res


RCODE = {"sat": 0, "unsat": 1, "unknown": 2}


def check_probes(rep, name, trace, model, rerun):
    """'Any assertion inside a target is checked': the target transactions that ended in an assertion
    failure while the frontier was computed (trace["asserts"], in order, each with the feasibility of
    its path decided with z3 and the functions marked as reported before / after _compute_frontier
    looked at it), the candidates handed to the solver (trace["handled"]) and the answers
    (trace["probe_results"]), against
      (spec)  every function with a feasible failing path gets a feasible candidate submitted; a
              function is marked as reported only when an answer with a model exists for it;
      (model) the regenerated decisions (Gen/GenProbes.v) run over the same events by the extracted
              ProbeModel: the same candidates are submitted, the same functions end up marked."""
    asserts = trace.get("asserts") or []
    if not asserts:
        return
    handled = [u for u, _ in trace.get("handled") or []]
    hset = set(handled)
    names = trace.get("probe_names") or {}
    results = {u: (r, hm) for u, r, hm in trace.get("probe_results") or []}
    complete = all(u in results for u in handled)
    fn = lambda p: names.get(str(p), p)  # noqa: E731
    rep.count("l3_probes", "cases with assertion failures inside targets")
    if any(a["feasible"] == 0 for a in asserts):
        rep.count("l3_probes", "cases with a candidate refuted by the full path condition")
    case = dict(rerun, asserts=asserts, handled=trace.get("handled"), probe_results=trace.get("probe_results"))
    by_p = {}
    for a in asserts:
        by_p.setdefault(a["probe"], []).append(a)
    # ---- spec: genuine failures are submitted
    for p, lst in by_p.items():
        feas = [a for a in lst if a["feasible"] == 1]
        if feas and not any(a["uid"] in hset for a in feas):
            subm = [a["seq"] for a in lst if a["uid"] in hset]
            rep.fail("failing-input", f"L3 case {name}: the assertion inside {fn(p)} fails after the call sequence {feas[0]['seq']} (the path is feasible), but no feasible failure of "
                     f"{fn(p)} was ever handed to the solver: the candidates submitted were {subm} (all refuted by their full path condition); the genuine failure was skipped "
                     f"because the function was marked as reported ({[fn(q) for q in feas[0]['reported_before']]}) without a counterexample", case=case, sig={"defect": "probe-dropped"})
    # ---- spec: marked only with a counterexample
    if complete:
        with_model = {a["probe"] for a in asserts if a["uid"] in results and results[a["uid"]][1]}
        snaps = [("before " + str(a["seq"]), a["reported_before"]) for a in asserts] + [("after " + str(a["seq"]), a.get("reported_after") or []) for a in asserts]
        fin = trace.get("reported_final") or {}
        if fin.get("results_seen") == len(trace.get("probe_results") or []):
            snaps.append(("at the end", fin.get("reported") or []))
        for when, snap in snaps:
            bad = [p for p in snap if p not in with_model]
            if bad:
                rep.fail("failing-input", f"L3 case {name}: {[fn(p) for p in bad]} is marked as reported ({when}) although no answer of the solver carried a model for it "
                         f"(answers: {[(a['seq'], results.get(a['uid'])) for a in asserts if a['uid'] in hset]}): later failures of the function are not examined", case=case,
                         sig={"defect": "probe-marked-without-counterexample"})
                break
    # ---- model
    if model is None:
        return
    racy = any((a["probe"] in (a.get("reported_after") or [])) != (a["probe"] in a["reported_before"]) for a in asserts)
    if racy:
        rep.count("l3_probes", "cases where an answer arrived while a candidate was examined (model not compared)")
        return
    events, done, sub = [], set(), []
    for a in asserts:
        for k, u in enumerate(sub):
            if k not in done and u in results and results[u][1] and by_uid_probe(asserts, u) in a["reported_before"]:
                events.append([1, k, 0, 0])
                done.add(k)
        if a["uid"] in results:
            r, hm = results[a["uid"]]
            rc, hm = RCODE.get(r, 3), int(bool(hm))
        else:
            rc, hm = (0, 1) if a["feasible"] == 1 else (1, 0)
        events.append([0, a["probe"], rc, hm])
        if a["uid"] in hset:
            sub.append(a["uid"])
    for k in range(len(sub)):
        if k not in done:
            events.append([1, k, 0, 0])
    out = model.batch([("c15_probes", [len(events)] + [z for e in events for z in e])])[0]
    if out is None:
        rep.fail("broken-tie", f"L3 case {name}: the probe model failed on the recorded events", case=case)
        return
    it = iter(out)
    flags = [next(it) for _ in range(next(it))]
    reported = [next(it) for _ in range(next(it))]
    real_flags = [1 if a["uid"] in hset else 0 for a in asserts]
    if flags != real_flags:
        i = next(j for j, (x, y) in enumerate(zip(flags, real_flags)) if x != y)
        a = asserts[i]
        rep.fail("broken-tie", f"L3 case {name}: the failing path {a['seq']} of {fn(a['probe'])} (functions marked as reported at that moment: {[fn(q) for q in a['reported_before']]}) was "
                 f"{'handed to the solver' if real_flags[i] else 'skipped'} by _compute_frontier; the regenerated decisions {'submit' if flags[i] else 'skip'} it", case=case)
        return
    if complete and (trace.get("reported_final") or {}).get("results_seen") == len(trace.get("probe_results") or []):
        real = sorted((trace["reported_final"] or {}).get("reported") or [])
        if sorted(set(reported)) != real:
            rep.fail("broken-tie", f"L3 case {name}: functions marked as reported at the end: implementation {[fn(p) for p in real]}, regenerated decisions over the recorded answers {[fn(p) for p in sorted(set(reported))]}", case=case)
            return
    rep.coverage["probe_runs_compared"] = rep.coverage.get("probe_runs_compared", 0) + 1


def by_uid_probe(asserts, u):
    return next(a["probe"] for a in asserts if a["uid"] == u)


def _by_terms(comps, uids):
    from harness import c15_lib as B

    out = {}
    for u in uids:
        out.setdefault(B.spec_identity(comps[u])[:3], []).append(u)
    return out


def decode_frontier(res, depth):
    it = iter(res)
    fr = []
    for _ in range(depth + 1):
        n = next(it)
        fr.append([next(it) for _ in range(n)])
    n = next(it)
    pr = [next(it) for _ in range(n)]
    return fr, pr


def check_l3(rep, case, out, model):
    from harness import c15_lib as B

    d = case["depth"]
    br = out["brute"]
    status = out["status"]
    trace = out["trace"]
    name = case["name"]
    viol = br["inv_depth"] is not None and br["inv_depth"] <= d
    probe = br["probe_depth"] is not None and br["probe_depth"] <= d
    fe = []
    if case.get("filters"):
        fe.append("filters:" + ",".join(sorted(k for k, v in case["filters"].items() if v)))
    rep.count("l3_depth", d)
    rep.count("l3_expected", "violation" if viol else ("probe-only" if probe else "holds"))
    rep.count("l3_status", status)
    for f in fe:
        rep.count("l3_filters", f)
    rep.case({"tie": "l3", "case": case}, nontrivial=d >= 1)
    rerun = {"tie": "l3", "case": case, "status": status, "brute": br, "witness": out.get("witness"), "stdout_tail": out.get("stdout_tail")}
    if status not in ("PASS", "FAIL"):
        rep.fail("broken-tie", f"L3 case {name}: halmos did not produce PASS/FAIL for invariant_0() (status {status}, exit {out['halmos'].get('exitcode')}): {out.get('stdout_tail', '')[-300:]}", case=rerun)
        return
    # ---- spec vs implementation, model vs implementation: state identity and the slice
    sid = {"classes": None, "cause": None}
    if trace and trace.get("setup"):
        sid = check_state_ids(rep, name, trace, model, rerun)
    # ---- spec vs implementation, model vs implementation: assertion failures inside targets
    if trace:
        check_probes(rep, name, trace, model, rerun)
    dup_dropped = False
    if trace and trace.get("setup"):
        kept = {u for f in trace["frontiers"].values() for u in f}
        for groups in trace["states"].values():
            for g in groups:
                for k, x, y in g["outcomes"]:
                    if k == 3 and x not in kept:
                        dup_dropped = True
    # ---- spec vs implementation: verdict
    if viol and status == "PASS":
        sig = {"defect": "missed-violation", "needs": out.get("needs"), "dup_dropped": dup_dropped, "inv_kind": case["invariant"]["kind"],
               "cause": sid["cause"] if dup_dropped else None}
        what = (f"L3 case {name}: the call sequence {fmt_seq(out.get('witness'))} (admissible, length {br['inv_depth']} <= depth {d}) breaks the invariant on the reference interpreter, "
                f"halmos reports [PASS] (needs={out.get('needs')}, duplicate dropped={dup_dropped})")
        if known(sig):
            note_known(rep, sig, what)
        else:
            rep.fail("failing-input", what, case=rerun, sig=sig)
    elif probe and not viol and status == "PASS":
        sig = {"defect": "probe-not-in-verdict"}
        what = (f"L3 case {name}: the sequence {fmt_seq(out.get('probe_witness'))} ends in an assertion failure (Panic 1) inside a target within depth {d}; "
                f"halmos reports [PASS], exit code {out['halmos'].get('exitcode')}, counterexamples printed: {len(out['halmos'].get('cexs') or [])}")
        if known(sig):
            note_known(rep, sig, what)
        else:
            rep.fail("failing-input", what, case=rerun, sig=sig)
    if status == "FAIL":
        reps = [x for x in out["replays"] if not x["probe"]]
        if not reps:
            rep.fail("failing-input", f"L3 case {name}: [FAIL] without a printed counterexample / call sequence", case=rerun, sig={"defect": "fail-without-sequence"})
        for x in reps:
            if not x["ok"]:
                rep.fail("failing-input", f"L3 case {name}: the printed call sequence, instantiated with the printed model, does not break the invariant on the reference interpreter: {x['detail']}",
                         case=dict(rerun, cexs=out["halmos"].get("cexs")), sig={"defect": "cex-not-reproducible"})
        if not viol and reps and all(x["ok"] for x in reps):
            rep.count("l3_notes", "FAIL confirmed by replay outside the brute-force domain")
        if reps and all(x["ok"] for x in reps):
            rep.count("l3_notes", "counterexample replayed on the reference")
    # ---- spec vs implementation: resolved contracts x selectors
    if trace:
        by_pre = {}
        for pre, a, sig in trace["calls"]:
            by_pre.setdefault(pre, []).append([a, sig])
        for pre, calls in by_pre.items():
            calls = sorted(calls)
            if calls != out["spec_calls"]:
                missing = [c for c in out["spec_calls"] if c not in calls]
                extra = [c for c in calls if c not in out["spec_calls"]]
                esel = B.merged((case.get("filters") or {}).get("excludeSelectors", []))
                branch = "excluded" if (not missing and extra and all(esel.get(a) for a, _ in extra)) else "other"
                sig = {"defect": "selector-overselection" if not missing else "targets-missing", "branch": branch}
                what = f"L3 case {name}: targets run from a frontier state {calls} differ from Foundry's rule {out['spec_calls']}"
                if known(sig):
                    note_known(rep, sig, what)
                else:
                    rep.fail("failing-input", what, case=rerun, sig=sig)
                break
    classes = sid["classes"]
    # ---- model vs implementation: frontier
    if model is not None and trace and trace.get("setup"):
        if any(y == -1 for gs in trace["states"].values() for g in gs for k, x, y in g["outcomes"] if k == 3):
            rep.fail("broken-tie", f"L3 case {name}: a successful end state of a target transaction never reached the state-id / de-duplication stage of _compute_frontier", case=rerun)
            return
        res = model.batch([("c15_frontier", encode_trace(trace, d, classes))])[0]
        if res is None:
            rep.fail("broken-tie", f"L3 case {name}: frontier model failed on the recorded trace", case=rerun)
            return
        fr, pr = decode_frontier(res, d)
        real = [trace["frontiers"].get(str(k)) for k in range(d + 1)]
        if status == "PASS" or True:
            if real != fr:
                rep.fail("broken-tie", f"L3 case {name}: frontier states per depth differ: implementation {real}, model (dedupe by state id, drop reverted, append) {fr}", case=dict(rerun, trace=trace))
                return
            ev = [u for n, u in trace["evaluated"] if n == "invariant_0"]
            if ev != [u for f in fr for u in f]:
                rep.fail("broken-tie", f"L3 case {name}: the invariant was run on states {ev}, the model says {[u for f in fr for u in f]} (all states of frontiers 0..{d})", case=dict(rerun, trace=trace))
                return
            handled = sorted({p for _, p in trace["handled"]})
            if sorted(set(pr)) != handled:
                rep.fail("broken-tie", f"L3 case {name}: probes handled {handled}, model {sorted(set(pr))}", case=dict(rerun, trace=trace))
                return
        rep.coverage["traces_validated_against_impl"] = rep.coverage.get("traces_validated_against_impl", 0) + 1


def fmt_seq(w):
    if not w:
        return "[]"
    return "[" + "; ".join(f"{tx['sig']}{'' if tx['arg'] is None else '(' + str(tx['arg']) + ')'} from {hex(tx['sender'])}" + (f" value {tx['value']}" if tx['value'] else "") + f" @t={tx['ts']}" for tx in w) + "]"


QUICK_CORPUS = {
    "counter-lt3-d0", "counter-lt2-d1", "counter-lt2-d2", "counter-lt3-d3", "steps-d2", "toggle-then-step", "two-slots", "arg-set",
    "exclude-contract", "exclude-but-selector-targeted", "target-selector-only-dec", "target-overrides-exclude-selector",
    "sender-excluded", "sender-targeted", "not-sender-targeted2", "exclude-selector",
    "test-contract-not-targeted", "test-contract-selector-targeted",
    "value-needed", "time-after-other-call", "F9-roll-after-change", "setup-merge-time", "F12-probe", "value-balance",
    "branch-cond-arg-small", "branch-cond-arg-big",
    "branch-cond-caller-eq", "branch-cond-value", "branch-cond-unrelated",
    "branch-cond-related-hi", "branch-cond-forward-hi",
    "instances-tsel-second-hit", "instances-tsel-first-hit", "instances-tsel-holds",
    "probe-after-refuted-candidate", "probe-sibling-refuted-first", "probe-refuted-only",
    "solver-ctx-siblings-lo", "solver-ctx-siblings-hi", "solver-ctx-gated-d2-hi",
}


def gen_l3_cases(tier, r):
    from harness import c15_lib as B

    cases = B.corpus()
    if tier == "quick":
        cases = [c for c in cases if c["name"] in QUICK_CORPUS]
    n0 = len(cases)
    n = 2 if tier == "quick" else 100
    i = 0
    while len(cases) < n0 + n:
        c = B.gen_case(r, i)
        i += 1
        if B.resolved_nonempty(c):
            cases.append(c)
    # state identity: stored transaction values with a branch on them (see c15_lib.gen_branch_case)
    for j in range(3 if tier == "quick" else 60):
        cases.append(B.gen_branch_case(r, j, max_depth=2 if tier == "quick" else 3))
    # per-address target resolution: several instances of one contract with their own selector filters
    for j in range(2 if tier == "quick" else 40):
        cases.append(B.gen_instances_case(r, j))
    # assertions inside targets: refuted candidates before / beside genuine failures of the same function
    for j in range(1 if tier == "quick" else 30):
        cases.append(B.gen_probe_case(r, j, max_depth=2 if tier == "quick" else 3))
    # the invariant's own run on sibling frontier states that share a symbol (one solver context per state)
    for j in range(2 if tier == "quick" else 40):
        cases.append(B.gen_solverctx_case(r, j))
    return cases


def run(rep, tier):
    b = common.build_property(PID, TRANSLATORS)
    common.standard_obligations(rep, PID, b)
    exe = None
    if b["make_ok"]:
        exe, log = common.build_driver(PID)
        rep.obligation("extraction of the regenerated filter functions, the regenerated snapshot_state / StorageData.digest and Model/FrontierModel.v entry points + OCaml driver build", exe is not None, "" if exe else log[-800:])
        if exe is None:
            rep.fail("broken-tie", "extracted model driver does not build: " + log[-400:], case={})
    model = common.Model(exe) if exe else None
    r = common.rng(PID)
    run_filters_l1(rep, tier, model, r)
    # L3
    from harness import refevm

    refevm.driver()
    cases = gen_l3_cases(tier, r)
    if os.environ.get("C15_ONLY"):  # development aid: restrict the L3 cases by name
        cases = [c for c in cases if c["name"] in os.environ["C15_ONLY"].split(",")]
    t_l3 = time.time()
    res = pool.run_tasks(l3_task, cases, timeout=700, workers=min(16, os.cpu_count() or 4))
    for case, (st, out) in zip(cases, res):
        if st != "ok":
            rep.fail("broken-tie", f"L3 case {case['name']}: worker {st}: {str(out)[-500:]}", case={"tie": "l3", "case": case})
            continue
        check_l3(rep, case, out, model)
    rep.coverage["l3_cases"] = len(cases)
    rep.coverage["l3_seconds"] = round(time.time() - t_l3, 1)
    rep.coverage["l3_case_seconds"] = {c["name"]: o.get("seconds") for c, (st, o) in zip(cases, res) if st == "ok"}
    rep.coverage["known_in_module"] = [k["id"] for k in KNOWN]
    return rep.finish(
        checker_cmd="make -C coq Props/C15.vo (coq_makefile, coqc 8.16.1) after regenerating coq/Gen/GenInvFilters.v from /repo/src/halmos/__main__.py, coq/Gen/GenStateId.v from cheatcodes.py, coq/Gen/GenStorageDigest.v and coq/Gen/GenPathSlice.v from sevm.py",
        trusted_base=common.TRUSTED_BASE_COMMON + ["harness/asm.py + harness/c15_l3.py (assembler and fabricated forge artifacts), the stub `forge`", "coq/Spec/Evm.v extracted (reference interpreter) as the EVM oracle of the brute force"],
        assumptions=ASSUMPTIONS,
        partial=PARTIAL,
        rule=("L1: filter sets over a 3-address universe (test contract + two targets): all combinations of targetContracts x excludeContracts x targetSelectors (absent/empty/non-empty per address) x deployed sets (sampled in quick, exhaustive in thorough); selector filters over an 11-method table with view/pure/payable/reserved names, on the test contract and on another contract; all sender filter combinations over 3 addresses. "
              "L3: hand-written corpus (depth off-by-one, revisited states, arguments, every filter kind, senders, values, timestamps, cheatcode block fields, probes; state identity: functions that store an argument / the sender / msg.value and branch on it -- directly or through a related condition -- without changing storage differently, followed by calls enabled on one side of the branch) + grammar-generated targets (1-2 contracts, 1-3 guarded-transition functions over two slots, invariant on one slot, depth 0..3, random filter combination) + grammar-generated state-identity targets (stored source arg|sender|value, comparison gt|lt|eq, constant, store before or after the branch, enabled functions on either side, optional bystander, depth 2..3) + grammar-generated instance targets (one contract deployed 2-3 times, a random targetSelectors / excludeSelectors entry per address) + grammar-generated probe targets (an assertion refuted only by the full query at one stage, a genuine one at another, stages reached as siblings or in a chain, random function order); "
              "expected verdict = breadth-first brute force of all admissible call sequences (arguments from the constants of the code +-1, senders from the filters and guards, values 0/1/guard constants for payable functions, non-decreasing timestamps from the guard thresholds) on the extracted reference interpreter; a case is non-trivial when depth >= 1 (L3) or some filter is non-empty (L1); distinct by hash of the case"),
    )


def replay(rep, body):
    from harness import refevm

    refevm.driver()
    for f in body.get("failures", []):
        c = f.get("case") or {}
        if c.get("tie") == "l3":
            out = l3_task(c["case"])
            print(c["case"]["name"], "halmos:", out["status"], "brute:", out["brute"], "witness:", fmt_seq(out.get("witness")))
            print(out["stdout_tail"])
        elif c.get("tie") == "contracts":
            print("implementation:", impl_contracts(c))
        elif c.get("tie") == "selectors":
            print("implementation:", impl_selectors(c))
    return 0
