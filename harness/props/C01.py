"""C01 — every reported execution path is a real EVM behaviour.

Obligations: T-jumpi / T-consts translators, Props/C01.vo (soundness of the mini-SEVM model
against the reference interpreter, for every program / oracle / valuation), lint.
Tie X-C01 (L2): assembled programs through the REAL halmos SEVM with symbolic calldata,
caller, origin, value and initial balances; every reported path is evaluated under concrete
inputs (models of every path, boundary and random inputs) and must equal the end state of
the extracted reference interpreter (Spec/Evm.v); the extracted mini-SEVM model runs on the
same programs and inputs (model <-> implementation <-> reference).
"""
from harness import common, l2common, scenarios

PID = "C01"
TRANSLATORS = ["T-jumpi", "T-consts", "T-branchpts", "T-assertbranch", "T-dispatch", "T-create2"]

PLAN_QUICK = [("straight", 14), ("branch", 14), ("memory", 10), ("storage", 10), ("hash", 10), ("log", 6), ("loop", 14), ("call", 12), ("create", 14),
              ("opgrid", 32), ("callfail", 22), ("symtarget", 12), ("valuecall", 12), ("corr", 16), ("symloop", 12), ("stackops", 12), ("hashcond", 8), ("symstore", 12), ("create2", 12)]
PLAN_THOROUGH = [("straight", 150), ("branch", 200), ("memory", 120), ("storage", 150), ("hash", 150), ("log", 60), ("loop", 80), ("call", 200), ("create", 100),
                 ("opgrid", 600), ("callfail", 300), ("symtarget", 150), ("valuecall", 150), ("corr", 150), ("symloop", 150), ("stackops", 150), ("hashcond", 100), ("symstore", 150), ("create2", 150)]

ASSUMPTIONS = [
    "standard interpretation of keccak (real Keccak-256) and exact definitions of the f_evm_* abstractions when evaluating halmos' terms",
    "documented modelling conventions shared by reference and halmos: no gas (memory beyond MAX_MEMORY_SIZE is out-of-gas), CREATE addresses from halmos' counter scheme, CREATE2 addresses under halmos' names (0xBBBB0000 + k; the EVM address behind each name is recomputed by the tie from the path's own preimage with the real Keccak-256), balances <= 2^128, hash injectivity witnesses (f_inv_sha3_*) taken as satisfiable",
    "the reference interpreter Spec/Evm.v is my reading of the Yellow Paper / execution-specs for the supported subset (no second EVM implementation exists in the sandbox)",
]
PARTIAL = ("The Coq theorems cover the exploration skeleton of the mini-SEVM (local instructions, JUMPI branching, CALL / CALLCODE / DELEGATECALL / STATICCALL / CREATE over a symbolic world, "
           "insufficient-funds fork), the other branch points taken one at a time (aliases, symbolic JUMP, vm.assert*, vm.addr) and the dispatch table; "
           "term building itself is C06, byte sequences C07, storage decoding C08; logs, copies, MSIZE, EXT*, CREATE2 (only its address layout is under a theorem: T-create2 / C01_create2_address_tied), precompiles, cheatcode addresses and the composition of a symbolic call target "
           "with the call machinery are covered by the correspondence run only.")


def sig_of(desc, fail):
    code = bytes.fromhex(desc["code"])
    feats = scenarios.static_features(code)
    sig = {"what": fail.get("what", ""), "features": ",".join(feats), "halmos": str(fail.get("halmos"))[:40], "reference": str(fail.get("reference"))[:40]}
    if 0xF2 in code:
        sig["features"] += ",CALLCODE"
    sig["profile"] = str(desc.get("profile", ""))
    # recorded finding C01-create2-placeholder-address: only on the corpus entries written to exhibit it, only when the
    # difference is in the published data and halmos' side shows a CREATE2 name (0xBBBB0000 + k) where the reference has
    # the hash / the 0 of an address collision.  Any other CREATE2 difference stays a violation.
    if "known-create2-placeholder-" in sig["profile"] and fail.get("what") == "return data" and "bbbb000" in str(fail.get("halmos")):
        sig["observable"] = "create2-placeholder"
    if "path_kinds" in fail:      # C02 direction: an input covered by no reported path
        sig["what"] = "uncovered"
        sig["symbolic_jump"] = bool(desc.get("options", {}).get("symbolic_jump"))
        this = scenarios.THIS
        sig["arg_is_test_contract"] = any(v % (1 << 160) == this for v in (fail.get("input") or {}).get("args", {}).values())
    return sig


def classify(desc):
    code = bytes.fromhex(desc["code"])
    return scenarios.static_features(code)


def run_tie(rep, tier, plan, seed_tag, pid, direction, options_list=({},), patch_unknown=0.0, with_model=True, n_random=3, corpus=False):
    r = common.rng(seed_tag)
    descs = l2common.gen_descs(r, plan, options_list=options_list)
    if corpus:
        from harness import l2corpus

        descs = l2corpus.descriptions(direction) + descs    # the regression corpus runs first
    out = l2common.run_corpus(descs, common.seed() % 100000, n_random=n_random, patch_unknown=patch_unknown,
                              timeout=120 if tier == "quick" else 240, with_model=with_model)
    n_model = 0
    for d, status, res in out:
        rep.count("profile", d["profile"])
        if status == "timeout":
            rep.count("status", "timeout")
            continue
        if status != "ok":
            rep.count("status", "harness-exception")
            rep.fail("broken-tie", f"L2 harness raised on program {d['code'][:120]}: {str(res)[-500:]}", case={"scenario": d})
            continue
        rep.count("status", "ok")
        rep.count("paths", min(res["n_paths"], 8))
        if res["flags"].get("crashed"):
            rep.count("halmos_crash", res["flags"]["crashed"][:60])
        for k in res["kinds"]:
            rep.count("path_kind", k.split(":")[0] + (":" + k.split(":")[1] if k.startswith("halt") or k.startswith("stuck") else ""))
        nontrivial = res["n_paths"] > 1 or res["stats"]["evaluated"] > 0
        rep.case({"program": d["code"] if len(d["code"]) <= 200 else d["code"][:200] + "...", "profile": d["profile"], "paths": res["n_paths"], "inputs": res["n_inputs"], "options": d["options"]}, nontrivial=nontrivial)
        rep.coverage["path_input_evaluations"] = rep.coverage.get("path_input_evaluations", 0) + res["stats"]["evaluated"]
        # (path, input) pairs that could not be evaluated because a symbol has no interpretation in the harness:
        # counted, so that a hole in the evaluator is visible in the evidence instead of silently shrinking the run
        for sym, k in (res["stats"].get("unknown_symbols") or {}).items():
            rep.count("unevaluated_symbol", sym.split("(")[0][:40], k)
        for f in res[direction][:3]:
            sig = sig_of(d, f)
            what = f.get("what", "input not covered by any reported path")
            rep.fail("failing-input",
                     f"{pid}: program {d['code'][:160]} input {ascii(f.get('input'))[:300]}: {what}: halmos={str(f.get('halmos', f.get('path_kinds')))[:120]} reference={str(f.get('reference'))[:120]}",
                     case={"scenario": d, "failure": f}, sig=sig)
        m = res.get("model")
        if m:
            n_model += m["compared"]
            for f in m["model_vs_ref"][:2]:
                rep.fail("broken-obligation", f"extracted mini-SEVM model contradicts the reference interpreter (instance of theorem C01_sound fails?!) on {d['code'][:120]}: {f}", case={"scenario": d, "failure": f})
            for f in m["model_vs_halmos"][:2]:
                sig = sig_of(d, {"what": "model-vs-implementation"})
                # if the implementation also disagrees with the reference on this program the
                # failing input has already been reported above; otherwise the model is off
                if not res["c01"]:
                    rep.fail("broken-tie", f"mini-SEVM model and halmos disagree (both agree with nothing else to blame) on {d['code'][:120]}: {f}", case={"scenario": d, "failure": f}, sig=sig)
    rep.coverage["traces_validated_against_impl"] = rep.coverage.get("traces_validated_against_impl", 0) + n_model
    return out


def run(rep, tier):
    b = common.build_property(PID, TRANSLATORS)
    common.standard_obligations(rep, PID, b)
    plan = PLAN_QUICK if tier == "quick" else PLAN_THOROUGH
    try:
        run_tie(rep, tier, plan, PID, PID, "c01", corpus=True)
    except RuntimeError as e:
        rep.obligation("extracted reference interpreter / model drivers build", False, str(e)[-600:])
        rep.fail("broken-tie", f"extracted drivers do not build: {str(e)[-400:]}", case={})
    return rep.finish(
        checker_cmd="make -C coq Props/C01.vo (coqc 8.16.1) after regenerating coq/Gen/GenJumpi.v, GenConsts.v, GenCreate2.v, ... from /repo/src/halmos/sevm.py, constants.py",
        trusted_base=common.TRUSTED_BASE_COMMON,
        assumptions=ASSUMPTIONS,
        partial=PARTIAL,
        rule="cases = the regression corpus (one hand-written program per mechanism a seeded change or a repaired defect needed) followed by assembled programs from a grammar (profiles: straight-line arithmetic, "
             "operation grids over boundary / dirty / Bool-typed operands, branching, correlated branches, memory, storage, hashing incl. array-overflow conditions, logs, loops with concrete and input-dependent observable trip counts, "
             "stack shuffles, calls into a pool of callees with several failing paths, value-bearing and self calls, symbolic call targets, creations with constructors that read their context or revert with data, CREATE2 of concrete init code and of constructors followed by symbolic constructor arguments (jumping / branching constructors, collisions, value, callees, static frames)) "
             "run through the real SEVM with symbolic inputs; per program: concrete inputs = z3 models of every reported path + perturbations to boundary values + dictionary values (PUSH immediates, existing addresses clean and dirty) + "
             "hash-relative values + random; every (path, input) pair whose constraints hold is compared with the reference interpreter (end kind, return data, storage read back through halmos' own sload for every written location spelling, "
             "balances, code, event logs); inputs violating a documented assumption (total balance > 2^128, a keccak-based storage location wrapping around 2^256) are left out. A case is non-trivial when it has >1 path or at least one "
             "evaluated (path, input) pair; distinct by program hash",
    )


def replay(rep, body):
    import random

    from harness import l2tie

    from harness import bptie

    n = 0
    for f in body.get("failures", []):
        case = f.get("case") or {}
        d = case.get("scenario")
        n += 1
        print(f"--- failure {n}: {f.get('kind')}: {str(f.get('what'))[:300]}")
        if d:
            scn = scenarios.from_description(d)
            res = l2tie.check_scenario(scn, random.Random(1))
            print("    re-run on the current source:", {k: res[k] for k in ("n_paths", "kinds", "flags")}, "C01 mismatches:", res["c01"][:2], "C02 uncovered:", res["c02"][:2])
            inp = (case.get("failure") or {}).get("input")
            if inp:
                print("    recorded failing input:", inp)
        elif "alias_case" in case:
            accts, tgt, mask, unk = case["alias_case"]
            print("    resolve_address_alias now gives:", bptie.impl_alias(accts, tgt, mask, unk), "recorded model:", case.get("model"))
        elif "funds_case" in case:
            bal, val, mask, unk = case["funds_case"]
            print("    insufficient-funds fork now gives:", bptie.impl_funds(bal, val, mask, unk), "recorded model:", case.get("model"))
        elif "assert_case" in case:
            ctab, mask, unk = case["assert_case"]
            print("    vm.assertTrue now gives:", bptie.impl_assert(ctab, mask, unk), "recorded model:", case.get("model"))
        elif "vmaddr_case" in case:
            keys = case["vmaddr_case"]
            print("    vm.addr: satisfiability per valuation now:", bptie.impl_vmaddr(keys, [1] * len(keys[0])))
        elif "jump_case" in case:
            valid_n, dst = case["jump_case"]
            dst = [tuple(x) if isinstance(x, list) else x for x in dst]
            print("    symbolic JUMP now gives:", bptie.impl_jump(valid_n, dst, 0)[2])
        else:
            print("    (obligation-level failure: re-run the check to rebuild)")
    return 0
