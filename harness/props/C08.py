"""C08 — storage reads return the last write to the same slot; no aliasing.

Obligations: T-hashes, T-storeconsts, T-storeaxioms, Props/C08.vo (theorems about
Model/StorageModel.v over the regenerated Gen/GenHashes.v + Gen/GenStoreConsts.v +
Gen/GenStoreAxioms.v), lint.
Ties:
  L1a  real SolidityStorage.get_key_structure / GenericStorage.decode on z3 terms generated
       from the Solidity layout grammar, under a real KeccakRegistry, vs the extracted model
       (structure exactly, keys by value under valuations);
  L1b  real OffsetMap vs model; real Exec.select with a scripted oracle vs model;
  L1c  fresh_transient_storage / run_message wiring;
  L1d  the path side: sstore/sload sequences on a real Exec (real solver) vs the extracted
       path-side model: which term every load returns (ZERO / value / Select over which array
       at which key) and which storage axioms ex.path holds afterwards (array definitions,
       per-index emptiness axioms), in order;
  L2   SSTORE/SLOAD/TSTORE/TLOAD programs run by the real SEVM (both storage layouts), the
       returned load values evaluated per key valuation vs a flat dict -- under the all-zero
       interpretation of the initial arrays AND under one that is non-zero wherever the path
       has no emptiness axiom (every model of the path counts).
Spec-vs-implementation legs (always run): pairwise no-alias / same-location recognition of
the real decoders on every generated group (L1a), flat-dict comparison (L2).
"""
import ast
import os
import random
import time
from multiprocessing import Pool

from harness import c08_lib as L
from harness import c08_paths as CP
from harness import common
from harness.common import Model

PID = "C08"
TRANSLATORS = ["T-hashes", "T-storeconsts", "T-preregistry", "T-storeaxioms"]

# Genuine defects of halmos reproduced by this check on the unchanged tree.  A failing input
# whose `sig` matches one of these is printed as KNOWN-FINDING and does not fail the check.
KNOWN = common.known_for("C08")  # entries live in /verif/known_findings.json

ASSUMPTIONS = [
    "solver oracle soundness: an `unsat` answer of Exec.check is correct (hypothesis of C08_raw / C08_sequences, stated in the theorems)",
    "C08_sequences assumes the decoder is faithful on the family of locations a program uses (same EVM slot <-> same chunk and key); this is NOT proved in general -- it is checked pairwise against real Keccak-256 on every generated group (and refuted for six families of spellings, see known findings)",
    "keccak: the EVM side of every comparison uses the real Keccak-256 (no collision among the generated preimages is assumed)",
    "z3's simplify is modelled by its effect on the location grammar (constant folding under hashes, flattening/constant-summing of additions); normalize() is denotation-preserving and not modelled; both are exercised by the correspondence run only",
    "path.concretization.substitution is modelled as exactly the registered concrete hashes (f_sha3_N(const) -> hash)",
    "the extracted model and driver are faithful to the Coq definitions (extraction is trusted)",
    "C08_path_load / C08_path_sequences quantify over every interpretation of the array terms that satisfies the storage axioms of the path; the other conditions of a real path (branch conditions, hash axioms) do not mention the storage arrays, so restricting attention to the storage axioms loses nothing -- this is checked on every L2 path by evaluating ALL its conditions under the adversarial interpretation",
    "Exec.select's dict lookup of an array in ex.storages is modelled as a search of the definitions older than the current one (definitions only refer to older arrays: invariant pwf_st, proved preserved)",
]
PARTIAL = ("no general decode-faithfulness theorem (C08_decode_faithful of the design): faithfulness is a hypothesis of C08_sequences, witnessed on a concrete family and checked by the tie; "
           "the generic layout's decoder is modelled and tied but has only refutation theorems; "
           "Exec.select's three tests are abstracted into one oracle call (tied by scripted-oracle runs of the real Exec.select); "
           "load()'s chunk initialisation side effect is not modelled (pure default); symbolic initial storage is modelled (init, C08_path_has_model) and exercised by the L1d tie but not by the L2 tie; "
           "the path-side model covers one account and one of persistent/transient storage at a time (ex.storages/ex.path are shared by all of them in the code)")


# ----------------------------------------------------------------------------- L1a: decoders

def _err_code(e):
    from halmos.exceptions import NotConcreteError

    if isinstance(e, ValueError):
        return [-1]
    if isinstance(e, NotConcreteError):
        return [-2]
    if isinstance(e, AssertionError):
        return [-4]
    return [f"EXC {type(e).__name__}: {str(e)[:80]}"]


def impl_group(group):
    """real decoders on every location of the group under the group's registry"""
    import z3

    from halmos.sevm import GenericStorage, KeccakRegistry, SolidityStorage
    from halmos.utils import int_of

    from harness import zeval

    class Ex:
        def __init__(self):
            self.sha3s = KeccakRegistry()
            self.subst = {}   # path.concretization.substitution: sha3_data appends f_sha3_N(const) == hash

        def int_of(self, x, err=None):
            return int_of(x, err, self.subst)

    ex = Ex()
    out = {"reg": 0, "sol": [], "gen": []}
    try:
        for h, b, p in group["reg"]:
            expr = L.f_sha3(b)(z3.BitVecVal(p, b))
            if expr not in ex.sha3s:
                ex.subst[expr] = z3.BitVecVal(h, 256)
            ex.sha3s.register(expr, h.to_bytes(32, "big"))
    except AssertionError:
        out["reg"] = -4
        return out
    evs = [zeval.Evaluator(L.z3_env(env)) for env in group["envs"]]
    keep = []   # the evaluators memoise by AST id: keep every term alive so that ids are not recycled
    for t in group["locs"]:
        z = L.to_z3(t, flat_add=group.get("flat_add", True))
        keep.append(z)
        try:
            slot, keys, n, sz = SolidityStorage.get_key_structure(ex, z)
            keep.append(keys)
            vals = [[v for k in keys for v in (k.size(), ev.ev(k))] for ev in evs]
            out["sol"].append([[0, slot, n, sz] + v for v in vals])
        except Exception as e:  # noqa: BLE001
            out["sol"].append([_err_code(e)] * len(evs))
        try:
            d = GenericStorage.decode(ex, z)
            keep.append(d)
            out["gen"].append([[0, d.size(), ev.ev(d)] for ev in evs])
        except Exception as e:  # noqa: BLE001
            out["gen"].append([_err_code(e)] * len(evs))
    return out


def model_group_calls(group):
    calls = []
    for t in group["locs"]:
        for env in group["envs"]:
            inp = L.enc_input(group["reg"], env, t)
            calls.append(("c08_decode_sol", inp))
            calls.append(("c08_decode_gen", inp))
    return calls


def model_group_obs(group, res):
    it = iter(res)
    out = {"sol": [], "gen": []}
    for _t in group["locs"]:
        s, g = [], []
        for _env in group["envs"]:
            s.append(next(it))
            g.append(next(it))
        out["sol"].append(s)
        out["gen"].append(g)
    return out


_PRE = None


def pre_hashes():
    global _PRE
    if _PRE is None:
        import halmos.hashes as hs

        _PRE = set(hs.keccak256_256) | set(hs.keccak256_512)
    return _PRE


def const_features(t, reg, allhashes):
    """features of the constants of a location w.r.t. the group's final registry"""
    feats = set()
    known = {h for h, _, _ in reg} | pre_hashes()
    buckets = {h >> 16 for h in known}

    def go(t):
        k = t[0]
        if k == "K":
            z = t[1]
            if z >= L.MAXOFF and (z >> 16) not in buckets:
                near = [h for h in allhashes if abs(h - z) < L.MAXOFF]
                if any(h in known for h in near):
                    feats.add("bucket-crossing-constant")
                elif near:
                    feats.add("unresolved-hash-constant")
        elif k == "S256":
            go(t[1])
        elif k == "S512":
            go(t[1]); go(t[2])
        elif k == "SN":
            go(t[3])
        elif k == "Add":
            for x in t[1]:
                go(x)

    go(t)
    return feats


BOUNDARY_SLOTS = None


def boundary_slots():
    """smallest array slots p whose keccak ends in 0xffff / 0x0000 (bucket boundary)"""
    global BOUNDARY_SLOTS
    if BOUNDARY_SLOTS is None:
        hi = lo = None
        p = 0
        while hi is None or lo is None:
            low = L.H(256, p) & 0xFFFF
            if low == 0xFFFF and hi is None:
                hi = p
            if low == 0 and lo is None:
                lo = p
            p += 1
        BOUNDARY_SLOTS = (hi, lo)
    return BOUNDARY_SLOTS


# ----------------------------------------------------------------------------- precomputed-table constants

def table_entries(r, n512=5, n256=3):
    """rows of halmos' own precomputed tables (hashes.py as imported): (bits, hash constant, preimage words).
    512-bit rows with key != slot (the order of the two words matters), key == slot, and 256-bit rows."""
    import halmos.hashes as hs

    rows512 = sorted(hs.keccak256_512.items())
    rows256 = sorted(hs.keccak256_256.items())
    diff = [(h, ab) for h, ab in rows512 if ab[0] != ab[1]]
    same = [(h, ab) for h, ab in rows512 if ab[0] == ab[1]]
    pick = [x for x in diff if tuple(x[1]) == (0, 1)][:1]
    pick += r.sample(diff, min(len(diff), n512 - len(pick)))
    pick += r.sample(same, min(len(same), 1))
    out = [(512, h, tuple(ab)) for h, ab in pick]
    out += [(256, h, (x,)) for h, x in r.sample(rows256, min(len(rows256), n256))]
    return out


def _plus(t, off):
    return t if off == 0 else ("Add", [t, ("K", off)])


def _table_offset(r, h):
    """0 or a small offset that stays inside the hash's 2^16 bucket (outside: known finding)"""
    off = r.choice([0, 0, 1, 3])
    return off if (h + off) >> 16 == h >> 16 else 0


def table_programs(r, tier):
    """a location written as a PUSH32 constant of a precomputed-table row (+ small offset) and the
    SAME location reached by a run-time SHA3 of the row's preimage (concrete words / symbolic key
    or index), store through one spelling and load through the other, both directions, both layouts"""
    P = []
    for bits, h, pre in table_entries(r, *((5, 3) if tier == "quick" else (40, 20))):
        off = _table_offset(r, h)
        const = ("K", h + off)
        if bits == 512:
            a, b = pre
            conc = _plus(("S512", ("K", a), ("K", b)), off)
            symb = _plus(("S512", ("V", 0), ("K", b)), off)
            envs = [[a, 0, 7], [a + 1, 0, 7], [b, 0, 7]]
        else:
            (x,) = pre
            conc = _plus(("S256", ("K", x)), off)
            symb = ("Add", [("S256", ("K", x)), ("V", 0)])
            envs = [[off, 0, 7], [off + 1, 0, 7]]
        name = f"table{bits}-{'.'.join(map(str, pre))}+{off}"
        for layout in ("solidity", "generic"):
            # constant first: its preimage has not been hashed on this path when it is decoded
            P.append({"ops": [("sstore", const, ("K", 0x2A)), ("sload", symb), ("sload", conc), ("sload", const)],
                      "nargs": 3, "layout": layout, "tags": ["table-constant"], "name": name + "-const-then-hash", "envs": envs})
            P.append({"ops": [("sstore", symb, ("V", 2)), ("sload", const), ("sstore", const, ("K", 0x42)), ("sload", symb)],
                      "nargs": 3, "layout": layout, "tags": ["table-constant"], "name": name + "-hash-then-const", "envs": envs})
    return P


def table_groups(r, tier):
    """L1a groups (empty per-path registry): the constant spelling of a precomputed-table row and
    the hash-term spellings of the same location must decode to the same chunk and key"""
    G = []
    for bits, h, pre in table_entries(r, *((8, 4) if tier == "quick" else (60, 30))):
        off = _table_offset(r, h)
        if bits == 512:
            a, b = pre
            locs = [("K", h + off), _plus(("S512", ("V", 0), ("K", b)), off), ("S512", ("V", 1), ("K", b))]
            envs = [[a, a, 0], [a, a + 1, 0], [a + 1, b, 0]]
        else:
            (x,) = pre
            locs = [("K", h + off), ("Add", [("S256", ("K", x)), ("V", 0)]), ("K", x)]
            envs = [[off, 0, 0], [off + 1, 0, 0], [0, 0, 0]]
        G.append({"reg": [], "locs": locs, "envs": envs, "tags": [["table-constant"]] + [[] for _ in locs[1:]], "allh": [h],
                  "canon": locs, "flat_add": True, "layout_types": {"table": f"{bits}:{pre}"}})
    return G


FAILING_CALLEE = 0xC0DE
# ORIGIN PUSH1 8 JUMPI ; PUSH1 0 DUP1 REVERT ; JUMPDEST <fail>
FAILING_CALLEE_CODE = {"revert/revert": bytes.fromhex("32600857600080fd5b600080fd"),
                       "revert/invalid": bytes.fromhex("32600857600080fd5bfe")}


def failed_call_programs(r, tier):
    """a sub-call failing on two forked callee paths, then read-modify-write stores and loads in the
    caller: per path every load must return the last store of ITS path, and the paths must not share
    storage objects"""
    P = []
    m = ("S512", ("K", 7), ("K", 1))
    ms = ("S512", ("V", 0), ("K", 1))
    arr = ("Add", [("S256", ("K", 2)), ("V", 1)])
    shapes = [
        [("sinc", ("K", 0)), ("sinc", m), ("sload", m), ("sload", ("K", 0))],
        [("sstore", ms, ("K", 5)), ("sinc", ms), ("sinc", ("K", 3)), ("sload", ms), ("sload", ("K", 3)), ("sload", m)],
        [("tinc", ("K", 0)), ("tinc", m), ("sinc", arr), ("tload", m), ("tload", ("K", 0)), ("sload", arr)],
    ]
    n = 0
    for layout in ("solidity", "generic"):
        for ops in shapes:
            kind = ["revert/revert", "revert/invalid"][n % 2]
            call_op = ["CALL", "STATICCALL", "DELEGATECALL", "CALLCODE"][n % 4] if tier != "quick" or n % 3 else "CALL"
            n += 1
            P.append({"ops": ops, "nargs": 3, "layout": layout, "tags": ["failed-subcall"], "name": f"failed-call-{kind}",
                      "failed_call": kind, "call_op": call_op, "origins": [0xC0FFEE, 0], "envs": [[7, 0, 0], [7, 0, 0], [1, 2, 3], [1, 2, 3]], "nenv": 2})
    return P


def gen_group(r, tier, p_unreg=0.06, special=None):
    g = L.LayoutGen(r, nvars=3)
    layout = g.gen_layout()
    if special == "boundary":
        hi, lo = boundary_slots()
        layout = {hi: ("arr", ("val",)), lo: ("arr", ("val",)), 3: ("map", 256, ("arr", ("val",)))}
    nloc = r.randint(3, 6)
    reg, locs, tags, allh, canons = [], [], [], set(), []
    for _ in range(nloc):
        canon, tg = g.access(layout)
        canons.append(canon)
        for h, _, _ in L.hashes_in(canon):
            allh.add(h)
        t = L.respell(r, canon, reg, tg, p_const=r.choice([0.0, 0.5, 0.9]), p_unreg=p_unreg)
        t = L.shuffle_adds(r, t)
        if t[0] == "Add" and len(t[1]) < 2:
            t = t[1][0]
        if r.random() < 0.3:
            t = nest_adds(t)
        locs.append(t)
        tags.append(tg)
    r.shuffle(reg)
    envs = []
    for i in range(3 if tier == "quick" else 5):
        dom = [0, 1, 2, 3] if i < 2 else [0, 1, 2, 3, 255, 256, L.W - 1, r.getrandbits(256), r.getrandbits(16)]
        envs.append([r.choice(dom) for _ in range(3)])
    return {"reg": reg, "locs": locs, "envs": envs, "tags": [sorted(x) for x in tags], "allh": sorted(allh), "canon": canons,
            "flat_add": True, "layout_types": {str(k): str(v) for k, v in layout.items()}}


def vars_of(t):
    k = t[0]
    if k == "V":
        return {t[1]}
    if k == "S256":
        return vars_of(t[1])
    if k == "S512":
        return vars_of(t[1]) | vars_of(t[2])
    if k == "SN":
        return ({t[2][1]} if t[2][0] == "v" else set()) | vars_of(t[3])
    if k == "Add":
        return set().union(*[vars_of(x) for x in t[1]]) if t[1] else set()
    return set()


def nest_adds(t):
    """n-ary additions -> left-nested binary ones (what `a + b + c` builds before simplify)"""
    k = t[0]
    if k == "S256":
        return ("S256", nest_adds(t[1]))
    if k == "S512":
        return ("S512", nest_adds(t[1]), nest_adds(t[2]))
    if k == "SN":
        return ("SN", t[1], t[2], nest_adds(t[3]))
    if k == "Add":
        items = [nest_adds(x) for x in t[1]]
        acc = items[0]
        for x in items[1:]:
            acc = ("Add", [acc, x])
        return acc
    return t


def key_eq(a, b):
    """same chunk and same key (decoded observations under one valuation): halmos compares
    concat(keys) as ONE bit-vector, so the component boundaries do not matter"""
    if a[:4] != b[:4]:
        return False

    def cat(x):
        v = 0
        for bits, val in zip(x[4::2], x[5::2]):
            v = (v << bits) | val
        return v

    return cat(a) == cat(b)


def width_seq(t):
    """key widths along the access path of a location term"""
    k = t[0]
    if k == "S512":
        return width_seq(t[2]) + [256]
    if k == "SN":
        return width_seq(t[3]) + [t[1]]
    if k == "S256":
        return width_seq(t[1]) + ["a"]
    if k == "Add":
        return max((width_seq(x) for x in t[1]), key=len, default=[])
    return []


def check_group_spec(group, impl):
    """no aliasing / same-location recognition on every pair, both layouts -> list of failures"""
    fails = []
    locs = group["locs"]
    for layout, key in (("solidity", "sol"), ("generic", "gen")):
        for ei, env in enumerate(group["envs"]):
            vals = [L.spec_eval(t, env) for t in locs]
            for i in range(len(locs)):
                for j in range(i + 1, len(locs)):
                    a, b = impl[key][i][ei], impl[key][j][ei]
                    if a[0] != 0 or b[0] != 0:
                        continue
                    same = vals[i] == vals[j]
                    if same != key_eq(a, b):
                        feats = set()
                        for t in (locs[i], locs[j]):
                            feats |= const_features(t, group["reg"], group["allh"])
                        for tg in (group["tags"][i], group["tags"][j]):
                            for name in ("negative-offset-constant", "narrow-constant-key", "hash-valued-key"):
                                if name in tg:
                                    feats.add(name)
                        if any(env[x] >= (1 << 255) for t in (locs[i], locs[j]) for x in vars_of(t)):
                            feats.add("wrapping-offset")
                        wi, wj = width_seq(group.get("canon", locs)[i]), width_seq(group.get("canon", locs)[j])
                        if wi != wj and len(wi) == len(wj) and not same:
                            feats.add("mixed-width-keys")
                        fails.append({"layout": layout, "env": env, "i": i, "j": j, "same_slot": same,
                                      "loc_i": locs[i], "loc_j": locs[j], "decoded_i": a, "decoded_j": b,
                                      "features": sorted(feats)})
    return fails


# ----------------------------------------------------------------------------- L1b: OffsetMap, select

def impl_offsetmap(case):
    from halmos.utils import OffsetMap

    keys, q = case
    m = OffsetMap()
    try:
        for k in keys:
            m[k] = k
    except AssertionError:
        return [-4]
    v, d = m[q]
    return [0] if v is None else [1, v, d]


def spec_offsetmap(case):
    """what the docstring promises: value + delta == key, |delta| < 2^16 -- checked as a property"""
    return None


def impl_select(case):
    """Exec.select on a real chain of z3 Stores with Exec.check scripted"""
    import z3

    from halmos.sevm import Exec

    sym, n, answers = case
    base = z3.Array("storage_0xaa_0_1_256_00", z3.BitVecSort(256), z3.BitVecSort(256))
    arrays = {}
    keys = [z3.BitVec(f"k{i}", 256) for i in range(n)]
    cur = base
    for i in range(n):
        var = z3.Array(f"storage_0xaa_0_1_256_x_{i + 1:>02}", z3.BitVecSort(256), z3.BitVecSort(256))
        arrays[var] = z3.Store(cur, keys[i], z3.BitVecVal(i + 1, 256))   # stored value i+1 (0 is reserved for ZERO)
        cur = var
    q = z3.BitVec("q", 256)

    class Fake:
        pass

    fake = Fake()

    def check(cond):
        # cond is (q == k_i) or (q != k_i)
        neg = z3.is_distinct(cond) or z3.is_not(cond)
        inner = cond.arg(0) if z3.is_not(cond) else cond
        i = int(str(inner.arg(1))[1:])
        a = answers[n - 1 - i]
        if not neg:   # check(key == key0) == unsat  <=> MustNeq
            return z3.unsat if a == 1 else z3.sat
        return z3.unsat if a == 0 else z3.sat  # check(key != key0) == unsat <=> MustEq

    fake.check = check
    fake.select = lambda *a, **k: Exec.select(fake, *a, **k)
    res = _z(Exec.select(fake, cur, q, arrays, bool(sym)))
    if z3.is_bv_value(res):
        v = res.as_long()
        return [0] if v == 0 else [1, v - 1]
    if z3.is_select(res):
        arr = res.arg(0)
        depth = 0
        while arr in arrays:
            depth += 1
            arr = arrays[arr].arg(0)
        return [2, depth]
    return ["?", str(res)[:60]]


# ----------------------------------------------------------------------------- L1d: path side

def path_corpus():
    """fixed cases first: the undecided store followed by a constant-key load (both layouts,
    persistent and transient), a decided one, symbolic storage"""
    m = lambda k: ("S512", k, ("K", 1))   # noqa: E731
    a = lambda i: ("Add", [("S256", ("K", 3)), i])   # noqa: E731
    out = []
    for layout in ("solidity", "generic"):
        for transient in (False, True):
            out.append({"layout": layout, "sym": False, "transient": transient,
                        "ops": [("store", m(("V", 0)), 101), ("load", m(("K", 5))), ("store", a(("V", 1)), 102), ("load", a(("K", 7))),
                                ("load", m(("V", 0))), ("load", m(("V", 1)))]})
        out.append({"layout": layout, "sym": False, "transient": False,
                    "ops": [("store", m(("K", 5)), 101), ("load", m(("K", 7))), ("load", m(("K", 5))), ("store", ("K", 0), 102), ("load", ("K", 0)), ("load", ("K", 9))]})
        out.append({"layout": layout, "sym": True, "transient": False,
                    "ops": [("load", m(("K", 5))), ("store", m(("V", 0)), 101), ("load", m(("K", 5))), ("load", ("K", 9))]})
    return out


def l1d_worker(case):
    try:
        return CP.real_pathrun(case, L)
    except Exception as e:  # noqa: BLE001
        import traceback

        return {"exc": f"{type(e).__name__}: {e}"[:300], "trace": traceback.format_exc()[-600:]}


def run_l1d(rep, tier, r, exe):
    n = 200 if tier == "quick" else 5000
    cases = path_corpus() + [CP.gen_path_case(r) for _ in range(n)]
    if tier == "quick":
        reals = [l1d_worker(c) for c in cases]
    else:
        with Pool(min(16, os.cpu_count() or 4)) as pool_:
            reals = pool_.map(l1d_worker, cases, chunksize=16)
    nexc = 0
    good = [(c, x) for c, x in zip(cases, reals) if "exc" not in x]
    for c, x in zip(cases, reals):
        if "exc" in x:
            nexc += 1
            rep.count("l1d_exception", x["exc"][:80])
    if nexc > len(cases) // 4:
        rep.fail("broken-tie", f"L1d tie: {nexc} of {len(cases)} store/load sequences raised on the real Exec, e.g. {[x['exc'] for x in reals if 'exc' in x][0]}",
                 case={"path": next(c for c, x in zip(cases, reals) if "exc" in x)})
    mres = Model(exe).parallel_batch([("c08_pathrun", x["model_input"]) for _, x in good]) if exe is not None else [None] * len(good)
    nbad = 0
    for (c, x), mo in zip(good, mres):
        undecided = any(rr[0] == 2 for rr in x["results"])
        rep.case({"path": c}, nontrivial=any(op[0] == "store" for op in c["ops"]) and len(x["results"]) >= 2)
        rep.count("l1d_layout", c["layout"] + ("/symbolic" if c["sym"] else "") + ("/transient" if c.get("transient") else ""))
        for rr in x["results"]:
            rep.count("l1d_load_result", {0: "ZERO", 1: "stored value", 2: "Select(array, key)", 3: "initial scalar"}.get(rr[0], "other"))
        rep.count("l1d_undecided_store_before_load", str(undecided))
        for f in x["spec_fails"][:1]:
            if "error" in f:
                what = f"the terms SLOAD returns on the real Exec are not determined by its path (layout={c['layout']}, symbolic={c['sym']}, transient={c.get('transient')}): ops {c['ops']} under v={f.get('env')}: {f['error']}"
            else:
                what = (f"SLOAD on the real Exec returns a term whose value differs from the last write (layout={c['layout']}, symbolic={c['sym']}, transient={c.get('transient')}): "
                        f"ops {c['ops']} under v={f.get('env')}: halmos {f.get('halmos')} vs EVM {f.get('flat')} (initial arrays: {f.get('initial_arrays')})")
            report(rep, what, case={"path": c, **f}, sigs=known_sigs(set(), c["layout"]))
        if mo is None:
            continue
        res, path = CP.parse_model_pathrun(mo)
        if res != x["results"] or path != x["path"] or x["new_keys_at_runtime"]:
            nbad += 1
            if nbad <= 6:
                what = "load results" if res != x["results"] else "storage axioms in ex.path" if path != x["path"] else "keys handed to select / put in axioms are not the decoded keys"
                rep.fail("broken-tie", f"path-side model and implementation disagree on the {what} (layout={c['layout']}, symbolic={c['sym']}, transient={c.get('transient')}): ops {c['ops']}: implementation results {x['results']} path {x['path']}; model results {res} path {path}",
                         case={"path": c, "implementation": {"results": x["results"], "path": x["path"]}, "model": {"results": res, "path": path}})
    rep.coverage["l1d_cases"] = len(good)


# ----------------------------------------------------------------------------- L1c: transient wiring

def check_transient_wiring(rep):
    """run_message must build the new Exec with transient_storage=self.fresh_transient_storage(pre_ex);
    fresh_transient_storage must give every account an empty, non-symbolic StorageData"""
    src = (common.SRC / "sevm.py").read_text()
    tree = ast.parse(src)
    ok_kw, ok_body = False, False
    for cls in tree.body:
        if isinstance(cls, ast.ClassDef) and cls.name == "SEVM":
            for fn in cls.body:
                if isinstance(fn, ast.FunctionDef) and fn.name == "run_message":
                    for node in ast.walk(fn):
                        if isinstance(node, ast.Call) and ast.unparse(node.func) == "Exec":
                            for kw in node.keywords:
                                if kw.arg == "transient_storage" and ast.unparse(kw.value) == "self.fresh_transient_storage(pre_ex)":
                                    ok_kw = True
                if isinstance(fn, ast.FunctionDef) and fn.name == "fresh_transient_storage":
                    body = [s for s in fn.body if not (isinstance(s, ast.Expr) and isinstance(s.value, ast.Constant))]
                    if len(body) == 1 and isinstance(body[0], ast.Return):
                        ok_body = ast.unparse(body[0].value) == "{addr: self.mk_storagedata() for addr in ex.transient_storage}"
    rep.obligation("run_message passes transient_storage=self.fresh_transient_storage(pre_ex) (source shape)", ok_kw)
    if not ok_kw:
        rep.fail("broken-tie", "SEVM.run_message no longer starts a transaction with fresh_transient_storage(pre_ex)", case={"where": "sevm.py run_message"})
    # behaviour: after TSTOREs, fresh_transient_storage gives empty storages and a TLOAD there returns 0
    try:
        bad = impl_transient_fresh()
    except Exception as e:  # noqa: BLE001  the storage machinery itself raised on a plain TSTORE/TLOAD
        rep.obligation("fresh_transient_storage behaviour probe ran", False, f"{type(e).__name__}: {e}"[:300])
        rep.fail("broken-tie", f"TSTORE/TLOAD probe on the real SEVM raised {type(e).__name__}: {str(e)[:200]}", case={"probe": "transient"})
        return
    rep.obligation("fresh_transient_storage returns empty storages for every account (behaviour; source shape %s)" % ("as modelled" if ok_body else "CHANGED"), not bad, bad or "")
    if bad:
        rep.fail("failing-input", "transient storage is not empty at the start of a transaction: " + bad,
                 case={"what": bad}, sig={"feature": "transient-not-fresh"})


def _z(v):
    return v.as_z3() if hasattr(v, "as_z3") else v


def impl_transient_fresh():
    import z3

    from halmos.bitvec import HalmosBitVec as BV
    from halmos.utils import con_addr

    from harness import engine, scenarios

    scn = {"profile": "c08", "accounts": {scenarios.THIS: {"code": b"\x00"}, 0x1000: {"code": b"\x00"}}, "this": scenarios.THIS,
           "calldata": [("c", b"\x12\x34\x56\x78"), ("s", "arg0", 32)], "static": False, "options": {}}
    for layout in ("solidity", "generic"):
        scn["options"] = {"storage_layout": layout}
        from halmos.__main__ import mk_solver
        from halmos.calldata import FunctionInfo
        from halmos.mapper import BuildOut
        from halmos.sevm import SEVM

        if BuildOut()._build_out_map is None:
            BuildOut().set_build_out({})
        opts = engine.make_options(scn["options"])
        sevm = SEVM(opts, FunctionInfo("T", "test", "test()", "f8a8fd6d"))
        ex = engine.build_exec(scn, sevm, mk_solver(opts))
        this = con_addr(scenarios.THIS)
        x = z3.BitVec("arg0", 256)
        locs = [BV(5, size=256), BV(L.f_sha3(256)(z3.BitVecVal(4, 256)) + x, size=256), BV(x, size=256) if layout == "generic" else BV(7, size=256)]
        for i, l in enumerate(locs):
            sevm.sstore(ex, this, l, BV(0x42 + i, size=256), transient=True)
        for l in locs:
            v = _z(sevm.sload(ex, this, l, transient=True))
            if z3.is_bv_value(v) and v.as_long() == 0:
                return f"{layout}: TSTORE then TLOAD of {l} gives 0 (test harness expectation broken)"
        fresh = sevm.fresh_transient_storage(ex)
        if set(fresh.keys()) != set(ex.transient_storage.keys()):
            return f"{layout}: fresh_transient_storage has accounts {list(fresh)} instead of {list(ex.transient_storage)}"
        if any(sd._mapping or sd.symbolic for sd in fresh.values()):
            return f"{layout}: fresh_transient_storage returns non-empty / symbolic storage"
        if len({id(sd) for sd in fresh.values()}) != len(fresh):
            return f"{layout}: fresh_transient_storage shares one StorageData between accounts"
        ex.transient_storage = fresh
        for l in locs:
            v = _z(sevm.sload(ex, this, l, transient=True))
            if not (z3.is_bv_value(v) and v.as_long() == 0):
                # a Select over the empty array constrained to 0 by the emptiness axiom is fine too
                s = z3.Solver()
                for c in ex.path.conditions:
                    s.add(c)
                s.add(v != 0)
                if s.check() != z3.unsat:
                    return f"{layout}: TLOAD({l}) in a fresh transaction can be non-zero: {v}"
    return ""


# ----------------------------------------------------------------------------- L2: programs

def gen_program(r, tier):
    """store/load sequence over one layout's locations; values = small constants / variables"""
    nargs = 3
    g = L.LayoutGen(r, nvars=nargs, narrow=True)
    layout = g.gen_layout()
    mode = r.random()
    accesses = []
    for _ in range(r.randint(2, 4)):
        canon, tg = g.access(layout)
        if any(x in tg for x in ("narrowmap",)) and _has_wide(canon):
            continue
        accesses.append((canon, tg))
    if not accesses:
        accesses.append((("K", 0), set()))
    ops, feats = [], set()
    spelled = []
    for canon, tg in accesses:
        reg = []
        tg = set(tg)
        # p_unreg is irrelevant at L2: registration happens (or not) by what the program executes
        t = L.respell(r, canon, reg, tg, p_const=r.choice([0.0, 0.0, 0.5, 1.0]), p_unreg=1.0)
        t = L.shuffle_adds(r, t)
        spelled.append((t, canon, tg))
    n_ops = r.randint(3, 7)
    transient = r.random() < 0.25
    for i in range(n_ops):
        t, canon, tg = r.choice(spelled)
        which = r.choice([t, t, canon])
        c = r.random()
        if c < 0.45:
            v = ("K", r.choice([1, 2, 0x42, 0xFFFF, L.W - 1])) if r.random() < 0.6 else ("V", r.randrange(nargs))
            ops.append(("tstore" if transient and r.random() < 0.5 else "sstore", which, v))
        elif c < 0.92:
            ops.append(("tload" if transient and r.random() < 0.5 else "sload", which))
        else:
            ops.append(("sha3", canon))
    # make sure something is loaded after something was stored
    t, canon, tg = r.choice(spelled)
    ops.append(("sload", r.choice([t, canon])))
    layout_opt = r.choice(["solidity", "generic"])
    return {"ops": ops, "nargs": nargs, "layout": layout_opt, "tags": sorted(set().union(*[tg for _, _, tg in spelled]))}


def _has_wide(t):
    k = t[0]
    if k == "SN":
        return t[1] > 256 or _has_wide(t[3])
    if k == "S256":
        return _has_wide(t[1])
    if k == "S512":
        return _has_wide(t[1]) or _has_wide(t[2])
    if k == "Add":
        return any(_has_wide(x) for x in t[1])
    return False


def _tuplify(t):
    if isinstance(t, list):
        if t and isinstance(t[0], str):
            if t[0] == "Add":
                return ("Add", [_tuplify(x) for x in t[1]])
            if t[0] == "SN":
                return ("SN", t[1], tuple(t[2]), _tuplify(t[3]))
            return tuple(_tuplify(x) if isinstance(x, list) else x for x in t)
    return t


def program_features(prog, env):
    """features used as signatures of known findings.  For every big constant of the program:
    is it resolvable when it is used (its hash registered by an earlier run-time hash of
    concrete data, or precomputed)?"""
    feats = set()
    registered = set(pre_hashes())

    def consts(t):
        k = t[0]
        if k == "K":
            return [t[1]]
        if k == "S256":
            return consts(t[1])
        if k == "S512":
            return consts(t[1]) + consts(t[2])
        if k == "SN":
            return consts(t[3])
        if k == "Add":
            return [z for x in t[1] for z in consts(x)]
        return []

    for op in prog["ops"]:
        terms = [t for t in op[1:] if isinstance(t, tuple)]
        if op[0] != "sha3":
            for z in consts(op[1]):
                if z >= L.MAXOFF and (z >> 16) not in {h >> 16 for h in registered}:
                    if any(abs(h - z) < L.MAXOFF for h in registered):
                        feats.add("bucket-crossing-constant")
                    else:
                        feats.add("unresolved-hash-constant")
        for t in terms:
            for h, _, _ in L.hashes_in(t):
                registered.add(h)
    for name in ("negative-offset-constant", "narrow-constant-key", "hash-valued-key"):
        if name in prog.get("tags", []):
            feats.add(name)
    if env is not None and any(v >= (1 << 255) for v in env):
        feats.add("wrapping-offset")
    ws = [width_seq(op[1]) for op in prog["ops"] if op[0] != "sha3"]
    if any(a != b and len(a) == len(b) and sum(x for x in a if x != "a") == sum(x for x in b if x != "a") for a in ws for b in ws):
        feats.add("mixed-width-keys")
    return feats


def l2_worker(task):
    """run one program on the real SEVM; compare load values with the flat dict per valuation"""
    seed, prog = task
    from harness import asm, engine, scenarios

    r = random.Random(seed)
    items, nload = L.program(prog["ops"], prog["nargs"])
    accounts = {}
    if prog.get("failed_call"):
        # a sub-call whose callee forks on ORIGIN and fails on BOTH sides (revert / invalid), before the
        # caller's stores and loads: the caller resumes once per failed callee path, every continuation
        # from the pre-call snapshot of the network state
        accounts[FAILING_CALLEE] = {"code": FAILING_CALLEE_CODE[prog["failed_call"]]}
        items = [("push", 0)] * 5 + [("pushn", 20, FAILING_CALLEE), ("push", 0xFFFF), prog.get("call_op", "CALL"), "POP"] + items
        if prog.get("call_op", "CALL") in ("STATICCALL", "DELEGATECALL"):
            items = items[1:]
    code = asm.assemble(items)
    accounts[scenarios.THIS] = {"code": code}
    scn = {"profile": "c08", "accounts": accounts, "this": scenarios.THIS,
           "calldata": [("c", b"\x12\x34\x56\x78")] + [("s", f"arg{i}", 32) for i in range(prog["nargs"])],
           "static": False, "options": {"storage_layout": prog["layout"]}}
    paths, flags = engine.run_scenario(scn)
    envs = [list(e) for e in prog.get("envs", [])]
    for i in range(prog.get("nenv", 6)):
        dom = [0, 1, 2, 3] if i < 4 else [0, 1, 2, 3, 255, 256, L.W - 1, r.getrandbits(256)]
        envs.append([r.choice(dom) for _ in range(prog["nargs"])])
    res = {"kinds": [p.kind for p in paths], "crashed": flags["crashed"], "fails": [], "evaluated": 0, "uncovered": 0,
           "errors": 0, "code": code.hex(), "nload": nload, "shared": []}
    if prog.get("failed_call"):
        from harness import c09_lib

        # storage objects must never be shared between sibling paths (SSTORE/TSTORE mutate them in place)
        res["shared"] = c09_lib.shared_objects(paths)[:3]
        res["npaths_ok"] = sum(1 for p in paths if p.kind == "ok")
    origins = prog.get("origins", [0xC0FFEE])
    for ei, env in enumerate(envs):
        inp = {"caller": 0xC0FFEE, "origin": origins[ei % len(origins)], "value": 0, "args": {f"arg{i}": v for i, v in enumerate(env)}, "balances": {}}
        expect = L.ref_program(prog["ops"], env)
        holders = 0
        for p in paths:
            # every model of the path counts: the initial arrays of a non-symbolic account are
            # uninterpreted, so besides the all-zero interpretation the path is evaluated with the
            # initial arrays non-zero wherever no emptiness axiom of the path pins them to 0
            for default in (0,) + CP.SENTINELS[:1]:
                ok, ev = CP.holds_under(p, inp, default)
                if ok is None:
                    res["errors"] += 1
                    continue
                if not ok:
                    continue
                if default == 0:
                    holders += 1
                if p.kind != "ok":
                    res["errors"] += 1
                    continue
                try:
                    rb = p.ret_bytes(ev)
                except Exception as e:  # noqa: BLE001
                    res["errors"] += 1
                    res.setdefault("eval_errors", []).append(f"{type(e).__name__}: {e}"[:160])
                    continue
                got = [int.from_bytes(rb[32 * i:32 * i + 32], "big") for i in range(nload)]
                res["evaluated"] += 1
                if default:
                    res["adversarial"] = res.get("adversarial", 0) + 1
                if got != expect:
                    res["fails"].append({"env": env, "halmos": got, "flat": expect, "initial_arrays": "all zero" if default == 0 else
                                         f"{hex(default)} at every index without an emptiness axiom in the path (a model of the path condition)"})
        if not holders and not flags["crashed"] and not any(k.startswith("stuck") for k in res["kinds"]):
            res["uncovered"] += 1
            res.setdefault("uncovered_inputs", []).append({"env": env, "origin": inp["origin"]})
    return res


def l2_batch_worker(batch):
    out = []
    for task in batch:
        try:
            out.append(("ok", l2_worker(task)))
        except Exception:  # noqa: BLE001
            import traceback

            out.append(("exc", traceback.format_exc()[-600:]))
    return out


def run_l2(rep, tier, r):
    from harness import pool

    n = 240 if tier == "quick" else 3000
    progs = corpus_programs() + table_programs(r, tier) + failed_call_programs(r, tier) + [gen_program(r, tier) for _ in range(n)]
    tasks = [(r.getrandbits(32), p) for p in progs]
    bs = 10
    batches = [tasks[i:i + bs] for i in range(0, len(tasks), bs)]
    t0 = time.time()
    out = pool.run_tasks(l2_batch_worker, batches, timeout=40 if tier == "quick" else 120, workers=4 if tier == "quick" else 16,
                         total_timeout=40 if tier == "quick" else 900)
    out = [x for (st, val), b in zip(out, batches) for x in (val if st == "ok" else [(st, None)] * len(b))]
    nfail = 0
    stats = {"ok": 0, "timeout": 0, "exc": 0, "error_paths": 0, "evaluated": 0}
    for (seed, prog), (st, val) in zip(tasks, out):
        if st != "ok":
            stats[st] = stats.get(st, 0) + 1
            if st == "exc":
                rep.count("l2_worker_exception", str(val).strip().splitlines()[-1][:80])
            continue
        stats["ok"] += 1
        stats["error_paths"] += val["errors"]
        stats["evaluated"] += val["evaluated"]
        rep.count("l2_layout", prog["layout"])
        for tg in prog["tags"] or ["scalar-only"]:
            rep.count("l2_tag", tg)
        for k in val["kinds"]:
            rep.count("l2_path_kind", k.split(":")[1] if k.startswith("stuck") else k)
        rep.case({"l2": {"ops": prog["ops"], "layout": prog["layout"]}}, nontrivial=val["evaluated"] > 0 and any(o[0] in ("sload", "tload") for o in prog["ops"][:-1]))
        if val["uncovered"]:
            rep.count("l2_uncovered_valuations", prog["layout"], val["uncovered"])
        if prog.get("failed_call"):
            rep.count("l2_failed_call_paths", val.get("npaths_ok", 0))
            if val.get("npaths_ok", 0) < 2:
                rep.fail("broken-tie", f"L2 sub-call leg: the failing callee was expected to give >= 2 caller continuations, got path kinds {val['kinds']} for {prog['ops']}", case={"l2": prog})
            if val["uncovered"]:
                u = val["uncovered_inputs"][0]
                rep.fail("failing-input", f"after a sub-call that failed on >= 2 paths, NO reported path holds / can be evaluated for args {u['env']} origin={hex(u['origin'])} (layout={prog['layout']}, {prog.get('call_op', 'CALL')}): the loads of the path covering it do not return the last store of that path (terms over storage arrays defined only in a sibling path); program {prog['ops']}; path kinds {val['kinds']}",
                         case={"l2": prog, "env": u["env"], "origin": u["origin"], "code": val["code"]}, sig={"feature": "failed-subcall-uncovered", "layout": prog["layout"]})
            for what in val["shared"][:1]:
                rep.fail("broken-tie", f"after a sub-call that failed on >= 2 paths the reported paths share a storage object (a store in one path is visible to its sibling; layout={prog['layout']}, {prog.get('call_op', 'CALL')}): {what}; program {prog['ops']}",
                         case={"l2": prog, "code": val["code"]})
        if val["fails"]:
            f = val["fails"][0]
            feats = program_features(prog, f["env"])
            sigs = known_sigs(feats, prog["layout"])
            report(rep, f"SLOAD returns a value different from the last write (layout={prog['layout']}): program {prog['ops']} under args {f['env']}: halmos {[hex(x) for x in f['halmos']]} vs EVM {[hex(x) for x in f['flat']]} (initial arrays: {f.get('initial_arrays')})",
                   case={"l2": prog, "env": f["env"], "halmos": f["halmos"], "flat": f["flat"], "code": val["code"], "initial_arrays": f.get("initial_arrays")}, sigs=sigs)
            nfail += 1
    rep.coverage["l2_stats"] = stats
    rep.coverage["l2_seconds"] = round(time.time() - t0, 1)
    if stats["ok"] < max(5, len(tasks) // 4):
        rep.fail("broken-tie", f"L2 tie: only {stats['ok']} of {len(tasks)} programs ran ({stats})", case={"stats": stats})


def corpus_programs():
    """fixed programs run first: F4, generic negative offset, bucket crossing, plain last-write-wins"""
    H4 = L.H(256, 4)
    H100000 = L.H(256, 100000)
    hi, lo = boundary_slots()
    P = []
    for layout in ("solidity", "generic"):
        P.append({"ops": [("sstore", ("K", H100000), ("K", 0x42)), ("sha3", ("S256", ("K", 100000))), ("sload", ("K", H100000))],
                  "nargs": 3, "layout": layout, "tags": ["arr", "hash-constant"], "name": "F4"})
        P.append({"ops": [("sstore", ("K", H4), ("K", 0x42)), ("sload", ("Add", [("K", H4 - 1), ("V", 0)]))],
                  "nargs": 3, "layout": layout, "tags": ["arr", "hash-constant", "negative-offset-constant"], "name": "neg"})
        P.append({"ops": [("sstore", ("Add", [("S256", ("K", hi)), ("V", 0)]), ("K", 0x42)), ("sload", ("K", L.H(256, hi) + 1))],
                  "nargs": 3, "layout": layout, "tags": ["arr", "hash-constant", "const+offset"], "name": "bucket"})
        P.append({"ops": [("sstore", ("S512", ("V", 0), ("K", 1)), ("V", 2)), ("sstore", ("S512", ("V", 1), ("K", 1)), ("K", 7)),
                          ("sload", ("S512", ("V", 0), ("K", 1))), ("sload", ("S512", ("K", 2), ("K", 1))), ("sload", ("K", 1))],
                  "nargs": 3, "layout": layout, "tags": ["map"], "name": "map-last-write"})
        m1 = ("SN", 16, ("v", 1), ("SN", 8, ("v", 0), ("K", 1)))
        m2 = ("SN", 8, ("v", 3), ("SN", 16, ("v", 2), ("K", 1)))
        P.append({"ops": [("sstore", m1, ("K", 0x42)), ("sload", m2), ("sload", m1)], "nargs": 4, "layout": layout,
                  "tags": ["narrowmap"], "name": "mixed-width", "envs": [[0xAB, 0x00CD, 0xAB00, 0xCD], [0, 1, 0, 1]]})
        P.append({"ops": [("sstore", ("SN", 16, ("v", 1), ("K", 5)), ("K", 0x42)), ("sload", ("SN", 16, ("c", 0), ("K", 5)))],
                  "nargs": 3, "layout": layout, "tags": ["narrowmap", "narrow-constant-key"], "name": "narrow-const", "envs": [[0, 0, 0]]})
        P.append({"ops": [("sstore", ("S256", ("S512", ("K", 2), ("K", 0))), ("K", 0x42)), ("sload", ("S512", ("S256", ("K", 2)), ("K", 0)))],
                  "nargs": 3, "layout": layout, "tags": ["map", "arr", "hash-valued-key"], "name": "hash-key"})
        # a store whose key may or may not equal the constant key loaded next: select() stops at the
        # undecided store, the value of the never-written entry comes from the path's axioms only
        P.append({"ops": [("sstore", ("S512", ("V", 0), ("K", 1)), ("K", 7)), ("sload", ("S512", ("K", 5), ("K", 1))),
                          ("sstore", ("Add", [("S256", ("K", 2)), ("V", 1)]), ("V", 2)), ("sload", ("Add", [("S256", ("K", 2)), ("K", 3)])),
                          ("tstore", ("S512", ("V", 0), ("K", 1)), ("K", 9)), ("tload", ("S512", ("K", 5), ("K", 1)))],
                  "nargs": 3, "layout": layout, "tags": ["map", "arr", "transient"], "name": "undecided-store-then-constant-load",
                  "envs": [[5, 3, 8], [4, 2, 8]]})
        P.append({"ops": [("tstore", ("K", 1), ("K", 5)), ("sstore", ("K", 1), ("K", 6)), ("tload", ("K", 1)), ("sload", ("K", 1)),
                          ("tload", ("Add", [("S256", ("K", 2)), ("V", 0)]))],
                  "nargs": 3, "layout": layout, "tags": ["transient"], "name": "transient-separate"})
    return P


# ----------------------------------------------------------------------------- reporting with local known findings

def known_sigs(feats, layout):
    return [{"feature": f, "layout": layout} for f in sorted(feats)] or [{"feature": "none", "layout": layout}]


_KNOWN_HITS = {}


def report(rep, what, case, sigs):
    """a failing input; known if *every* risky feature set ... at least one sig matches a KNOWN entry"""
    for sig in sigs:
        for k in KNOWN:
            if common.finding_matches(k, {"sig": sig}):
                _KNOWN_HITS.setdefault(k["id"], {"what": k["what"], "count": 0, "example": what[:700], "case": case})
                _KNOWN_HITS[k["id"]]["count"] += 1
                return
    n = sum(1 for f in rep.failures if f["kind"] == "failing-input")
    if n < 12:
        rep.fail("failing-input", what, case=case, sig=sigs[0])


# ----------------------------------------------------------------------------- run

def run(rep, tier):
    T = {}
    t0 = time.time()
    b = common.build_property(PID, TRANSLATORS)
    T["build_property"] = round(time.time() - t0, 1)
    common.standard_obligations(rep, PID, b)
    exe = None
    if b["make_ok"]:
        exe, log = common.build_driver(PID)
        rep.obligation("extraction of Model/StorageModel.v entry points + OCaml driver build", exe is not None, "" if exe else log[-800:])
        if exe is None:
            rep.fail("broken-tie", "extracted model driver does not build: " + log[-400:], case={})
    r = common.rng(PID)
    _KNOWN_HITS.clear()

    T["driver"] = round(time.time() - t0, 1)
    check_transient_wiring(rep)
    T["transient"] = round(time.time() - t0, 1)

    # ---- L1a
    ngroups = 260 if tier == "quick" else 4000
    groups = [gen_group(r, tier, special="boundary" if i % 9 == 0 else None) for i in range(ngroups)]
    groups = table_groups(r, tier) + groups
    if tier == "quick":
        impl = [impl_group(g) for g in groups]     # ~20 ms per group: cheaper than forking a pool
    else:
        with Pool(min(16, os.cpu_count() or 4)) as pool_:
            impl = pool_.map(impl_group, groups, chunksize=32)
    T["l1_impl"] = round(time.time() - t0, 1)
    model_res = None
    if exe is not None:
        m = Model(exe)
        calls, spans = [], []
        for g in groups:
            cs = model_group_calls(g)
            spans.append((len(calls), len(cs)))
            calls += cs
        res = m.parallel_batch(calls)
        model_res = [model_group_obs(g, res[s:s + n]) for g, (s, n) in zip(groups, spans)]
    nbad = 0
    for gi, g in enumerate(groups):
        im = impl[gi]
        for tg in set().union(*g["tags"]) or {"scalar"}:
            rep.count("l1_tag", tg)
        rep.count("l1_registry_size", min(len(g["reg"]), 6))
        errs = sum(1 for x in im["sol"] if x and x[0][0] != 0)
        rep.count("l1_solidity_decode_errors", errs)
        nontrivial = len(g["locs"]) >= 2 and any(len(t) > 2 or t[0] != "K" for t in g["locs"])
        rep.case({"l1": {"reg": g["reg"], "locs": g["locs"], "envs": g["envs"]}}, nontrivial=nontrivial)
        if im["reg"] != 0:
            continue
        for f in check_group_spec(g, im):
            sigs = known_sigs(f["features"], f["layout"])
            report(rep, f"decode {'fails to recognise the same slot' if f['same_slot'] else 'ALIASES distinct slots'} (layout={f['layout']}): {f['loc_i']} vs {f['loc_j']} under v={f['env']} registry={g['reg']}: decoded {f['decoded_i']} vs {f['decoded_j']}",
                   case={"l1": {"reg": g["reg"], "locs": [f["loc_i"], f["loc_j"]], "envs": [f["env"]]}, **{k: f[k] for k in ("layout", "same_slot", "decoded_i", "decoded_j")}}, sigs=sigs)
        if model_res is not None:
            mo = model_res[gi]
            for key in ("sol", "gen"):
                if im[key] != mo[key]:
                    nbad += 1
                    if nbad <= 8:
                        idx = next(i for i, (x, y) in enumerate(zip(im[key], mo[key])) if x != y)
                        rep.fail("broken-tie", f"model and implementation disagree on {'SolidityStorage.get_key_structure' if key == 'sol' else 'GenericStorage.decode'} of {g['locs'][idx]} registry={g['reg']} envs={g['envs']}: implementation {im[key][idx]} model {mo[key][idx]}",
                                 case={"l1": {"reg": g["reg"], "locs": [g["locs"][idx]], "envs": g["envs"]}, "implementation": im[key][idx], "model": mo[key][idx]})

    T["l1_model_and_compare"] = round(time.time() - t0, 1)
    # ---- L1b: OffsetMap and select
    om_cases = gen_offsetmap_cases(r, tier)
    sel_cases = gen_select_cases(r, tier)
    om_impl = [impl_offsetmap(c) for c in om_cases]
    sel_impl = [impl_select(c) for c in sel_cases]
    for c, o in zip(om_cases, om_impl):
        rep.case({"offsetmap": c}, nontrivial=o != [0])
        rep.count("offsetmap_outcome", {0: "miss", 1: "hit", -4: "assert"}[o[0]])
        if o[0] == 1 and o[1] + o[2] != c[1]:
            rep.fail("failing-input", f"OffsetMap lookup returns (value, delta) with value+delta != key: keys={c[0]} query={c[1]} -> {o}",
                     case={"offsetmap": c, "got": o}, sig={"feature": "offsetmap-delta"})
        if o[0] == 0 and c[1] in c[0]:
            rep.fail("failing-input", f"OffsetMap loses a stored key: keys={c[0]} query={c[1]}", case={"offsetmap": c}, sig={"feature": "offsetmap-miss"})
    if exe is not None:
        mres = Model(exe).parallel_batch([("c08_offsetmap", [len(k)] + list(k) + [q]) for k, q in om_cases]
                                         + [("c08_select", [s, n] + list(a)) for s, n, a in sel_cases])
        for c, a, b_ in zip(om_cases + sel_cases, om_impl + sel_impl, mres):
            if a != b_:
                nbad += 1
                if nbad <= 12:
                    rep.fail("broken-tie", f"model and implementation disagree on {'OffsetMap' if len(c) == 2 else 'Exec.select'} case {c}: implementation {a} model {b_}", case={"case": c, "implementation": a, "model": b_})
    for c, o in zip(sel_cases, sel_impl):
        rep.case({"select": c}, nontrivial=c[1] > 0)
        rep.count("select_outcome", {0: "zero", 1: "value", 2: "select"}.get(o[0], str(o[0])))
        exp = spec_select(c)
        if exp is not None and o != exp and not (o[0] == 2):
            rep.fail("failing-input", f"Exec.select returns a definite answer that contradicts the oracle's (sound) answers: case {c}: got {o}, last write says {exp}",
                     case={"select": c, "got": o}, sig={"feature": "select"})

    T["l1b"] = round(time.time() - t0, 1)
    # ---- L1d: the path side (array terms returned, axioms left in ex.path)
    run_l1d(rep, tier, r, exe)
    T["l1d"] = round(time.time() - t0, 1)
    # ---- L2
    run_l2(rep, tier, r)
    T["l2"] = round(time.time() - t0, 1)
    rep.coverage["phase_seconds_cumulative"] = T

    for kid, h in _KNOWN_HITS.items():
        print(f"KNOWN-FINDING: property={PID} {kid} ({h['count']} failing inputs): {h['what'][:300]}")
    rep.coverage["known_findings_local"] = {k: {"count": v["count"], "example": v["example"], "case": v["case"]} for k, v in _KNOWN_HITS.items()}
    rep.coverage["traces_validated_against_impl"] = len(groups) if model_res is not None else 0
    return rep.finish(
        checker_cmd="make -C coq Props/C08.vo (coq_makefile, coqc 8.16.1) after regenerating coq/Gen/GenHashes.v, coq/Gen/GenStoreConsts.v and coq/Gen/GenStoreAxioms.v from /repo/src/halmos/{hashes,utils,sevm}.py",
        trusted_base=common.TRUSTED_BASE_COMMON,
        assumptions=ASSUMPTIONS,
        partial=PARTIAL,
        rule="L1: groups of 3-6 storage locations over one random Solidity layout (scalars, struct members, mappings with 256-bit and 8..512-bit keys, dynamic arrays, nestings), each in a random spelling (run-time hash term, registered/unregistered hash constant, constant folded with an offset, biased by -1, reordered / nested / n-ary additions), one shared KeccakRegistry; keys and indices are constants or variables valued in {0,1,2,3} (colliding) and boundary/random words; every location is decoded by the real SolidityStorage.get_key_structure and GenericStorage.decode and by the extracted model (structure compared exactly, keys by value), and every pair is checked against the EVM value (aliasing / recognition). A group is non-trivial when it has >= 2 locations not all plain constants. L1d: sequences of 4-9 sstore/sload (or tstore/tload) over mapping / nested-mapping / array / scalar locations with constant, symbolic and offset keys issued on a real Exec, in both layouts, non-symbolic and symbolic accounts, compared with the extracted path-side model (returned terms, axioms in ex.path) and, for non-symbolic accounts, evaluated under 4 colliding valuations x {all-zero, adversarial} initial arrays against a flat dict; non-trivial when a store precedes >= 2 loads. OffsetMap: random key sets with neighbours in the same / adjacent buckets; Exec.select: all oracle scripts over chains up to length 4 (quick) / 6. L2: SSTORE/SLOAD/TSTORE/TLOAD programs over such locations run by the real SEVM in both layouts, load results evaluated under 6 valuations x {all-zero initial arrays, initial arrays non-zero wherever the path has no emptiness axiom} vs a flat dict; non-trivial when a load follows a store.",
    )


def spec_select(case):
    """last-write-wins under a sound oracle: definite answer only if the script determines it"""
    sym, n, answers = case
    for i in range(n - 1, -1, -1):
        a = answers[n - 1 - i]
        if a == 0:
            return [1, i]
        if a == 2:
            return None
    return None if sym else [0]


def gen_offsetmap_cases(r, tier):
    cases = []
    n = 400 if tier == "quick" else 5000
    for _ in range(n):
        base = r.getrandbits(r.choice([20, 64, 256]))
        keys = []
        for _ in range(r.randint(0, 3)):
            c = r.random()
            if c < 0.5:
                keys.append(r.getrandbits(256))
            elif c < 0.75:
                keys.append((base >> 16 << 16) + r.choice([0, 1, 0xFFFF, 0xFFFE, r.getrandbits(16)]))
            else:
                keys.append(((base >> 16) + r.choice([-1, 1])) % (1 << 240) * 65536 + r.choice([0, 0xFFFF, r.getrandbits(16)]))
        if keys and r.random() < 0.3:
            keys.append(r.choice(keys))
        src = r.choice(keys) if keys and r.random() < 0.8 else base
        q = max(0, src + r.choice([0, 0, 1, -1, 3, 0xFFFF, -0xFFFF, 0x10000, -0x10000, r.randint(-70000, 70000)]))
        cases.append((keys, q))
    return cases


def gen_select_cases(r, tier):
    import itertools

    cases = []
    N = 4 if tier == "quick" else 6
    for n in range(N + 1):
        for a in itertools.product([0, 1, 2], repeat=n):
            for sym in (0, 1):
                cases.append((sym, n, list(a)))
    return cases


def replay(rep, body):
    for f in body.get("failures", []):
        case = f.get("case") or {}
        if "l1" in case:
            g = dict(case["l1"])
            g["locs"] = [_tuplify(t) for t in g["locs"]]
            g["reg"] = [tuple(x) for x in g["reg"]]
            print("implementation:", impl_group(g))
            print("EVM values     :", [[L.spec_eval(t, env) for env in g["envs"]] for t in g["locs"]])
        if "path" in case:
            c = dict(case["path"])
            c["ops"] = [tuple(_tuplify(x) if isinstance(x, list) else x for x in op) for op in c["ops"]]
            x = CP.real_pathrun(c, L)
            print("ops:", c["ops"], "layout", c["layout"], "symbolic", c["sym"], "transient", c.get("transient"))
            print("implementation: results", x["results"], "path", x["path"])
            print("spec failures :", x["spec_fails"])
        if "l2" in case:
            p = dict(case["l2"])
            p["ops"] = [tuple(_tuplify(x) if isinstance(x, list) else x for x in op) for op in p["ops"]]
            print("program:", p["ops"], "layout", p["layout"])
            print(l2_worker((1, p)))
    return 0
