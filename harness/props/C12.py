"""C12 — symbolic calldata is a fully general, well-formed ABI encoding.

Obligations: T-abienc (calldata.py -> Gen/GenAbiEnc.v), T-dynparams (sevm.py -> Gen/GenDynParams.v:
Concretization.process_dyn_params, the decision chain of SEVM.calldataload, the concretization given by
Path.branch / Path.extend_path),
Props/C12.vo, lint.
Tie X-C12, on generated (signature, length configuration, concrete argument) cases:
  * model vs implementation: parse_tuple_type result, the chunk structure of mk_calldata's
    ByteVec (kind, bit size, constant, symbol label without uid, symbol counter), the
    EncodingResult size/static flag, dyn_params, and the branches SEVM.calldataload makes
    on every word of the calldata -- against the extracted Coq model;
  * spec vs implementation (independent of the model): an ABI decoder written from the
    specification is unified with the real calldata for a random admitted argument tuple
    (binding symbols byte by byte; a conflict, a constant where a leaf should be free, a
    size symbol whose value is not a configured candidate, a symbol used twice or a
    missing candidate branch is a failing input); the instantiated bytes are decoded by
    the Python decoder and by the extracted Coq `decode`;
  * several calldata in one path (harness/props/C12_path.py): sessions of 1-4 signatures registered
    in one real Path by a script of register / extend_path / branch / fix / skip events, and the real
    svm.createCalldata implementation followed by real SEVM runs -- every size symbol of every
    registered calldata must still branch over its configured candidates; against the specification
    and against the extracted path model (prun).
"""
import os
import re
from multiprocessing import Pool

from harness import common
from harness.common import Model
from harness.props import C12_path as PS

PID = "C12"
TRANSLATORS = ["T-abienc", "T-dynparams"]
KNOWN = []

PARTIAL = None
ASSUMPTIONS = [
    "symbol identity: the model identifies a symbol with the index of its creation; the real name "
    "p_<name>_<typ>_<uid>_<counter> is distinct from the others when new_symbol_id is a strictly increasing "
    "counter (tests/cheatcodes) or the 7-hex-digit uid() draws differ (setUp / invariant targets pass no counter); "
    "distinctness of the real names is checked on every generated case",
    "ByteVec.append / get_word / concretize behave as a flat byte array (property C07)",
    "length lists are non-empty and non-negative (config.ensure_non_empty; python max([]) raises); "
    "zero-length fixed arrays T[0] (not expressible in Solidity) are excluded from the instance theorem",
    "the extracted model and driver are faithful to the Coq definitions (extraction is trusted)",
]

W256 = 1 << 256

# ================================================================= independent spec (python)
# types: ("base", s) | ("fixed", t, n) | ("dyn", t) | ("tuple", [(name, t), ...])


def spec_classify(s):
    if s in ("bytes", "string", "address", "bool"):
        return (s,)
    for pre, kind in (("uint", "uint"), ("int", "int"), ("bytes", "bytesN")):
        if s.startswith(pre) and s[len(pre):].isascii() and s[len(pre):].isdigit():
            m = int(s[len(pre):])
            if kind == "bytesN":
                return ("bytesN", m) if 1 <= m <= 32 else ("unknown",)
            return (kind, m) if 8 <= m <= 256 and m % 8 == 0 else ("unknown",)
    return ("unknown",)


def spec_valid_word(kind, w):
    if not 0 <= w < W256:
        return False
    k = kind[0]
    if k == "uint":
        return w < (1 << kind[1])
    if k == "int":
        return w < (1 << (kind[1] - 1)) or w >= W256 - (1 << (kind[1] - 1))
    if k == "address":
        return w < (1 << 160)
    if k == "bool":
        return w < 2
    if k == "bytesN":
        return w % (1 << (8 * (32 - kind[1]))) == 0
    return False


def spec_is_dyn(t):
    if t[0] == "base":
        return spec_classify(t[1])[0] in ("bytes", "string")
    if t[0] == "fixed":
        return spec_is_dyn(t[1])
    if t[0] == "dyn":
        return True
    return any(spec_is_dyn(x) for _, x in t[1])


def spec_static_size(t):
    if t[0] == "base":
        return 32
    if t[0] == "fixed":
        return t[2] * spec_static_size(t[1])
    if t[0] == "dyn":
        return 32
    return sum(spec_static_size(x) for _, x in t[1])


class DecodeError(Exception):
    pass


def _word(buf, p):
    if p + 32 > len(buf):
        raise DecodeError(f"word at {p} out of bounds")
    return int.from_bytes(bytes(buf[p:p + 32]), "big")


def spec_decode(t, buf, p=0):
    """ABI decoder (total: raises DecodeError).  Values: int | bytes | list."""
    if t[0] == "base":
        w = _word(buf, p)
        kind = spec_classify(t[1])
        if kind[0] in ("bytes", "string"):
            if p + 32 + w > len(buf):
                raise DecodeError("bytes out of bounds")
            return bytes(buf[p + 32:p + 32 + w])
        if not spec_valid_word(kind, w):
            raise DecodeError(f"invalid {t[1]} word {w:#x}")
        return w
    if t[0] == "fixed":
        return spec_dec_seq([t[1]] * t[2], buf, p)
    if t[0] == "dyn":
        n = _word(buf, p)
        if n > 1 << 16:
            raise DecodeError("absurd array length")
        return spec_dec_seq([t[1]] * n, buf, p + 32)
    return spec_dec_seq([x for _, x in t[1]], buf, p)


def spec_dec_seq(ts, buf, base):
    out, hp = [], base
    for t in ts:
        if spec_is_dyn(t):
            out.append(spec_decode(t, buf, base + _word(buf, hp)))
            hp += 32
        else:
            out.append(spec_decode(t, buf, hp))
            hp += spec_static_size(t)
    return out


def spec_cand(cfg, name, is_array):
    """cfg = {"lengths": {name: [..]}, "array": [..], "bytes": [..]}"""
    if name in cfg["lengths"]:
        return cfg["lengths"][name]
    return cfg["array"] if is_array else cfg["bytes"]


def idx_name(name, i):
    return f"{name}[{i}]"


def field_name(name, fld):
    return f"{name}.{fld}" if name else fld


# ----------------------------------------------------------------- symbolic buffer and unification

class Conflict(Exception):
    def __init__(self, what, sig):
        super().__init__(what)
        self.what, self.sig = what, sig


class SymBuf:
    """the real calldata (arguments part) as a per-byte array: ('c', b) | ('s', sym, i)."""

    def __init__(self, cells):
        self.cells = cells
        self.bound = {}  # (sym, i) -> byte

    def __len__(self):
        return len(self.cells)

    def write(self, p, data, what):
        """require the bytes at p.. to be `data` (bind symbolic bytes)"""
        if p + len(data) > len(self.cells):
            raise Conflict(f"{what}: position {p}+{len(data)} beyond the calldata ({len(self.cells)} bytes)", {"kind": "too-short"})
        for j, b in enumerate(data):
            c = self.cells[p + j]
            if c[0] == "c":
                if c[1] != b:
                    raise Conflict(f"{what}: calldata byte {p + j} is the constant {c[1]:#x}, the argument needs {b:#x}", {"kind": "constant-leaf"})
            else:
                key = (c[1], c[2])
                if self.bound.get(key, b) != b:
                    raise Conflict(f"{what}: symbol {c[1]} byte {c[2]} is needed with two different values (leaves are not independent)", {"kind": "shared-symbol"})
                self.bound[key] = b

    def read_const_word(self, p, what):
        if p + 32 > len(self.cells):
            raise Conflict(f"{what}: head at {p} beyond the calldata", {"kind": "too-short"})
        bs = []
        for j in range(32):
            c = self.cells[p + j]
            if c[0] == "c":
                bs.append(c[1])
            elif (c[1], c[2]) in self.bound:
                bs.append(self.bound[(c[1], c[2])])
            else:
                raise Conflict(f"{what}: offset word at {p} is symbolic", {"kind": "symbolic-offset"})
        return int.from_bytes(bytes(bs), "big")

    def concretize(self, r):
        out = bytearray()
        for c in self.cells:
            if c[0] == "c":
                out.append(c[1])
            else:
                out.append(self.bound.get((c[1], c[2]), None) if (c[1], c[2]) in self.bound else r.randrange(256))
        return bytes(out)


def unify(t, v, sb, p, path):
    """make the symbolic buffer decode to v at p (the decoder of the spec, run backwards)"""
    if t[0] == "base":
        kind = spec_classify(t[1])
        if kind[0] in ("bytes", "string"):
            sb.write(p, len(v).to_bytes(32, "big"), f"length of {path}")
            sb.write(p + 32, v, f"content of {path}")
        else:
            sb.write(p, v.to_bytes(32, "big"), f"value of {path}")
        return
    if t[0] == "fixed":
        return unify_seq([(idx_name(path, i), t[1]) for i in range(t[2])], v, sb, p, p)
    if t[0] == "dyn":
        sb.write(p, len(v).to_bytes(32, "big"), f"length of {path}")
        return unify_seq([(idx_name(path, i), t[1]) for i in range(len(v))], v, sb, p + 32, p + 32)
    return unify_seq([(field_name(path, n), x) for n, x in t[1]], v, sb, p, p)


def unify_seq(comps, vs, sb, base, hp):
    for (path, t), v in zip(comps, vs):
        if spec_is_dyn(t):
            o = sb.read_const_word(hp, f"head of {path}")
            unify(t, v, sb, base + o, path)
            hp += 32
        else:
            unify(t, v, sb, hp, path)
            hp += spec_static_size(t)


# ================================================================= generators

BASES = ["uint256", "uint8", "uint160", "int256", "int8", "int128", "address", "bool", "bytes32", "bytes1", "bytes4",
         "bytes", "string", "uint64", "int24", "bytes20"]
NAMES = ["a", "b", "x", "y", "s", "arr", "data", "p_q", "", "x"]


def gen_type(r, depth, budget):
    k = r.random()
    if depth <= 0 or budget[0] <= 0 or k < 0.40:
        budget[0] -= 1
        return ("base", r.choice(BASES if r.random() < 0.6 else ["bytes", "string", "uint256", "bool"]))
    if k < 0.55:
        return ("fixed", gen_type(r, depth - 1, budget), r.choice([1, 1, 2, 2, 3, 4]))
    if k < 0.78:
        return ("dyn", gen_type(r, depth - 1, budget))
    n = r.choice([0, 1, 1, 2, 2, 3, 4])
    return ("tuple", [(r.choice(NAMES), gen_type(r, depth - 1, budget)) for _ in range(n)])


def dyn_paths(t, name, cfg_max, out):
    """names of the dynamic parameters as halmos addresses them (up to the largest index that can exist)"""
    if t[0] == "base":
        if spec_is_dyn(t):
            out.append((name, False))
    elif t[0] == "fixed":
        for i in range(t[2]):
            dyn_paths(t[1], idx_name(name, i), cfg_max, out)
    elif t[0] == "dyn":
        out.append((name, True))
        for i in range(cfg_max):
            dyn_paths(t[1], idx_name(name, i), cfg_max, out)
    else:
        for n, x in t[1]:
            dyn_paths(x, field_name(name, n), cfg_max, out)


def gen_lengths(r, kind):
    if kind == "bytes":
        pool = [0, 1, 2, 31, 32, 33, 64, 65, 5, 100] + ([1024] if r.random() < 0.1 else [])
    else:
        pool = [0, 1, 2, 3]
    n = r.choice([1, 1, 2, 2, 3])
    return [r.choice(pool) for _ in range(n)]


def gen_case(r, tier):
    depth = r.choice([1, 2, 2, 3, 3, 4])
    budget = [r.choice([3, 6, 10, 16])]
    n = r.choice([0, 1, 1, 2, 2, 3, 4])
    top = ("tuple", [(r.choice(NAMES), gen_type(r, depth - 1, budget)) for _ in range(n)])
    cfg = {"lengths": {}, "array": gen_lengths(r, "array"), "bytes": gen_lengths(r, "bytes")}
    paths = []
    dyn_paths(top, "", 2, paths)
    seen = set()
    for name, is_arr in paths:
        if name and name not in seen and r.random() < 0.35 and not re.search(r"[=,{}\s]", name):
            seen.add(name)
            cfg["lengths"][name] = gen_lengths(r, "array" if is_arr else "bytes")
    return {"type": top, "cfg": cfg, "counter": r.choice([None, 0, 7, 98]), "vseed": r.randrange(1 << 30)}


def est_items(t, cfg, name=""):
    if t[0] == "base":
        return 2
    if t[0] == "fixed":
        return t[2] * est_items(t[1], cfg, idx_name(name, 0))
    if t[0] == "dyn":
        m = max(max(cfg["array"]), max([max(v) for v in cfg["lengths"].values()] or [0]))
        return 1 + m * (1 + est_items(t[1], cfg, idx_name(name, 0)))
    return sum(1 + est_items(x, cfg, field_name(name, n)) for n, x in t[1])


def gen_value(r, t, cfg, name):
    if t[0] == "base":
        kind = spec_classify(t[1])
        k = kind[0]
        if k in ("bytes", "string"):
            n = r.choice(spec_cand(cfg, name, False))
            return bytes(r.randrange(256) for _ in range(n))
        edge = r.random() < 0.3
        if k == "uint":
            return r.choice([0, (1 << kind[1]) - 1]) if edge else r.randrange(1 << kind[1])
        if k == "int":
            x = r.choice([-(1 << (kind[1] - 1)), (1 << (kind[1] - 1)) - 1, -1]) if edge else r.randrange(-(1 << (kind[1] - 1)), 1 << (kind[1] - 1))
            return x % W256
        if k == "address":
            return r.randrange(1 << 160)
        if k == "bool":
            return r.randrange(2)
        if k == "bytesN":
            return r.randrange(1 << (8 * kind[1])) << (8 * (32 - kind[1]))
        raise ValueError(t)
    if t[0] == "fixed":
        return [gen_value(r, t[1], cfg, idx_name(name, i)) for i in range(t[2])]
    if t[0] == "dyn":
        n = r.choice(spec_cand(cfg, name, True))
        return [gen_value(r, t[1], cfg, idx_name(name, i)) for i in range(n)]
    return [gen_value(r, x, cfg, field_name(name, n)) for n, x in t[1]]


def type_string(t):
    suffix = ""
    while t[0] in ("fixed", "dyn"):
        suffix = (f"[{t[2]}]" if t[0] == "fixed" else "[]") + suffix
        t = t[1]
    return (t[1] if t[0] == "base" else "tuple") + suffix, t


def to_json(name, t):
    s, core = type_string(t)
    item = {"name": name, "type": s}
    if core[0] == "tuple":
        item["components"] = [to_json(n, x) for n, x in core[1]]
    return item


def cfg_argv(cfg):
    argv = ["--default-array-lengths", ",".join(map(str, cfg["array"])), "--default-bytes-lengths", ", ".join(map(str, cfg["bytes"]))]
    if cfg["lengths"]:
        parts = []
        for k, v in cfg["lengths"].items():
            parts.append(f"{k}={v[0]}" if len(v) == 1 and hash(k) % 2 else f"{k}={{{','.join(map(str, v))}}}")
        argv += ["--array-lengths", ", ".join(parts)]
    return argv


# parse cases: type strings (valid and malformed) through parse_tuple_type
MALFORMED = ["function", "fixed128x18", "ufixed8x1", "uint256[", "uint256]", "uint256[][", "uint[-1]", "uint256[1", "mapping", "",
             "uint7", "uint", "int", "bytes33", "bytes0", "uint256[02]", "uint256[0]", "uint256 ", " uint256", "Uint256", "tuple[",
             "uint256\n", "bytes\n", "uint256[2]\n", "a\nb[3]", "uint256[]x", "uint256[ ]", "uint256[1 ]", "uuint8", "u", "ubool",
             "string[]", "string1", "address payable", "tuple", "tuple[]", "tuple[3][]", "bytes32[2][]", "uint256[\n]", "bool[١]",
             "int[]", "uint8[12]", "[]", "[3]", "tuple\n", "fixed", "ufixed", "int256[2][3][]", "bytes[][2]"]


def gen_parse_cases(r, n):
    out = []
    for s in MALFORMED:
        comps = [{"name": "f", "type": "uint256"}, {"name": "", "type": r.choice(MALFORMED[:12] + ["bool", "bytes[]"])}] if s.startswith("tuple") else []
        out.append([{"name": "p", "type": s, "components": comps}])
    alphabet = "uintbyesrgadol0123456789[]x \n"
    for _ in range(n):
        base = r.choice(BASES + ["tuple", "function", "fixed8x8"])
        s = base + "".join(r.choice(["[]", "[2]", "[10]", "[0]", "[", "]", "[x]", ""]) for _ in range(r.randrange(4)))
        if r.random() < 0.5:
            i = r.randrange(len(s) + 1)
            s = s[:i] + r.choice(alphabet) + s[i + (r.random() < 0.5):]
        comps = [{"name": r.choice(NAMES), "type": r.choice(BASES + ["function", "uint256[", "tuple"]), "components": []} for _ in range(r.randrange(3))]
        out.append([{"name": r.choice(NAMES), "type": s, "components": comps}, {"name": "z", "type": r.choice(BASES), "components": []}])
    return out


# ================================================================= implementation side

def ser_str(s):
    return [len(s)] + [ord(c) for c in s]


def ser_ty(t):
    if t[0] == "base":
        return [0] + ser_str(t[1])
    if t[0] == "fixed":
        return [1, t[2]] + ser_ty(t[1])
    if t[0] == "dyn":
        return [2] + ser_ty(t[1])
    out = [3, len(t[1])]
    for n, x in t[1]:
        out += ser_str(n) + ser_ty(x)
    return out


def ser_cfg(cfg):
    out = [len(cfg["lengths"])]
    for k, v in cfg["lengths"].items():
        out += ser_str(k) + [len(v)] + list(v)
    return out + [len(cfg["array"])] + list(cfg["array"]) + [len(cfg["bytes"])] + list(cfg["bytes"])


def ser_jitem(j):
    comps = j.get("components", [])
    out = ser_str(j["name"]) + ser_str(j["type"]) + [len(comps)]
    for c in comps:
        out += ser_jitem(c)
    return out


def real_type_to_tuple(t):
    from halmos.calldata import BaseType, DynamicArrayType, FixedArrayType, TupleType

    if isinstance(t, BaseType):
        return ("base", t.typ)
    if isinstance(t, FixedArrayType):
        return ("fixed", real_type_to_tuple(t.base), t.size)
    if isinstance(t, DynamicArrayType):
        return ("dyn", real_type_to_tuple(t.base))
    if isinstance(t, TupleType):
        return ("tuple", [(x.var, real_type_to_tuple(x)) for x in t.items])
    raise TypeError(t)


UID_RE = re.compile(r"^(p_.*)_([0-9a-f]{7})_([0-9 ]*)$", re.S)


def label_of(name):
    m = UID_RE.match(name)
    if not m:
        return name, None
    return m.group(1), m.group(3)


def impl_parse(inputs):
    from halmos.calldata import parse_tuple_type

    try:
        return [1] + ser_ty(real_type_to_tuple(parse_tuple_type("", inputs)))
    except NotImplementedError:
        return [0]
    except Exception as e:  # noqa: BLE001
        return ["EXC " + type(e).__name__]


def impl_case(case):
    """Run the real halmos code on one case; everything returned is plain data."""
    import z3

    from halmos.bytevec import ConcreteChunk, SymbolicChunk
    from halmos.calldata import Calldata, FunctionInfo, mk_calldata, parse_tuple_type
    from halmos.config import ConfigSource, arg_parser, default_config
    from halmos.sevm import SEVM, Concretization

    obs = {}
    top, cfg = case["type"], case["cfg"]
    inputs = [to_json(n, x) for n, x in top[1]]
    try:
        ns = arg_parser().parse_args(cfg_argv(cfg))
        args = default_config().with_overrides(ConfigSource.command_line, **vars(ns))
        obs["cfg"] = {"lengths": dict(args.array_lengths or {}), "array": list(args.default_array_lengths), "bytes": list(args.default_bytes_lengths)}
    except BaseException as e:  # noqa: BLE001  (argparse exits)
        obs["error"] = f"config: {type(e).__name__}: {e}"
        return obs
    try:
        obs["parse"] = [1] + ser_ty(real_type_to_tuple(parse_tuple_type("", inputs)))
    except Exception as e:  # noqa: BLE001
        obs["parse"] = ["EXC " + type(e).__name__]
    sig = "f(" + ",".join(i["type"] for i in inputs) + ")"
    abi = {sig: {"inputs": inputs}}
    base = case["counter"]
    cnt = [base]

    def nid():
        cnt[0] += 1
        return cnt[0]

    try:
        cd, dyn = mk_calldata(abi, FunctionInfo("C", "f", sig, "aabbccdd"), args, nid if base is not None else None)
    except Exception as e:  # noqa: BLE001
        obs["error"] = f"mk_calldata: {type(e).__name__}: {str(e)[:200]}"
        return obs
    try:
        er = Calldata(args, None).encode("", parse_tuple_type("", inputs))
        obs["size"], obs["static"] = er.size, bool(er.static)
    except Exception as e:  # noqa: BLE001
        obs["size"], obs["static"] = f"EXC {type(e).__name__}", None
    size_syms = {}
    for d in dyn:
        size_syms[d.size_symbol.decl().name()] = d
    chunks = list(cd.chunks.items())
    obs["len"] = len(cd)
    if not chunks or not isinstance(chunks[0][1], ConcreteChunk) or bytes(chunks[0][1].unwrap()) != bytes.fromhex("aabbccdd"):
        obs["error"] = "selector chunk missing"
        return obs
    items, cells, raw_names, syms = [], [], [], {}
    pos = 4
    for off, ch in chunks[1:]:
        if off != pos:
            obs["error"] = f"chunk offsets not contiguous at {off} (expected {pos})"
            return obs
        if isinstance(ch, ConcreteChunk):
            bs = bytes(ch.unwrap())
            if len(bs) % 32:
                items.append(["oddconst", len(bs)])
            for i in range(0, len(bs) - len(bs) % 32, 32):
                items.append(["con", int.from_bytes(bs[i:i + 32], "big")])
            cells += [("c", b) for b in bs]
        elif isinstance(ch, SymbolicChunk):
            d = ch.data
            if not (z3.is_const(d) and d.decl().kind() == z3.Z3_OP_UNINTERPRETED) or ch.start != 0 or ch.length * 8 != d.size():
                items.append(["symexpr", str(d)[:80]])
                cells += [("s", str(d), i) for i in range(ch.length)]
            else:
                nm = d.decl().name()
                raw_names.append(nm)
                syms[nm] = d
                lab, ctr = label_of(nm)
                dp = size_syms.get(nm)
                items.append(["sym", lab, d.size(), ctr, list(dp.size_choices) if dp is not None else None])
                cells += [("s", nm, i) for i in range(ch.length)]
        else:
            items.append(["unknown-chunk", type(ch).__name__])
        pos += len(ch)
    obs["items"] = items
    obs["cells"] = cells
    obs["raw_names"] = raw_names
    obs["dyn"] = []
    from halmos.calldata import DynamicArrayType

    for d in dyn:
        lab, ctr = label_of(d.size_symbol.decl().name())
        obs["dyn"].append([d.name, list(d.size_choices), lab, ctr, isinstance(d.typ, DynamicArrayType), d.size_symbol.decl().name()])

    # ---- SEVM.calldataload on every word of the calldata (real method, fake Exec)
    class St:
        def __init__(self, off):
            self.off, self.pushed = off, []

        def pop(self):
            return self.off

        def push_any(self, v):
            self.pushed.append(v)

    class Ex:
        def __init__(self, off, conc, cond=None):
            self.st, self.cond, self.pc, self.advanced = St(off), cond, 0, 0
            self.path = type("P", (), {})()
            self.path.concretization = conc

        def int_of(self, x, _msg=""):
            return x

        def calldata(self):
            return cd

        def advance(self):
            self.advanced += 1

    class Stack:
        def __init__(self):
            self.items = []

        def push(self, e):
            self.items.append(e)

    class Self:
        def create_branch(self, ex, cond, target):
            return Ex(ex.st.off, ex.path.concretization, cond)

    def describe(v):
        if isinstance(v, int):
            return ["const", v]
        if hasattr(v, "is_concrete"):
            v = v.value if v.is_concrete else v.unwrap() if hasattr(v, "unwrap") else v.value
            if isinstance(v, int):
                return ["const", v]
        if z3.is_bv_value(v):
            return ["const", v.as_long()]
        if z3.is_const(v) and v.decl().kind() == z3.Z3_OP_UNINTERPRETED:
            return ["sym", v.decl().name()]
        return ["expr", str(v)[:60]]

    def load(off, conc):
        stack = Stack()
        try:
            SEVM.calldataload(Self(), Ex(off, conc), stack)
        except Exception as e:  # noqa: BLE001
            return [["EXC", type(e).__name__, str(e)[:100]]]
        out = []
        for e in stack.items:
            c = None
            if e.cond is not None:
                cc = e.cond
                if z3.is_eq(cc) and z3.is_bv_value(cc.arg(1)) and z3.is_const(cc.arg(0)):
                    c = [cc.arg(0).decl().name(), cc.arg(1).as_long()]
                else:
                    c = ["?", str(cc)[:60]]
            out.append([c, [describe(v) for v in e.st.pushed], e.advanced])
        return out

    conc = Concretization()
    conc.process_dyn_params(dyn)
    loads = []
    for off in range(4, len(cd), 32):
        loads.append([off, load(off, conc)])
    obs["loads"] = loads
    # after a branch condition has been recorded the symbol is read as the constant
    sub = []
    for d in dyn[:4]:
        for val in sorted({d.size_choices[-1], min(d.size_choices)}):
            c2 = Concretization()
            c2.process_dyn_params(dyn)
            c2.process_cond(d.size_symbol == val)
            offs = [off for off, l in loads if l and l[0][0] and l[0][0][0] == d.size_symbol.decl().name()]
            for off in offs[:1]:
                sub.append([d.size_symbol.decl().name(), val, load(off, c2)])
    obs["subst_loads"] = sub

    # ---- halmos' own instantiation of the calldata under a valuation (filled in by the parent)
    case["_objs"] = (cd, syms)
    return obs


def impl_concretize(objs, valuation):
    """ByteVec.concretize with {symbol: value}: the bytes halmos itself assigns to the calldata"""
    import z3

    cd, syms = objs
    sub = {syms[nm]: z3.BitVecVal(v, syms[nm].size()) for nm, v in valuation.items()}
    out = cd.concretize(sub).unwrap()
    return bytes(out) if isinstance(out, (bytes, bytearray)) else None


# ================================================================= model side

def model_call(case):
    k0 = 0 if case["counter"] is None else case["counter"] + 1
    return ("c12_encode", [k0] + ser_cfg(case["cfg"]) + ser_ty(case["type"]))


def take_str(l, i):
    n = l[i]
    return "".join(chr(c) for c in l[i + 1:i + 1 + n]), i + 1 + n


def take_nats(l, i):
    n = l[i]
    return list(l[i + 1:i + 1 + n]), i + 1 + n


def model_obs(case, res):
    if res is None or not res or res[0] != 1:
        return {"error": f"model returned {res[:4] if res else res}"}
    base = case["counter"]
    size, static, _k1, nitems = res[1:5]
    i = 5
    items = []

    def ctr(k):
        return None if base is None else k

    for _ in range(nitems):
        kind = res[i]
        if kind == 3:
            items.append(["con", res[i + 1]])
            i += 2
            continue
        k = res[i + 1]
        nm, i = take_str(res, i + 2)
        if kind in (0, 1):
            tp, i = take_str(res, i)
            bits = 256
            if kind == 1:
                bits = 8 * res[i]
                i += 1
            items.append(["sym", f"p_{nm}_{tp}", bits, ctr(k), None])
        else:
            sz, i = take_nats(res, i)
            items.append(["sym", f"p_{nm}_length", 256, ctr(k), sz])
    nd = res[i]
    i += 1
    dyn, dyn_ids = [], []
    for _ in range(nd):
        nm, i = take_str(res, i)
        sz, i = take_nats(res, i)
        k, arr = res[i], res[i + 1]
        i += 2
        dyn.append([nm, sz, f"p_{nm}_length", ctr(k), bool(arr)])
        dyn_ids.append(k)
    return {"size": size, "static": bool(static), "items": items, "dyn": dyn, "dyn_ids": dyn_ids}


def norm_ctr(c, base):
    """real counter text -> int (or None when no counter was passed)"""
    if base is None:
        return None if c in ("00", None) else c
    try:
        return int(c)
    except (TypeError, ValueError):
        return c


def ser_value_expected(v):
    if isinstance(v, int):
        return [0, v]
    if isinstance(v, (bytes, bytearray)):
        return [1, len(v)] + list(v)
    out = [2, len(v)]
    for x in v:
        out += ser_value_expected(x)
    return out


# ================================================================= the check

def check_case(rep, case, obs, mobs, model, r, stats):
    """returns list of failures (kind, what, case extras, sig)"""
    fails = []
    top, cfg = case["type"], case["cfg"]
    pub = {"type": top, "cfg": cfg, "counter": case["counter"], "vseed": case["vseed"]}

    def fail(kind, what, sig=None, **extra):
        fails.append((kind, what, {**pub, **extra}, sig))

    if "error" in obs:
        fail("failing-input", f"the real encoder failed on a supported signature: {obs['error']}", {"kind": "encoder-exception"})
        return fails
    # --- configuration as parsed by halmos vs what was written on the command line
    if obs["cfg"] != cfg:
        fail("failing-input", f"length configuration parsed as {obs['cfg']}, written as {cfg}", {"kind": "config-parse"})
        return fails
    # --- parse: printer/parser round trip (spec) and model
    if obs["parse"] != [1] + ser_ty(top):
        fail("failing-input", f"parse_tuple_type does not return the type tree of the signature: {obs['parse'][:12]}", {"kind": "parse-roundtrip"})
        return fails
    base = case["counter"]
    impl_items = [[it[0], it[1], it[2], norm_ctr(it[3], base), it[4]] if it[0] == "sym" else it for it in obs["items"]]
    impl_dyn = [[d[0], d[1], d[2], norm_ctr(d[3], base), d[4]] for d in obs["dyn"]]

    # --- spec vs implementation ------------------------------------------------------
    # (a) symbols pairwise distinct
    if len(set(obs["raw_names"])) != len(obs["raw_names"]):
        dup = sorted({n for n in obs["raw_names"] if obs["raw_names"].count(n) > 1})
        fail("failing-input", f"the same symbol occurs twice in the calldata: {dup[:3]}", {"kind": "duplicate-symbol"})
    # (b) reported size = byte length
    nbytes = obs["len"] - 4
    if obs["size"] != nbytes:
        fail("failing-input", f"EncodingResult.size={obs['size']} but the calldata has {nbytes} argument bytes", {"kind": "size"})
    if obs["static"] != (not spec_is_dyn(top)):
        fail("failing-input", f"EncodingResult.static={obs['static']} for a type that is {'dynamic' if spec_is_dyn(top) else 'static'}", {"kind": "static-flag"})
    # (c) every dynamic parameter has exactly the configured candidates; every size symbol is registered
    for d in impl_dyn:
        want = spec_cand(cfg, d[0], d[4])
        if d[1] != want:
            fail("failing-input", f"dynamic parameter {d[0]!r} gets candidates {d[1]}, configured {want}", {"kind": "candidates", "param_kind": "array" if d[4] else "bytes"})
    # (d) calldataload: one branch per candidate on a size symbol, the word itself otherwise
    size_names = {d[5]: d for d in obs["dyn"]}
    for (off, brs), it in zip(obs["loads"], _words_of(obs["items"], obs["raw_names"])):
        if it[0] == "size":
            d = size_names[it[1]]
            want = [[[it[1], c], [["const", c]], 1] for c in d[1]]
            if brs != want:
                fail("failing-input", f"calldataload of the size symbol of {d[0]!r} at offset {off}: branches {brs}, expected one per candidate {d[1]}", {"kind": "calldataload-branches"})
                break
        elif it[0] == "word":
            if brs != [[None, [["sym", it[1]]], 1]]:
                fail("failing-input", f"calldataload of a leaf symbol at {off} gives {brs}", {"kind": "calldataload-leaf"})
                break
        elif it[0] == "con" and brs != [[None, [["const", it[1]]], 1]]:
            fail("failing-input", f"calldataload of the offset word at {off} gives {brs}", {"kind": "calldataload-const"})
            break
    for nm, val, brs in obs["subst_loads"]:
        if brs != [[None, [["const", val]], 1]]:
            fail("failing-input", f"calldataload of {nm} after the path fixed it to {val} gives {brs}", {"kind": "calldataload-subst"})
    # (e) generality: a random admitted argument tuple is an instance
    import random

    vr = random.Random(case["vseed"])
    nvals = 2
    for _ in range(nvals):
        v = gen_value(vr, top, cfg, "")
        sb = SymBuf(obs["cells"])
        try:
            unify(top, v, sb, 0, "")
        except Conflict as e:
            fail("failing-input", f"argument tuple {_short(v)} is not an instance of the calldata: {e.what}", {"kind": "not-an-instance", **e.sig}, value=_short(v))
            break
        # size symbols: bound value must be a candidate; unbound ones get one
        bad = False
        for d in obs["dyn"]:
            bs = [sb.bound.get((d[5], i)) for i in range(32)]
            if all(b is None for b in bs):
                if not d[1]:
                    fail("failing-input", f"no candidate for {d[0]!r}", {"kind": "no-candidate"})
                    bad = True
                    break
                c = vr.choice(d[1])
                for i, b in enumerate(c.to_bytes(32, "big")):
                    sb.bound[(d[5], i)] = b
            elif any(b is None for b in bs):
                fail("failing-input", f"size symbol of {d[0]!r} partially used", {"kind": "not-an-instance"})
                bad = True
                break
            elif int.from_bytes(bytes(bs), "big") not in d[1]:
                fail("failing-input", f"the length {int.from_bytes(bytes(bs), 'big')} needed for {d[0]!r} is not among its candidates {d[1]}", {"kind": "not-an-instance", "sub": "length-not-candidate"})
                bad = True
                break
        if bad:
            break
        buf = sb.concretize(vr)
        try:
            got = spec_decode(top, buf, 0)
        except DecodeError as e:
            fail("failing-input", f"instantiated calldata does not decode ({e}) for {_short(v)}", {"kind": "not-an-instance", "sub": "decode-error"})
            break
        if got != v:
            fail("failing-input", f"instantiated calldata decodes to {_short(got)}, expected {_short(v)}", {"kind": "not-an-instance", "sub": "decode-differs"})
            break
        stats["instances"] += 1
        # halmos' own substitution gives the same bytes
        if "_objs" in case:
            val = {}
            for nm in obs["raw_names"]:
                nb = next(it[2] for it, rn in zip([x for x in obs["items"] if x[0] == "sym"], obs["raw_names"]) if rn == nm) // 8
                start = next(i for i, c in enumerate(obs["cells"]) if c[0] == "s" and c[1] == nm)
                val[nm] = int.from_bytes(buf[start:start + nb], "big")
            try:
                real = impl_concretize(case["_objs"], val)
            except Exception as e:  # noqa: BLE001
                real = f"EXC {type(e).__name__}"
            if real != bytes.fromhex("aabbccdd") + buf:
                fail("broken-tie", f"ByteVec.concretize under the valuation differs from the byte-level instantiation ({str(real)[:60]})")
                break
        stats["decode_calls"].append((("c12_decode", ser_ty(top) + [len(buf)] + list(buf)), [1] + ser_value_expected(v), pub))
    if fails:
        return fails
    # --- model vs implementation -------------------------------------------------------
    if mobs is not None:
        if "error" in mobs:
            fail("broken-tie", f"extracted model failed: {mobs['error']}")
            return fails
        if mobs["size"] != obs["size"] or mobs["static"] != obs["static"]:
            fail("broken-tie", f"size/static: model ({mobs['size']},{mobs['static']}) implementation ({obs['size']},{obs['static']})")
        elif mobs["items"] != impl_items:
            k = next((i for i, (a, b) in enumerate(zip(mobs["items"], impl_items)) if a != b), min(len(mobs["items"]), len(impl_items)))
            fail("broken-tie", f"chunk {k}: model {mobs['items'][k] if k < len(mobs['items']) else None} implementation {impl_items[k] if k < len(impl_items) else None} "
                 f"(lengths {len(mobs['items'])}/{len(impl_items)})")
        elif mobs["dyn"] != impl_dyn:
            fail("broken-tie", f"dyn_params: model {mobs['dyn'][:3]} implementation {impl_dyn[:3]}")
    return fails


def check_sessions(rep, sessions, sobs, m):
    nbad = 0
    ok_idx = []
    for i, (x, o) in enumerate(zip(sessions, sobs)):
        kinds, nontrivial = PS.classify(x, o)
        for k in kinds:
            rep.count("session", k)
        rep.case(PS.public(x), nontrivial=nontrivial)
        bad = PS.check_spec(x, o)
        for kind, what, sig in bad:
            nbad += 1
            if nbad <= 6:
                rep.fail(kind, what, case=PS.public(x), sig=sig)
        if not bad:
            ok_idx.append(i)
    if m is None:
        return nbad
    # the model's symbol indices (first pass, fix events left out), then the full event list
    first = m.parallel_batch([PS.model_call(sessions[i], sobs[i]) for i in ok_idx]) if ok_idx else []
    second_idx, calls = [], []
    parsed = {}
    for i, res in zip(ok_idx, first):
        mo = PS.parse_model(res)
        parsed[i] = mo
        if "error" not in mo and any(ev[0] == "fix" for ev in sobs[i]["events"]):
            second_idx.append(i)
            calls.append(PS.model_call(sessions[i], sobs[i], [d[2] for d in mo["dyn"]]))
    for i, res in zip(second_idx, m.parallel_batch(calls) if calls else []):
        parsed[i] = PS.parse_model(res)
    for i in ok_idx:
        for what in PS.check_model(sessions[i], sobs[i], parsed[i]):
            nbad += 1
            if nbad <= 6:
                rep.fail("broken-tie", what, case=PS.public(sessions[i]))
    return nbad


def _words_of(items, raw_names):
    """per 32-byte word of the calldata: ('size', raw name) | ('word', raw name) | ('con', z) | ('data',)"""
    out, names = [], iter(raw_names)
    for it in items:
        if it[0] == "con":
            out.append(("con", it[1]))
        elif it[0] == "sym":
            nm = next(names)
            if it[4] is not None:
                out.append(("size", nm))
            elif it[2] == 256 and not (it[1].endswith("_bytes") or it[1].endswith("_string")):
                out.append(("word", nm))
            else:
                out += [("data",)] * (it[2] // 256)
        else:
            out.append(("other",))
    return out


def _short(v):
    if isinstance(v, (bytes, bytearray)):
        return f"bytes[{len(v)}]" + (v[:4].hex() if v else "")
    if isinstance(v, list):
        return [_short(x) for x in v]
    return v


def classify(case):
    kinds = set()

    def walk(t, d, under_dyn):
        if t[0] == "base":
            if spec_is_dyn(t):
                kinds.add("bytes")
                if under_dyn:
                    kinds.add("nested_dynamic")
        elif t[0] == "fixed":
            kinds.add("fixed_array")
            walk(t[1], d + 1, under_dyn)
            if spec_is_dyn(t[1]):
                kinds.add("fixed_of_dynamic")
        elif t[0] == "dyn":
            kinds.add("dyn_array")
            if under_dyn:
                kinds.add("nested_dynamic")
            walk(t[1], d + 1, True)
        else:
            if d > 0:
                kinds.add("struct")
                if spec_is_dyn(t):
                    kinds.add("dynamic_struct")
            for _, x in t[1]:
                walk(x, d + 1, under_dyn)

    walk(case["type"], 0, False)
    if case["cfg"]["lengths"]:
        kinds.add("explicit_lengths")
    return sorted(kinds)


def _impl_worker(case):
    try:
        obs = impl_case(case)
    except Exception as e:  # noqa: BLE001
        import traceback

        obs = {"error": f"harness: {type(e).__name__}: {e} {traceback.format_exc()[-400:]}"}
    return obs


CORPUS = [
    # nested dynamic inside dynamic, explicit lengths on an element, unnamed parameter
    {"type": ("tuple", [("x", ("dyn", ("base", "bytes"))), ("", ("base", "uint256"))]),
     "cfg": {"lengths": {"x": [1, 3], "x[0]": [2]}, "array": [0, 1, 2], "bytes": [0, 5]}, "counter": 0, "vseed": 1},
    # two unnamed parameters of the same type, no counter (distinctness rests on uid())
    {"type": ("tuple", [("", ("base", "uint256")), ("", ("base", "uint256")), ("", ("base", "bytes")), ("", ("base", "bytes"))]),
     "cfg": {"lengths": {}, "array": [2], "bytes": [65, 0, 33]}, "counter": None, "vseed": 2},
    # struct with dynamic member inside fixed array inside dynamic array
    {"type": ("tuple", [("s", ("dyn", ("fixed", ("tuple", [("a", ("base", "uint8")), ("b", ("base", "string")), ("c", ("dyn", ("base", "int128")))]), 2)))]),
     "cfg": {"lengths": {"s": [2, 1], "s[1][0].c": [3]}, "array": [1, 0], "bytes": [32, 1]}, "counter": 7, "vseed": 3},
    {"type": ("tuple", []), "cfg": {"lengths": {}, "array": [0], "bytes": [0]}, "counter": None, "vseed": 4},
    {"type": ("tuple", [("a", ("dyn", ("dyn", ("base", "uint256")))), ("b", ("fixed", ("base", "bool"), 3)), ("c", ("tuple", []))]),
     "cfg": {"lengths": {"a[1]": [0]}, "array": [2, 2], "bytes": [0]}, "counter": 98, "vseed": 5},
]


def run(rep, tier):
    import time

    t0 = time.time()
    b = common.build_property(PID, TRANSLATORS)
    common.standard_obligations(rep, PID, b)
    exe = None
    if b["make_ok"]:
        exe, log = common.build_driver(PID)
        rep.obligation("extraction of Model/AbiEncModel.v + Spec/AbiSpec.v entry points + OCaml driver build", exe is not None, "" if exe else log[-800:])
        if exe is None:
            rep.fail("broken-tie", "extracted model driver does not build: " + log[-400:], case={})
    rep.coverage["build_s"] = round(time.time() - t0, 1)
    r = common.rng(PID)
    ncases = 300 if tier == "quick" else 15000
    cases = [dict(c) for c in CORPUS]
    tries = 0
    while len(cases) < ncases and tries < 50 * ncases:
        tries += 1
        c = gen_case(r, tier)
        if est_items(c["type"], c["cfg"]) <= (250 if tier == "quick" else 600):
            cases.append(c)
    # the real objects (z3 terms) are needed for ByteVec.concretize: run in-process for a sample,
    # in a pool for the rest
    n_inproc = 30 if tier == "quick" else 600
    obs_list = [None] * len(cases)
    for i in range(min(n_inproc, len(cases))):
        obs_list[i] = _impl_worker(cases[i])
    if len(cases) > n_inproc:
        with Pool(min(16, os.cpu_count() or 4)) as pool:
            rest = pool.map(_impl_worker, [{k: v for k, v in c.items()} for c in cases[n_inproc:]], chunksize=16)
        for i, o in enumerate(rest):
            obs_list[n_inproc + i] = o
    rep.coverage["impl_s"] = round(time.time() - t0, 1)
    m = Model(exe) if exe is not None else None
    mres = m.parallel_batch([model_call(c) for c in cases]) if m else [None] * len(cases)
    stats = {"instances": 0, "decode_calls": []}
    nbad = 0
    for c, obs, mr in zip(cases, obs_list, mres):
        kinds = classify(c)
        for k in kinds or ["static_only"]:
            rep.count("case_kind", k)
        rep.count("counter", c["counter"])
        rep.case({"type": c["type"], "cfg": c["cfg"], "counter": c["counter"]}, nontrivial=bool(set(kinds) - {"explicit_lengths"}))
        mobs = model_obs(c, mr) if m else None
        for kind, what, extra, sig in check_case(rep, c, obs, mobs, m, r, stats):
            nbad += 1
            if nbad <= 12:
                rep.fail(kind, what, case=extra, **({"sig": sig} if sig else {}))
    # calldataload: extracted model vs the real SEVM.calldataload, for every size symbol
    if m:
        lcalls, lwant = [], []
        for c, obs, mr in zip(cases, obs_list, mres):
            if "error" in obs or not mr or mr[0] != 1 or "loads" not in obs:
                continue
            mo = model_obs(c, mr)
            if "error" in mo or len(mo["dyn_ids"]) != len(obs["dyn"]):
                continue
            table = []
            for k, d in zip(mo["dyn_ids"], obs["dyn"]):
                table += [k, len(d[1])] + list(d[1])
            by_name = {}
            for off, brs in obs["loads"]:
                if brs and brs[0][0] and brs[0][0][0] != "?":
                    by_name.setdefault(brs[0][0][0], brs)
            for k, d in zip(mo["dyn_ids"], obs["dyn"]):
                brs = by_name.get(d[5])
                if brs is None:
                    continue
                flat = [len(brs)]
                for b in brs:
                    pv = b[1][0] if len(b[1]) == 1 else ["?"]
                    flat += [1, k, b[0][1] if b[0] else -1, 1 if pv[0] == "const" else 0, pv[1] if pv[0] == "const" else 0]
                lcalls.append(("c12_calldataload", [0, len(obs["dyn"])] + table + [1, k]))
                lwant.append((flat, {"type": c["type"], "cfg": c["cfg"], "param": d[0]}))
            for nm, val, brs in obs["subst_loads"]:
                j = next((i for i, d in enumerate(obs["dyn"]) if d[5] == nm), None)
                if j is None:
                    continue
                k = mo["dyn_ids"][j]
                flat = [len(brs)]
                for b in brs:
                    pv = b[1][0] if len(b[1]) == 1 else ["?"]
                    flat += ([1, k, b[0][1]] if b[0] else [0, 0, 0]) + [1 if pv[0] == "const" else 0, pv[1] if pv[0] == "const" else 0]
                lcalls.append(("c12_calldataload", [1, k, val, len(obs["dyn"])] + table + [1, k]))
                lwant.append((flat, {"type": c["type"], "cfg": c["cfg"], "param": nm, "fixed_to": val}))
        lout = m.parallel_batch(lcalls) if lcalls else []
        for (want, pub), got in zip(lwant, lout):
            if got != want:
                nbad += 1
                if nbad <= 12:
                    rep.fail("broken-tie", f"calldataload: model branches {str(got)[:120]} implementation {str(want)[:120]}", case=pub)
        rep.coverage["calldataload_model_runs"] = len(lcalls)
    # several calldata in one path (harness/props/C12_path.py): specification and path model vs the real
    # Path / Concretization / calldataload / createCalldata
    t1 = time.time()
    nsess = 60 if tier == "quick" else 2500
    sessions = [dict(x) for x in PS.CORPUS]
    while len(sessions) < nsess:
        sessions.append(PS.gen_session(r, tier))
    if tier == "quick":
        sobs = [PS.impl_session(x) for x in sessions]
    else:
        with Pool(min(16, os.cpu_count() or 4)) as pool:
            sobs = pool.map(PS.impl_session, sessions, chunksize=8)
    nbad += check_sessions(rep, sessions, sobs, m)
    rep.coverage["sessions"] = len(sessions)
    rep.coverage["sessions_s"] = round(time.time() - t1, 1)
    # extracted Coq decoder on the instantiated calldata
    if m and stats["decode_calls"]:
        calls = stats["decode_calls"] if tier != "quick" else stats["decode_calls"][:400]
        out = m.parallel_batch([c for c, _, _ in calls])
        for (call, want, pub), got in zip(calls, out):
            if got != want:
                nbad += 1
                if nbad <= 12:
                    rep.fail("broken-tie", f"extracted Coq decode disagrees with the Python decoder of the spec: got {str(got)[:80]} want {str(want)[:80]}", case=pub)
        rep.coverage["coq_decode_runs"] = len(calls)
    # parse_type on valid and malformed type strings
    pcases = gen_parse_cases(r, 200 if tier == "quick" else 8000)
    preal = [impl_parse(p) for p in pcases]
    pmodel = m.parallel_batch([("c12_parse", ser_jitem({"name": "", "type": "", "components": p})) for p in pcases]) if m else [None] * len(pcases)
    for p, a, mm in zip(pcases, preal, pmodel):
        acc = a and a[0] == 1
        lex = all(spec_lexical(j) for j in p)
        rep.count("parse", "accepted" if acc else "rejected")
        rep.case({"parse": p}, nontrivial=True)
        if acc and not lex:
            nbad += 1
            rep.fail("failing-input", f"parse_tuple_type accepts a type outside the ABI grammar instead of raising: {[j['type'] for j in p]}",
                     case={"parse": p}, sig={"kind": "unsupported-accepted"})
        elif isinstance(a[0], str):
            rep.count("parse", a[0])
            if m and mm != [0]:
                nbad += 1
                rep.fail("broken-tie", f"parse: implementation raises {a[0]}, model gives {mm[:6]} on {[j['type'] for j in p]}", case={"parse": p})
        elif m and mm != a:
            nbad += 1
            rep.fail("broken-tie", f"parse: model {str(mm)[:80]} implementation {str(a)[:80]} on {[j['type'] for j in p]}", case={"parse": p})
    rep.coverage["total_s"] = round(time.time() - t0, 1)
    rep.coverage["instances_decoded"] = stats["instances"]
    rep.coverage["traces_validated_against_impl"] = len(cases) + len(pcases) if m else 0
    return rep.finish(
        checker_cmd="make -C coq Props/C12.vo (coq_makefile, coqc 8.16.1) after regenerating coq/Gen/GenAbiEnc.v from /repo/src/halmos/calldata.py "
                    "and coq/Gen/GenDynParams.v from /repo/src/halmos/sevm.py",
        trusted_base=common.TRUSTED_BASE_COMMON,
        assumptions=ASSUMPTIONS,
        partial=PARTIAL,
        rule="cases = (function signature as a type tree of depth <= 4, arity <= 4 over 16 elementary types incl. bytes/string, T[k], T[], structs; "
             "--array-lengths / --default-array-lengths / --default-bytes-lengths given as command-line text through halmos' own argument parser; "
             "symbol counter absent or starting at 0/7/98); per case: parse_tuple_type, mk_calldata chunk list, EncodingResult size/static, dyn_params, "
             "SEVM.calldataload on every 32-byte word (fake Exec, real Concretization), and 2 random admitted argument tuples unified with the calldata and decoded "
             "by the spec decoder (Python and extracted Coq). Non-trivial = the signature has a dynamic or composite component. "
             "Plus parse cases: fixed malformed corpus + mutated type strings through parse_tuple_type vs the model's parse. "
             "Plus sessions (several calldata in one path): 1-4 signatures (each with probability 0.7 given a bytes/string/T[] parameter, 15% view) and one length configuration; "
             "mode path (70%): a random script of events on the real Path/Concretization -- mk_calldata + process_dyn_params per signature (one of them possibly twice), "
             "extend_path into a fresh Path, branch on a fresh boolean, fixing a registered size symbol to one of its candidates by branch+activate (the path branched from is then "
             "loaded again: it must not see the fix), skipped symbol ids; symbol counter absent or starting at 0/7/98 -- then the real SEVM.calldataload on every word of every registered calldata "
             "in the final path (successors made by the real Path.branch must keep the candidates of the other size symbols); mode cheat (30%): the real create_calldata_generic on a hand-made "
             "build output, then a real SEVM run of PUSH4 off CALLDATALOAD STOP at every length word (and two other words) of every produced calldata on a path extending the caller's. "
             "A session is non-trivial when at least two of its registered calldata have dynamic parameters.",
    )


def spec_lexical(j):
    """is the type string inside the ABI grammar as far as halmos claims to support it (lexically)?"""
    s = j["type"]
    if s.endswith("\n"):
        if s == "tuple\n":
            return True  # becomes BaseType("tuple\n"), same quirk
        s = s[:-1]  # python's `$` also matches before a trailing newline (recorded quirk, not reachable from solc output)
    m = re.fullmatch(r"([a-z0-9]*)((\[[0-9]*\])*)", s)
    if not m:
        return False
    core = m.group(1)
    if core == "tuple":
        return all(spec_lexical(c) for c in j.get("components", []))
    return re.fullmatch(r"(uint|int|bytes)[0-9]*|address|bool|string", core) is not None


def replay(rep, body):
    for f in body.get("failures", []):
        case = f.get("case") or {}
        if "type" in case:
            c = {"type": _tuplify(case["type"]), "cfg": case["cfg"], "counter": case["counter"], "vseed": case["vseed"]}
            obs = impl_case(c)
            print("case:", c)
            print("implementation items:", obs.get("items"), "dyn:", obs.get("dyn"), "error:", obs.get("error"))
            stats = {"instances": 0, "decode_calls": []}
            for kind, what, _, sig in check_case(rep, c, obs, None, None, None, stats):
                print(f"  {kind}: {what} {sig}")
        elif "parse" in case:
            print("parse:", case["parse"], "->", impl_parse(case["parse"]))
        elif "session" in case:
            x = dict(case["session"])
            x["funs"] = [{"type": _tuplify(f["type"]), "view": f["view"]} for f in x["funs"]]
            o = PS.impl_session(x)
            print("session:", x)
            print("events:", o.get("events"), "registered:", [(d[0], d[1], d[5]) for d in o.get("regs", [])] or o.get("registered"), "error:", o.get("error"))
            for c in o.get("cds", []):
                print("  calldata of", PS.sig_string(x["funs"][c["fun"]], c["fun"]))
                for off, kind, brs in c.get("loads", []):
                    if kind[0] == "sym":
                        print(f"    CALLDATALOAD({off}) {kind[1]}: {brs}")
            for kind, what, sig in PS.check_spec(x, o):
                print(f"  {kind}: {what} {sig}")
    return 0


def _tuplify(t):
    if t[0] == "base":
        return ("base", t[1])
    if t[0] == "fixed":
        return ("fixed", _tuplify(t[1]), t[2])
    if t[0] == "dyn":
        return ("dyn", _tuplify(t[1]))
    return ("tuple", [(n, _tuplify(x)) for n, x in t[1]])
