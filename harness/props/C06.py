"""C06 — word-level instruction semantics are exact and total.

Obligations: T-purefuns (guards / constants / pure functions / concrete-path return expressions with
their divisors and work measures, branch structure; bitvec.py -> Gen/GenBitvecGuards.v), T-wordops (the
opcode arms of SEVM.run, SEVM.arith, bitwise(), the abstraction functions; sevm.py -> Gen/GenWordOps.v),
Props/C06.vo (theorems about Model/BitVecModel.v, which interprets the regenerated arms over the
regenerated definitions), lint.
Tie X-C06:
  L2  one-instruction SEVM.run on a hand-built Exec whose stack holds every mix of operand
      representations (int-backed, term-backed, TRUE/FALSE, symbolic HalmosBool) on top of 0..3
      other words that must be left untouched — the real dispatch layer (pop/popi/top/topi,
      bitwise(), SEVM.arith, sym_byte_of, int_of);
  L1  the real HalmosBitVec methods at sizes 256 and 8, abstractions on and off;
  L2p short real programs (PUSH .. ISZERO NOT etc.) showing the Bool-typed cases are reachable.
Every result (concrete int or z3 term) is evaluated under several valuations by an own
big-int evaluator giving the f_evm_* functions their exact definitions, and compared with
(i) the extracted Coq model (exception class, result type, concreteness, denotation) and
(ii) an independent Python rendering of Base/Word.v (the spec).
"""
import json
import os
import subprocess
import sys
import time
from concurrent.futures import ProcessPoolExecutor
from concurrent.futures.process import BrokenProcessPool

from harness import common
from harness.common import Model

PID = "C06"
TRANSLATORS = ["T-purefuns", "T-wordops"]   # bitvec.py -> Gen/GenBitvecGuards.v, sevm.py -> Gen/GenWordOps.v

# Genuine defects of halmos found by this check on the unchanged tree (same format as
# known_findings.json; the coordinator decides between a fix: commit and that file).  A failing
# input whose `sig` matches an entry is printed as KNOWN-FINDING and does not fail the run; any
# other violation of the property still does.
KNOWN = common.known_for("C06")  # entries live in /verif/known_findings.json

ASSUMPTIONS = [
    "z3's simplify() and constant folding preserve the SMT-LIB denotation of a term (exercised by the tie on every case, not modelled)",
    "the f_evm_* uninterpreted functions are read with the exact definitions solve.py refine() gives them (x/0 = x%0 = 0, bvmul exact) and f_evm_exp_256 as exact modular exponentiation",
    "the extracted model and driver are faithful to the Coq definitions (extraction is trusted)",
    "stack words are HalmosBitVec of size 256 or HalmosBool (State.push asserts it)",
]
PARTIAL = (
    "SIGNEXTEND with a symbolic index is rejected by design (NotConcreteError -> the path halts with an error): totality is proved and checked for concrete indices only. "
    "Promptness is modelled by a work measure (bits of the largest integer CPython materialises, rules of Model/PyInt.v) for the concrete-path return expressions regenerated from bitvec.py; z3 term construction cost is measured (alarm) but not modelled."
)

M256 = (1 << 256) - 1
OPS2 = ["ADD", "MUL", "SUB", "DIV", "SDIV", "MOD", "SMOD", "EXP", "SIGNEXTEND", "LT", "GT", "SLT", "SGT", "EQ",
        "AND", "OR", "XOR", "BYTE", "SHL", "SHR", "SAR"]
OPS1 = ["ISZERO", "NOT"]
OPS3 = ["ADDMOD", "MULMOD"]
OPCODE = {"ADD": 0x01, "MUL": 0x02, "SUB": 0x03, "DIV": 0x04, "SDIV": 0x05, "MOD": 0x06, "SMOD": 0x07, "ADDMOD": 0x08,
          "MULMOD": 0x09, "EXP": 0x0A, "SIGNEXTEND": 0x0B, "LT": 0x10, "GT": 0x11, "SLT": 0x12, "SGT": 0x13, "EQ": 0x14,
          "ISZERO": 0x15, "AND": 0x16, "OR": 0x17, "XOR": 0x18, "NOT": 0x19, "BYTE": 0x1A, "SHL": 0x1B, "SHR": 0x1C,
          "SAR": 0x1D}
METHODS = ["add", "sub", "mul", "div", "sdiv", "mod", "smod", "exp", "lshl", "lshr", "ashr", "and", "or", "xor",
           "ult", "ugt", "ule", "uge", "slt", "sgt", "eq", "not", "is_zero", "addmod", "mulmod", "byte", "signextend"]
SEBC = 2  # default_config().smt_exp_by_const (checked in the worker)
WORK_LIMIT_MODEL = 4096          # above this the extracted model does not evaluate x ^ y
WORK_LIMIT_INPROC = 1 << 20      # above this the real EXP is only run in a guarded subprocess
PROMPT_S = 3.0


# ----------------------------------------------------------------- the spec (Base/Word.v in Python)

def sgn(x, n=256):
    return x - (1 << n) if x >> (n - 1) else x


def spec(op, a, b=0, c=0, n=256):
    W = 1 << n
    if op in ("ADD", "add"):
        return (a + b) % W
    if op in ("SUB", "sub"):
        return (a - b) % W
    if op in ("MUL", "mul"):
        return (a * b) % W
    if op in ("DIV", "div"):
        return 0 if b == 0 else a // b
    if op in ("MOD", "mod"):
        return 0 if b == 0 else a % b
    if op in ("SDIV", "sdiv"):
        if b == 0:
            return 0
        x, y = sgn(a, n), sgn(b, n)
        q = abs(x) // abs(y)
        return (q if (x < 0) == (y < 0) else -q) % W
    if op in ("SMOD", "smod"):
        if b == 0:
            return 0
        x, y = sgn(a, n), sgn(b, n)
        r = abs(x) % abs(y)
        return (-r if x < 0 else r) % W
    if op in ("EXP", "exp"):
        return pow(a, b, W)
    if op in ("ADDMOD", "addmod"):
        return 0 if c == 0 else (a + b) % c
    if op in ("MULMOD", "mulmod"):
        return 0 if c == 0 else (a * b) % c
    if op in ("SIGNEXTEND", "signextend"):
        # EVM operand order: (index, value)
        if a >= 31:
            return b
        bits = 8 * (a + 1)
        low = b % (1 << bits)
        return low if low < (1 << (bits - 1)) else low + (W - (1 << bits))
    if op in ("LT", "ult"):
        return int(a < b)
    if op in ("GT", "ugt"):
        return int(a > b)
    if op == "ule":
        return int(a <= b)
    if op == "uge":
        return int(a >= b)
    if op in ("SLT", "slt"):
        return int(sgn(a, n) < sgn(b, n))
    if op in ("SGT", "sgt"):
        return int(sgn(a, n) > sgn(b, n))
    if op in ("EQ", "eq"):
        return int(a == b)
    if op in ("ISZERO", "is_zero"):
        return int(a == 0)
    if op in ("AND", "and"):
        return a & b
    if op in ("OR", "or"):
        return a | b
    if op in ("XOR", "xor"):
        return a ^ b
    if op in ("NOT", "not"):
        return W - 1 - a
    if op == "BYTE":
        return (b >> (8 * (31 - a))) & 0xFF if a < 32 else 0
    if op == "SHL":
        return (b << a) % W if a < 256 else 0
    if op == "SHR":
        return b >> a if a < 256 else 0
    if op == "SAR":
        return (sgn(b) >> min(a, 300)) % W
    # method-level operand order: (value, shift)
    if op == "lshl":
        return (a << b) % W if b < n else 0
    if op == "lshr":
        return a >> b if b < n else 0
    if op == "ashr":
        return (sgn(a, n) >> min(b, 2 * n)) % W
    raise ValueError(op)


def spec_byte_method(n, x, idx, out):
    nbytes = n // 8
    return ((x >> (8 * (nbytes - 1 - idx))) & 0xFF) % (1 << out) if idx < nbytes else 0


# ----------------------------------------------------------------- evaluator for z3 terms

def zeval(t, env):
    """Value of a z3 term of the fragment halmos builds, under env: name -> int/bool.
    f_evm_* are given their exact definitions.  Own big-int arithmetic; no z3 reasoning."""
    import z3

    cache = {}

    def sg(x, n):
        return x - (1 << n) if x >> (n - 1) else x

    def go(e):
        key = e.get_id()
        if key in cache:
            return cache[key]
        r = go1(e)
        cache[key] = r
        return r

    def go1(e):
        k = e.decl().kind()
        if k == z3.Z3_OP_BNUM:
            return e.as_long()
        if k == z3.Z3_OP_TRUE:
            return True
        if k == z3.Z3_OP_FALSE:
            return False
        ch = e.children()
        if k == z3.Z3_OP_UNINTERPRETED:
            name = e.decl().name()
            if not ch:
                return env[name]
            a = [go(c) for c in ch]
            if name.startswith("f_evm_"):
                _, _, fn, n = name.split("_")
                n = int(n)
                x, y = a
                if fn == "bvmul":
                    return (x * y) % (1 << n)
                if fn == "exp":
                    return pow(x, y, 1 << n)
                if y == 0:
                    return 0
                if fn == "bvudiv":
                    return x // y
                if fn == "bvurem":
                    return x % y
                sx, sy = sg(x, n), sg(y, n)
                if fn == "bvsdiv":
                    q = abs(sx) // abs(sy)
                    return (q if (sx < 0) == (sy < 0) else -q) % (1 << n)
                if fn == "bvsrem":
                    r = abs(sx) % abs(sy)
                    return (-r if sx < 0 else r) % (1 << n)
            raise ValueError(f"zeval: unknown function {name}")
        if k == z3.Z3_OP_ITE:
            return go(ch[1]) if go(ch[0]) else go(ch[2])
        if k == z3.Z3_OP_EQ or k == z3.Z3_OP_IFF:
            return go(ch[0]) == go(ch[1])
        if k == z3.Z3_OP_DISTINCT:
            vs = [go(c) for c in ch]
            return len(set(vs)) == len(vs)
        if k == z3.Z3_OP_AND:
            return all(go(c) for c in ch)
        if k == z3.Z3_OP_OR:
            return any(go(c) for c in ch)
        if k == z3.Z3_OP_NOT:
            return not go(ch[0])
        if k == z3.Z3_OP_XOR:
            r = False
            for c in ch:
                r ^= bool(go(c))
            return r
        if k == z3.Z3_OP_IMPLIES:
            return (not go(ch[0])) or go(ch[1])
        a = [go(c) for c in ch]
        if k in (z3.Z3_OP_ULT, z3.Z3_OP_ULEQ, z3.Z3_OP_UGT, z3.Z3_OP_UGEQ):
            x, y = a
            return {z3.Z3_OP_ULT: x < y, z3.Z3_OP_ULEQ: x <= y, z3.Z3_OP_UGT: x > y, z3.Z3_OP_UGEQ: x >= y}[k]
        if k in (z3.Z3_OP_SLT, z3.Z3_OP_SLEQ, z3.Z3_OP_SGT, z3.Z3_OP_SGEQ):
            n = ch[0].size()
            x, y = sg(a[0], n), sg(a[1], n)
            return {z3.Z3_OP_SLT: x < y, z3.Z3_OP_SLEQ: x <= y, z3.Z3_OP_SGT: x > y, z3.Z3_OP_SGEQ: x >= y}[k]
        n = e.size()
        W = 1 << n
        if k == z3.Z3_OP_BADD:
            return sum(a) % W
        if k == z3.Z3_OP_BSUB:
            r = a[0]
            for y in a[1:]:
                r -= y
            return r % W
        if k == z3.Z3_OP_BMUL:
            r = 1
            for y in a:
                r = r * y % W
            return r
        if k == z3.Z3_OP_BNEG:
            return (-a[0]) % W
        if k == z3.Z3_OP_BNOT:
            return W - 1 - a[0]
        if k == z3.Z3_OP_BAND:
            r = W - 1
            for y in a:
                r &= y
            return r
        if k == z3.Z3_OP_BOR:
            r = 0
            for y in a:
                r |= y
            return r
        if k == z3.Z3_OP_BXOR:
            r = 0
            for y in a:
                r ^= y
            return r
        if k in (z3.Z3_OP_BUDIV, z3.Z3_OP_BUDIV_I):
            return W - 1 if a[1] == 0 else a[0] // a[1]
        if k in (z3.Z3_OP_BUREM, z3.Z3_OP_BUREM_I):
            return a[0] if a[1] == 0 else a[0] % a[1]
        if k in (z3.Z3_OP_BSDIV, z3.Z3_OP_BSDIV_I):
            x, y = sg(a[0], n), sg(a[1], n)
            if y == 0:
                return 1 if x < 0 else W - 1
            q = abs(x) // abs(y)
            return (q if (x < 0) == (y < 0) else -q) % W
        if k in (z3.Z3_OP_BSREM, z3.Z3_OP_BSREM_I):
            x, y = sg(a[0], n), sg(a[1], n)
            if y == 0:
                return a[0]
            r = abs(x) % abs(y)
            return (-r if x < 0 else r) % W
        if k == z3.Z3_OP_BSHL:
            return (a[0] << a[1]) % W if a[1] < n else 0
        if k == z3.Z3_OP_BLSHR:
            return a[0] >> a[1] if a[1] < n else 0
        if k == z3.Z3_OP_BASHR:
            return (sg(a[0], n) >> min(a[1], n)) % W
        if k == z3.Z3_OP_CONCAT:
            r = 0
            for c, y in zip(ch, a):
                r = (r << c.size()) | y
            return r
        if k == z3.Z3_OP_EXTRACT:
            hi, lo = e.params()
            return (a[0] >> lo) & ((1 << (hi - lo + 1)) - 1)
        if k == z3.Z3_OP_ZERO_EXT:
            return a[0]
        if k == z3.Z3_OP_SIGN_EXT:
            m = ch[0].size()
            return sg(a[0], m) % W
        raise ValueError(f"zeval: unsupported z3 operator {e.decl().name()} (kind {k})")

    return go(t)


# ----------------------------------------------------------------- implementation side (worker)

_W = {}


def _worker_state():
    if _W:
        return _W
    import z3
    from halmos.__main__ import mk_block, mk_solver
    from halmos.calldata import FunctionInfo
    from halmos.config import default_config
    from halmos.sevm import SEVM

    args = default_config()
    _W["args"] = args
    _W["sevm"] = SEVM(args, FunctionInfo("TestContract", "test", "test()", "f8a8fd6d"))
    _W["mk_block"] = mk_block
    _W["mk_solver"] = mk_solver
    _W["caller"] = z3.BitVec("msg_sender", 160)
    _W["origin"] = z3.BitVec("tx_origin", 160)
    _W["this"] = z3.BitVec("this_address", 160)
    _W["balance"] = z3.Array("balance_0", z3.BitVecSort(160), z3.BitVecSort(256))
    _W["callvalue"] = z3.BitVec("msg_value", 256)
    _W["sebc"] = args.smt_exp_by_const
    return _W


def _worker_init():
    """import halmos / z3 and build the SEVM before any case is timed; silence z3's
    Context.__del__ noise at worker exit"""
    sys.unraisablehook = lambda *a: None
    _worker_state()
    try:
        impl_case({"lvl": "L2", "op": "ADD", "ops": [[0, 1], [1, 2]], "vals": [[1, 2]]})
    except Exception:  # noqa: BLE001
        pass


class _Timeout(Exception):
    pass


def _arm():
    import signal

    signal.setitimer(signal.ITIMER_VIRTUAL, PROMPT_S)


def _disarm():
    """the promptness budget covers the real call only, not the evaluation of its result"""
    import signal

    signal.setitimer(signal.ITIMER_VIRTUAL, 0)


def _alarm(signum, frame):
    raise _Timeout()


def mk_exec(code: bytes):
    from halmos.bytevec import ByteVec
    from halmos.sevm import CallContext, Contract, Message, Path
    from halmos.utils import EVM

    w = _worker_state()
    bytecode = Contract(code)
    message = Message(target=w["this"], caller=w["caller"], origin=w["origin"], value=w["callvalue"],
                      data=ByteVec(), call_scheme=EVM.CALL)
    return w["sevm"].mk_exec(
        code={w["this"]: bytecode}, storage={w["this"]: {}}, transient_storage={w["this"]: {}},
        balance=w["balance"], block=w["mk_block"](), context=CallContext(message), pgm=bytecode,
        path=Path(w["mk_solver"](w["args"])))


def mk_operand(i, kind, n=256):
    """kind 0: concrete word, 1: symbolic word, 2: TRUE/FALSE, 3: symbolic HalmosBool (value filled by caller)"""
    import z3
    from halmos.bitvec import HalmosBitVec, HalmosBool

    if kind == 1:
        return HalmosBitVec(z3.BitVec(f"c06_x{i}_{n}", n))
    if kind == 3:
        return HalmosBool(z3.Bool(f"c06_b{i}"))
    raise ValueError(kind)


def env_of(case, j, n=256):
    env = {}
    for i, (kind, _) in enumerate(case["ops"]):
        v = case["vals"][j][i]
        if kind == 1:
            env[f"c06_x{i}_{n}"] = v
        elif kind == 3:
            env[f"c06_b{i}"] = bool(v)
    env["msg_value"] = case["vals"][j][0] if case["ops"] else 0
    return env


def observe(r, case, n=256, extra_terms=()):
    """r: HalmosBitVec | HalmosBool -> (type, concrete?, [denotation per valuation])"""
    from halmos.bitvec import FALSE, TRUE, HalmosBitVec, HalmosBool

    _disarm()
    nv = len(case["vals"])
    if isinstance(r, HalmosBool):
        if r is TRUE or r is FALSE:
            return {"ty": "bool", "conc": True, "den": [int(r is TRUE)] * nv}
        t = r.as_z3()
        return {"ty": "bool", "conc": False, "den": [int(bool(zeval(t, env_of(case, j, n)))) for j in range(nv)]}
    if isinstance(r, HalmosBitVec):
        if r.is_concrete:
            return {"ty": "bv", "conc": True, "size": r.size, "den": [r.value] * nv}
        t = r.as_z3()
        return {"ty": "bv", "conc": False, "size": r.size, "den": [zeval(t, env_of(case, j, n)) for j in range(nv)]}
    return {"ty": type(r).__name__, "conc": False, "den": []}


def singleton_ok():
    from halmos.bitvec import FALSE, TRUE

    return (TRUE.con_val is True and TRUE.sym_val is None and FALSE.con_val is False and FALSE.sym_val is None)


def singleton_repair():
    from halmos.bitvec import FALSE, TRUE

    TRUE.con_val, TRUE.sym_val, FALSE.con_val, FALSE.sym_val = True, None, False, None


CON = {0: None, 1: False, 2: True}
SYM = {0: "None", 1: "<term>"}


def bool_ctor_cases():
    """(description, value, kind, v, s, constant value of the result or None): every kind of value
    HalmosBool(..) accepts; s = what z3's simplify makes of the term involved (0 true, 1 false, 2 neither)"""
    import z3
    from halmos.bitvec import FALSE, TRUE, HalmosBitVec, HalmosBool

    b = z3.Bool("c06_ctor_b")
    x = z3.BitVec("c06_ctor_x", 256)
    other = HalmosBool(z3.Bool("c06_ctor_q"))

    def sk(t):
        st = z3.simplify(t)
        return 0 if z3.is_true(st) else 1 if z3.is_false(st) else 2

    out = [("True", True, 0, 1, 2, True), ("False", False, 0, 0, 2, False)]
    terms = [("BoolVal(True)", z3.BoolVal(True)), ("BoolVal(False)", z3.BoolVal(False)), ("And(b, Not(b))", z3.And(b, z3.Not(b))),
             ("Or(b, Not(b))", z3.Or(b, z3.Not(b))), ("b", b), ("Not(b)", z3.Not(b)), ("x == x", x == x), ("ULT(x, x)", z3.ULT(x, x)),
             ("x == 0", x == 0), ("And(b, True)", z3.And(b, True)), ("UGE(x, 0)", z3.UGE(x, 0)), ("Xor(b, b)", z3.Xor(b, b))]
    for d, t in terms:
        s = sk(t)
        out.append((d, t, 1, 0, s, None if s == 2 else s == 0))
    out.append(("'c06_ctor_name'", "c06_ctor_name", 2, 0, 2, None))
    out += [("TRUE", TRUE, 3, 0, 2, True), ("FALSE", FALSE, 3, 1, 2, False), ("<symbolic HalmosBool>", other, 3, 2, 2, None)]
    for v in (0, 1, 5, M256, 1 << 255):
        out.append((f"HalmosBitVec({v})", HalmosBitVec(v, size=256), 4, v, 2, v != 0))
    for d, t in [("HalmosBitVec(x)", x), ("HalmosBitVec(If(b, 1, 2))", z3.If(b, z3.BitVecVal(1, 256), z3.BitVecVal(2, 256))),
                 ("HalmosBitVec(x & 0)", x & 0), ("HalmosBitVec(x | 1)", x | 1)]:
        hv = HalmosBitVec(t, size=256)
        if hv.is_concrete:
            out.append((d, hv, 4, hv.value, 2, hv.value != 0))
        else:
            s = sk(hv.value != 0)
            out.append((d, hv, 5, 0, s, None if s == 2 else s == 0))
    return out


def bool_ctor_observe(arg):
    """[object returned: 0 TRUE 1 FALSE 2 fresh 3 the one passed; its con/sym; TRUE con/sym; FALSE con/sym]"""
    from halmos.bitvec import FALSE, TRUE, HalmosBool

    def con(o):
        return 0 if o.con_val is None else 2 if o.con_val else 1

    def sym(o):
        return 0 if o.sym_val is None else 1

    r = HalmosBool(arg)
    rc = 0 if r is TRUE else 1 if r is FALSE else 3 if r is arg else 2
    return [rc, con(r), sym(r), con(TRUE), sym(TRUE), con(FALSE), sym(FALSE)]


def impl_case(case):
    """Run one case on the real code.  Returns a JSON-able observation."""
    import signal

    lvl = case["lvl"]
    t0 = time.process_time()
    out = {}
    # CPU time of this process (z3 runs in-process), so that machine load cannot cause a false alarm
    signal.signal(signal.SIGVTALRM, _alarm)
    signal.setitimer(signal.ITIMER_VIRTUAL, PROMPT_S)
    try:
        if lvl == "L2":
            out = impl_l2(case)
        elif lvl == "L2p":
            out = impl_prog(case)
        else:
            out = impl_l1(case)
    except _Timeout:
        out = {"st": "timeout"}
    except Exception as e:  # noqa: BLE001
        if "_Timeout" in str(e):   # raised inside a ctypes callback and wrapped (ArgumentError)
            out = {"st": "timeout"}
        else:
            out = {"st": f"exc:{type(e).__name__}", "msg": str(e)[:200]}
    finally:
        signal.setitimer(signal.ITIMER_VIRTUAL, 0)
    out["t"] = round(time.process_time() - t0, 4)
    if not singleton_ok():
        out["singleton_mutated"] = True
        singleton_repair()
    return out


def stack_value(i, kind, v):
    from halmos.bitvec import HalmosBitVec, HalmosBool

    if kind == 0:
        return HalmosBitVec(v, size=256)
    if kind == 2:
        return HalmosBool(bool(v))
    return mk_operand(i, kind)


def finish_run(exs, case, junk=()):
    _disarm()
    if len(exs) != 1:
        return {"st": f"paths:{len(exs)}"}
    ex = exs[0]
    err = ex.context.output.error
    if err is not None:
        return {"st": f"halt:{type(err).__name__}"}
    if not ex.st.stack:
        return {"st": "emptystack"}
    out = observe(ex.st.stack[-1], case)
    out["st"] = "ok"
    out["depth"] = len(ex.st.stack)
    out["rest_ok"] = len(ex.st.stack) == len(junk) + 1 and all(x is y for x, y in zip(ex.st.stack, junk))
    conds = list(ex.path.conditions.keys())
    out["axioms"] = [[bool(zeval(c, env_of(case, j))) for c in conds] for j in range(len(case["vals"]))]
    return out


def impl_l2(case):
    w = _worker_state()
    if w["sebc"] != SEBC:
        return {"st": f"config:smt_exp_by_const={w['sebc']}"}
    ex = mk_exec(bytes([OPCODE[case["op"]], 0x00]))
    from halmos.bitvec import HalmosBitVec

    vals = [stack_value(i, k, v) for i, (k, v) in enumerate(case["ops"])]
    # the rest of the stack below the operands: must be left untouched (theorem C06_stack_frame*)
    junk = [HalmosBitVec(0xDEAD0000 + i, size=256) for i in range(case.get("rest", 0))]
    ex.st.stack.extend(junk)
    ex.st.stack.extend(reversed(vals))  # operand 0 is the top of the stack
    exs = list(w["sevm"].run(ex))
    return finish_run(exs, case, junk)


def impl_prog(case):
    w = _worker_state()
    ex = mk_exec(bytes.fromhex(case["code"]))
    exs = list(w["sevm"].run(ex))
    return finish_run(exs, case)


_F = {}


def _abs(name, n):
    import z3

    key = (name, n)
    if key not in _F:
        s = z3.BitVecSort(n)
        _F[key] = z3.Function(f"f_evm_{name}_{n}", s, s, s)
    return _F[key]


def impl_l1(case):
    """the real HalmosBitVec methods at size n, abstraction on/off"""
    from halmos.bitvec import HalmosBitVec

    n, ab, m = case["n"], case["abs"], case["op"]
    if case.get("sweep"):
        # all-concrete sweep: one real call per row of operand values
        dens, conc, ty = [], True, None
        for row in case["vals"]:
            _arm()
            o = impl_l1(dict(case, ops=[[0, v] for v in row], vals=[row], sweep=False))
            if o.get("st") != "ok":
                o["row"] = row
                return o
            dens.append(o["den"][0])
            conc = conc and o["conc"]
            ty = o["ty"]
        return {"st": "ok", "ty": ty, "conc": conc, "den": dens}
    xs = []
    for i, (k, v) in enumerate(case["ops"]):
        xs.append(HalmosBitVec(v, size=n) if k == 0 else mk_operand(i, k, n))
    A = (lambda name, size=n: _abs(name, size)) if ab else (lambda name, size=n: None)
    a = xs[0]
    if m == "add":
        r = a.add(xs[1])
    elif m == "sub":
        r = a.sub(xs[1])
    elif m == "mul":
        r = a.mul(xs[1], abstraction=A("bvmul"))
    elif m == "div":
        r = a.div(xs[1], abstraction=A("bvudiv"))
    elif m == "sdiv":
        r = a.sdiv(xs[1], abstraction=A("bvsdiv"))
    elif m == "mod":
        r = a.mod(xs[1], abstraction=A("bvurem"))
    elif m == "smod":
        r = a.smod(xs[1], abstraction=A("bvsrem"))
    elif m == "exp":
        r = a.exp(xs[1], exp_abstraction=A("exp"), mul_abstraction=A("bvmul"), smt_exp_by_const=case.get("sebc", SEBC))
    elif m == "lshl":
        r = a.lshl(xs[1])
    elif m == "lshr":
        r = a.lshr(xs[1])
    elif m == "ashr":
        r = a.ashr(xs[1])
    elif m == "and":
        r = a.bitwise_and(xs[1])
    elif m == "or":
        r = a.bitwise_or(xs[1])
    elif m == "xor":
        r = a.bitwise_xor(xs[1])
    elif m in ("ult", "ugt", "ule", "uge", "slt", "sgt", "eq"):
        r = getattr(a, m)(xs[1])
    elif m == "not":
        r = a.bitwise_not()
    elif m == "is_zero":
        r = a.is_zero()
    elif m == "addmod":
        r = a.addmod(xs[1], xs[2], abstraction=A("bvurem", n + 8))
    elif m == "mulmod":
        r = a.mulmod(xs[1], xs[2], mul_abstraction=A("bvmul", 2 * n), mod_abstraction=A("bvurem", 2 * n))
    elif m == "byte":
        r = a.byte(case["ops"][1][1], output_size=case["ops"][2][1])
    elif m == "signextend":
        r = a.signextend(case["ops"][1][1])
    else:
        raise ValueError(m)
    out = observe(r, case, n)
    out["st"] = "ok"
    return out


# ----------------------------------------------------------------- guarded subprocess for big EXP

BIG_EXP_SCRIPT = r"""
import resource, sys, time
resource.setrlimit(resource.RLIMIT_AS, (2 << 30, 2 << 30))
resource.setrlimit(resource.RLIMIT_CPU, (BUDGET, BUDGET + 1))   # CPU seconds: SIGXCPU ends the process
sys.path.insert(0, sys.argv[1])
from halmos.bitvec import HalmosBitVec as BV
for line in sys.stdin:
    a, b = (int(x) for x in line.split())
    t0 = time.process_time()
    try:
        r = BV(a).exp(BV(b))
        print("ok", r.value, round(time.process_time() - t0, 3), flush=True)
    except BaseException as e:
        print("exc:" + type(e).__name__, 0, round(time.process_time() - t0, 3), flush=True)
"""


BIG_EXP_CPU_S = 6   # import of halmos + z3 costs about 1 s of it


def start_big_exp(pairs):
    """all pairs in ONE guarded child (address space and CPU limited); one result line per pair"""
    p = subprocess.Popen(["timeout", "-s", "KILL", "300", common.PY, "-c", BIG_EXP_SCRIPT.replace("BUDGET", str(BIG_EXP_CPU_S)), str(common.REPO / "src")],
                         stdin=subprocess.PIPE, stdout=subprocess.PIPE, stderr=subprocess.DEVNULL, text=True)
    try:
        p.stdin.write("".join(f"{a} {b}\n" for a, b in pairs))
        p.stdin.close()
    except OSError:
        pass
    return p


def finish_big_exp(p, npairs, deadline):
    """-> one observation per pair; the pairs the child did not reach before it was ended (CPU budget
    used up by an earlier pair) are reported as `timeout` for the pair it died in and `skipped` after"""
    try:
        p.wait(timeout=max(0.1, deadline - time.time()))
    except subprocess.TimeoutExpired:
        p.kill()
    out = p.stdout.read() if p.stdout else ""
    res = []
    for line in out.splitlines():
        parts = line.split()
        if len(parts) != 3:
            continue
        if parts[0] == "ok":
            res.append({"st": "ok", "ty": "bv", "conc": True, "den": [int(parts[1])], "t": float(parts[2])})
        else:
            res.append({"st": parts[0], "t": float(parts[2])})
    if len(res) < npairs:
        res.append({"st": "timeout" if p.returncode not in (0, 1) else "exc:crash", "rc": p.returncode})
    while len(res) < npairs:
        res.append({"st": "skipped"})
    return res


# ----------------------------------------------------------------- generators

def harvested_literals():
    """every integer literal of bitvec.py (the guards' constants), +-1"""
    import ast

    out = set()
    try:
        tree = ast.parse((common.SRC / "bitvec.py").read_text())
        for nnode in ast.walk(tree):
            if isinstance(nnode, ast.Constant) and isinstance(nnode.value, int) and not isinstance(nnode.value, bool):
                for d in (-1, 0, 1):
                    if 0 <= nnode.value + d <= M256:
                        out.add(nnode.value + d)
    except Exception:  # noqa: BLE001
        pass
    return sorted(out)


def boundary_values():
    vs = {0, 1, 2, 3, 5, 6, 7, 10, 0xFF, 0x100, 0x7F, 0x80, 0x81, 0xFFFF, 0x8000, M256, M256 - 1, M256 - 2}
    for k in (1, 2, 7, 8, 15, 16, 31, 32, 63, 64, 127, 128, 160, 247, 248, 254, 255):
        vs |= {1 << k, (1 << k) - 1, (1 << k) + 1}
    vs |= {(1 << 256) - (1 << 255) + 1, (1 << 255) - 1, 3 << 254, M256 - 0xFF, M256 - (1 << 128)}
    vs |= set(harvested_literals())
    return sorted(v for v in vs if 0 <= v <= M256)


SHIFTS = [0, 1, 7, 8, 30, 31, 32, 33, 255, 256, 257, 1 << 64, 1 << 255, M256]


def rand_word(r):
    c = r.randrange(6)
    if c == 0:
        return r.getrandbits(256)
    if c == 1:
        return r.getrandbits(r.choice([8, 16, 64, 128, 255]))
    if c == 2:
        return 1 << r.randrange(256)
    if c == 3:
        return M256 - r.getrandbits(r.choice([4, 8, 64, 128]))
    if c == 4:
        return (1 << 255) | r.getrandbits(r.choice([8, 64, 254]))
    return r.choice([0, 1, 2, M256])


def pick(r, B, role):
    """role: 'w' word, 's' shift/index, 'e' exponent, 'd' divisor, 'b' bool"""
    if role == "b":
        return r.randrange(2)
    c = r.random()
    if role == "s":
        if c < 0.65:
            return r.choice(SHIFTS)
        if c < 0.8:
            return r.randrange(0, 300)
    elif role == "e":
        # large exponents are rare: evaluating f_evm_exp in the extracted model (inductive Z) costs
        # about a second per 256-bit exponent
        if c < 0.75:
            return r.choice([0, 1, 2, 3, 4, 5, 7, 8, 16, 31, 32, 255, 256, 257])
        if c < 0.92:
            return r.randrange(0, 64)
    elif role == "d":
        if c < 0.3:
            return r.choice([0, 1, 2, 3, 4, 6, 8, 256, 1 << 255, (1 << 255) + 1, M256, M256 - 1, 1 << 128, 12345])
    if c < 0.85 or role != "w":
        return r.choice(B) if r.random() < 0.6 else rand_word(r)
    return rand_word(r)


ROLES = {
    "SIGNEXTEND": "sw", "BYTE": "sw", "SHL": "sw", "SHR": "sw", "SAR": "sw", "EXP": "we",
    "DIV": "wd", "SDIV": "wd", "MOD": "wd", "SMOD": "wd", "ADDMOD": "wwd", "MULMOD": "wwd",
    "lshl": "ws", "lshr": "ws", "ashr": "ws", "exp": "we", "div": "wd", "sdiv": "wd", "mod": "wd", "smod": "wd",
    "addmod": "wwd", "mulmod": "wwd",
}


def exp_work(x, y):
    return 0 if (y <= 1 or x <= 1) else y * (x.bit_length() - 1)


def add_valuations(r, B, case, nextra, roles, n=256):
    """vals[0] = the operand values themselves; extra valuations vary the symbolic operands"""
    base = [v for _, v in case["ops"]]
    vals = [base]
    if any(k in (1, 3) for k, _ in case["ops"]):
        for _ in range(nextra):
            row = []
            for i, (k, v) in enumerate(case["ops"]):
                if k == 1:
                    row.append(pick(r, B, roles[i]) & ((1 << n) - 1))
                elif k == 3:
                    row.append(r.randrange(2))
                else:
                    row.append(v)
            vals.append(row)
    case["vals"] = vals
    return case


def gen_l2(tier, r, B):
    cases = []
    per = 12 if tier == "quick" else 60
    nextra = 2 if tier == "quick" else 4
    for op in OPS2:
        roles = ROLES.get(op, "ww")
        for k1 in range(4):
            for k2 in range(4):
                reps = per if (k1 < 2 and k2 < 2) else max(3, per // 3)
                for _ in range(min(reps, 24) if op == "EXP" else reps):
                    v1 = pick(r, B, "b" if k1 >= 2 else roles[0])
                    v2 = pick(r, B, "b" if k2 >= 2 else roles[1])
                    if op == "EXP" and k1 == 0 and k2 == 0 and exp_work(v1, v2) > WORK_LIMIT_INPROC:
                        v2 = v2 % 4096
                    c = {"lvl": "L2", "op": op, "ops": [[k1, v1], [k2, v2]], "rest": r.choice([0, 0, 1, 3])}
                    cases.append(add_valuations(r, B, c, 2 if op == "EXP" else nextra, roles))
    for op in OPS1:
        for k1 in range(4):
            for _ in range(3 * per if k1 < 2 else 4):
                v1 = pick(r, B, "b" if k1 >= 2 else "w")
                c = {"lvl": "L2", "op": op, "ops": [[k1, v1]], "rest": r.choice([0, 0, 1, 3])}
                cases.append(add_valuations(r, B, c, nextra, "w"))
    for op in OPS3:
        roles = ROLES[op]
        for k1 in range(4):
            for k2 in range(4):
                for k3 in range(4):
                    reps = (per // 2) if max(k1, k2, k3) < 2 else 2
                    for _ in range(max(2, reps)):
                        vs = [pick(r, B, "b" if k >= 2 else roles[i]) for i, k in enumerate((k1, k2, k3))]
                        c = {"lvl": "L2", "op": op, "ops": [[k1, vs[0]], [k2, vs[1]], [k3, vs[2]]], "rest": r.choice([0, 0, 1, 3])}
                        cases.append(add_valuations(r, B, c, nextra, roles))
    return cases


def push(v):
    if v == 0:
        return "5f"
    nb = max(1, (v.bit_length() + 7) // 8)
    return f"{0x5F + nb:02x}" + v.to_bytes(nb, "big").hex()


def gen_programs(tier, r, B):
    """real programs whose stack top is Bool-typed when the last instruction runs.
    Symbolic operand = CALLVALUE (msg_value = valuation of operand 0)."""
    progs = []
    cmpops = ["LT", "GT", "SLT", "SGT", "EQ"]
    lasts = ["NOT", "ISZERO"]
    vals = [0, 1, 5, M256, 1 << 255]
    for last in lasts:
        for v in vals:
            # PUSH v ; ISZERO ; last
            progs.append({"lvl": "L2p", "code": push(v) + "15" + f"{OPCODE[last]:02x}" + "00", "ops": [],
                          "vals": [[]], "expect": spec(last, spec("ISZERO", v)), "op": last, "shape": "ISZERO;" + last,
                          "top": "bool"})
        for cmp_ in cmpops:
            for (a, b) in [(1, 2), (2, 1), (M256, 0), (7, 7)]:
                # PUSH b ; PUSH a ; cmp ; last      (a on top)
                progs.append({"lvl": "L2p", "code": push(b) + push(a) + f"{OPCODE[cmp_]:02x}" + f"{OPCODE[last]:02x}" + "00",
                              "ops": [], "vals": [[]], "expect": spec(last, spec(cmp_, a, b)), "op": last,
                              "shape": cmp_ + ";" + last, "top": "bool"})
        # CALLVALUE ; ISZERO ; last   (symbolic Bool on top), three valuations
        mv = [0, 1, 1 << 200]
        progs.append({"lvl": "L2p", "code": "3415" + f"{OPCODE[last]:02x}" + "00", "ops": [[1, mv[0]]],
                      "vals": [[x] for x in mv], "expect_list": [spec(last, spec("ISZERO", x)) for x in mv], "op": last,
                      "shape": "CALLVALUE;ISZERO;" + last, "top": "bool"})
    # Bool-typed operand of a binary instruction: CALLVALUE ISZERO PUSH c op
    for op in ["AND", "OR", "XOR", "EQ", "ADD", "SUB", "MUL", "LT", "SHL", "BYTE", "SIGNEXTEND", "DIV", "EXP"]:
        for cst in [0, 1, 5, M256]:
            mv = [0, 1, M256]
            progs.append({"lvl": "L2p", "code": "3415" + push(cst) + f"{OPCODE[op]:02x}" + "00", "ops": [[1, mv[0]]],
                          "vals": [[x] for x in mv], "expect_list": [spec(op, cst, spec("ISZERO", x)) for x in mv],
                          "op": op, "shape": f"CALLVALUE;ISZERO;PUSH;{op}", "top": "bv"})
    # concrete three-operand programs incl. zero modulus
    for op in OPS3:
        for (a, b, m) in [(5, 6, 0), (5, 6, 4), (M256, M256, M256), (M256, 2, 0)]:
            progs.append({"lvl": "L2p", "code": push(m) + push(b) + push(a) + f"{OPCODE[op]:02x}" + "00", "ops": [],
                          "vals": [[]], "expect": spec(op, a, b, m), "op": op, "shape": "PUSH;PUSH;PUSH;" + op,
                          "top": "bv", "operands": "concrete", "modulus": "zero" if m == 0 else "nonzero"})
    return progs


def gen_l1(tier, r, B):
    cases = []
    per = 3 if tier == "quick" else 15
    nextra = 2 if tier == "quick" else 4
    B8 = sorted({0, 1, 2, 3, 4, 7, 8, 9, 15, 16, 17, 31, 32, 64, 127, 128, 129, 254, 255})
    for n in (256, 8):
        Bn = B if n == 256 else B8
        for ab in (1, 0):
            for m in METHODS:
                if m == "signextend" and n != 256:
                    continue
                ar = 1 if m in ("not", "is_zero") else 3 if m in ("addmod", "mulmod") else 2
                roles = ROLES.get(m, "www")
                if m == "byte":
                    for k1 in (0, 1):
                        for idx in ([0, 1, 30, 31, 32, 33, 1 << 64] if n == 256 else [0, 1, 2]):
                            for outsz in (8, 256):
                                c = {"lvl": "L1", "n": n, "abs": ab, "op": m, "ops": [[k1, pick(r, Bn, "w") % (1 << n)], [0, idx], [0, outsz]]}
                                cases.append(add_valuations(r, Bn, c, nextra, "www", n))
                    continue
                if m == "signextend":
                    for k1 in (0, 1):
                        for sz in [0, 1, 2, 15, 29, 30, 31, 32, 33, 255, 1 << 64]:
                            c = {"lvl": "L1", "n": n, "abs": ab, "op": m, "ops": [[k1, pick(r, Bn, "w")], [0, sz]]}
                            cases.append(add_valuations(r, Bn, c, nextra, "www", n))
                    continue
                for kinds in range(1 << ar):
                    ks = [(kinds >> i) & 1 for i in range(ar)]
                    for _ in range(min(per, 6) if m == "exp" else per):
                        ops = []
                        for i, k in enumerate(ks):
                            v = pick(r, Bn, roles[i] if i < len(roles) else "w") % (1 << n)
                            ops.append([k, v])
                        if m == "exp" and ks == [0, 0] and exp_work(ops[0][1], ops[1][1]) > WORK_LIMIT_INPROC:
                            ops[1][1] %= 4096
                        c = {"lvl": "L1", "n": n, "abs": ab, "op": m, "ops": ops}
                        cases.append(add_valuations(r, Bn, c, 2 if m == "exp" else nextra, roles + "www", n))
    return cases


def gen_l1_exhaustive8(r):
    """thorough: all 65536 operand pairs at size 8 for every size-generic binary method, in the four
    representation mixes; symbolic operands are covered through valuations of one term"""
    cases = []
    bins = ["add", "sub", "mul", "div", "sdiv", "mod", "smod", "lshl", "lshr", "ashr", "and", "or", "xor",
            "ult", "ugt", "slt", "sgt", "eq"]
    allv = list(range(256))
    # concrete operand of the mixed representations: every boundary value and a spread (48 values);
    # the symbolic operand still ranges over all 256 valuations
    mixv = sorted(set([0, 1, 2, 3, 4, 5, 6, 7, 8, 9, 15, 16, 17, 31, 32, 33, 63, 64, 65, 100, 126, 127, 128, 129, 130,
                       191, 192, 193, 200, 240, 248, 250, 251, 252, 253, 254, 255] + list(range(11, 256, 23))))
    for m in bins:
        # SS: one term, all 65536 pairs as valuations (chunked)
        for lo in range(0, 256, 16):
            cases.append({"lvl": "L1", "n": 8, "abs": 1, "op": m, "ops": [[1, 0], [1, 0]],
                          "vals": [[x, y] for x in range(lo, lo + 16) for y in allv]})
        for x in mixv:
            cases.append({"lvl": "L1", "n": 8, "abs": 1, "op": m, "ops": [[0, x], [1, 0]], "vals": [[x, y] for y in allv]})
            cases.append({"lvl": "L1", "n": 8, "abs": 1, "op": m, "ops": [[1, 0], [0, x]], "vals": [[y, x] for y in allv]})
        # CC: all 65536 pairs, one real call each
        for x in allv:
            cases.append({"lvl": "L1", "n": 8, "abs": 1, "op": m, "ops": [[0, x], [0, 0]], "vals": [[x, y] for y in allv], "sweep": True})
    for x in allv:
        for m in ("not", "is_zero"):
            cases.append({"lvl": "L1", "n": 8, "abs": 1, "op": m, "ops": [[0, x]], "vals": [[x]]})
    for m in ("not", "is_zero"):
        cases.append({"lvl": "L1", "n": 8, "abs": 1, "op": m, "ops": [[1, 0]], "vals": [[x] for x in allv]})
    # exp at size 8: all pairs concrete (small work) and symbolic base with every exponent
    for x in allv:
        cases.append({"lvl": "L1", "n": 8, "abs": 1, "op": "exp", "ops": [[0, x], [0, 0]], "vals": [[x, y] for y in allv], "sweep": True})
    for y in allv:
        cases.append({"lvl": "L1", "n": 8, "abs": 1, "op": "exp", "ops": [[1, 0], [0, y]], "vals": [[x, y] for x in allv]})
    # addmod / mulmod: a random third of the 2^24 triples is too many; all (x, y) for 24 moduli
    mods = [0, 1, 2, 3, 4, 5, 7, 8, 16, 17, 31, 32, 64, 100, 127, 128, 129, 200, 254, 255] + [r.randrange(256) for _ in range(4)]
    for m in ("addmod", "mulmod"):
        for z in mods:
            for k3 in (0, 1):
                cases.append({"lvl": "L1", "n": 8, "abs": 1, "op": m, "ops": [[1, 0], [1, 0], [k3, z]],
                              "vals": [[x, y, z] for x in allv[::3] for y in allv[::5]]})
                for x in allv[::7]:
                    cases.append({"lvl": "L1", "n": 8, "abs": 1, "op": m, "ops": [[0, x], [1, 0], [k3, z]],
                                  "vals": [[x, y, z] for y in allv]})
            for x in allv[::5]:
                for y in allv[::3]:
                    cases.append({"lvl": "L1", "n": 8, "abs": 1, "op": m, "ops": [[0, x], [0, y], [0, z]], "vals": [[x, y, z]]})
                    cases.append({"lvl": "L1", "n": 8, "abs": 1, "op": m, "ops": [[0, x], [0, y], [1, z]], "vals": [[x, y, z]]})
    return cases


# ----------------------------------------------------------------- model side

def model_calls(case):
    """one call per valuation"""
    calls = []
    lvl = case["lvl"]
    for row in case["vals"]:
        ops = [[k, row[i]] for i, (k, _) in enumerate(case["ops"])]
        flat = [x for kv in ops for x in kv]
        if lvl == "L2":
            op = case["op"]
            if op in OPS2:
                calls.append(("c06_run2", [SEBC, OPS2.index(op)] + flat))
            elif op in OPS1:
                calls.append(("c06_run1", [OPS1.index(op)] + flat))
            else:
                calls.append(("c06_run3", [OPS3.index(op)] + flat))
        elif lvl == "L1":
            flat = (flat + [0] * 6)[:6]
            calls.append(("c06_method", [case["n"], case["abs"], case.get("sebc", SEBC), METHODS.index(case["op"])] + flat))
    if lvl == "L2" and case["op"] in ("DIV", "MOD"):
        for row in case["vals"]:
            ops = [[k, row[i]] for i, (k, _) in enumerate(case["ops"])]
            calls.append(("c06_axioms", [OPS2.index(case["op"])] + [x for kv in ops for x in kv]))
    return calls


ERRNAME = {2: "NotConcreteError", 3: "ZeroDivisionError", 4: "TypeError", 5: "NotImplementedError",
           6: "StackUnderflowError", 7: "AttributeError", 8: "ValueError", 9: "wrong-stack-depth"}


def model_obs(case, results):
    nv = len(case["vals"])
    main = results[:nv]
    if any(m is None or not m for m in main):
        return {"st": "model-error"}
    heads = {m[0] for m in main}
    if heads == {9} and all(len(m) == 2 for m in main):
        return {"st": "slow", "work": main[0][1]}
    if len(heads) != 1:
        return {"st": "model-inconsistent"}
    h = main[0][0]
    if h != 0:
        return {"st": "exc:" + ERRNAME.get(h, str(h))}
    flags = {m[1] for m in main}
    if len(flags) != 1:
        return {"st": "model-inconsistent-flag"}
    f = main[0][1]
    out = {"st": "ok", "ty": "bv" if f < 2 else "bool", "conc": f in (0, 2), "den": [m[2] for m in main]}
    if len(results) > nv:
        out["axioms"] = [[bool(x) for x in ax] for ax in results[nv:]]
    return out


# ----------------------------------------------------------------- spec side

def operand_den(k, v):
    return int(bool(v)) if k >= 2 else v


def spec_obs(case):
    lvl = case["lvl"]
    if lvl == "L2p":
        return case.get("expect_list") or [case["expect"]]
    out = []
    for row in case["vals"]:
        d = [operand_den(k, row[i]) for i, (k, _) in enumerate(case["ops"])]
        if lvl == "L2":
            out.append(spec(case["op"], *d))
        else:
            n, m = case["n"], case["op"]
            if m == "byte":
                out.append(spec_byte_method(n, d[0], d[1], d[2]))
            elif m == "signextend":
                out.append(spec("SIGNEXTEND", d[1], d[0]))
            else:
                out.append(spec(m, *d, n=n) if len(d) != 3 else spec(m, d[0], d[1], d[2], n=n))
    return out


def kinds_str(case):
    return "".join("CSBb"[k] for k, _ in case["ops"])


def make_sig(case, cls):
    sig = {"op": case["op"], "class": cls, "level": case["lvl"], "kinds": kinds_str(case)}
    if case["lvl"] == "L2p":
        sig["top"] = case.get("top", "bv")
        sig["operands"] = case.get("operands", "program")
        if "modulus" in case:
            sig["modulus"] = case["modulus"]
        return sig
    if case["lvl"] == "L2":
        sig["top"] = "bool" if case["ops"][0][0] >= 2 else "bv"
        sig["operands"] = "concrete" if all(k in (0, 2) for k, _ in case["ops"]) else "mixed"
        if case["op"] in OPS3:
            sig["modulus"] = "zero" if (case["ops"][2][0] in (0, 2) and case["ops"][2][1] == 0) else "other"
    else:
        sig["operands"] = "concrete" if all(k in (0, 2) for k, _ in case["ops"]) else "mixed"
        sig["abs"] = case["abs"]
        sig["n"] = case["n"]
        if case["op"] in ("addmod", "mulmod"):
            sig["modulus"] = "zero" if (case["ops"][2][0] in (0, 2) and case["ops"][2][1] == 0) else "other"
    return sig


def _run_chunk(chunk):
    return [impl_case(c) for c in chunk]


def run_pool(cases, nproc, chunk=24):
    """map impl_case over the cases in worker processes; a dying worker never hangs the check:
    the chunks it lost are retried once in a fresh pool, then reported"""
    out = [None] * len(cases)
    todo = [list(range(i, min(i + chunk, len(cases)))) for i in range(0, len(cases), chunk)]
    for attempt in range(3):
        if not todo:
            break
        lost = []
        with ProcessPoolExecutor(nproc if attempt == 0 else max(2, nproc // 4), initializer=_worker_init) as ex:
            futs = [(idx, ex.submit(_run_chunk, [cases[i] for i in idx])) for idx in todo]
            for idx, f in futs:
                try:
                    for i, r in zip(idx, f.result(timeout=1200)):
                        out[i] = r
                except (BrokenProcessPool, TimeoutError, OSError):
                    lost.append(idx)
        # split lost chunks so that a single crashing case is isolated
        todo = [[i] for idx in lost for i in idx] if attempt >= 1 else lost
    crashed = [i for idx in todo for i in idx]
    for i in crashed:
        out[i] = {"st": "worker-crash"}
    # a case that did not finish within its CPU budget is run once more, alone, with a five times larger budget,
    # before it is believed (a worker's first case pays for imports; on an oversubscribed machine caches thrash):
    # a genuinely non-prompt operation (unreduced EXP: minutes) still does not finish
    global PROMPT_S
    late = [i for i, r in enumerate(out) if r and r.get("st") == "timeout"]
    if late and len(late) <= 40:
        keep = PROMPT_S
        PROMPT_S = 5 * keep
        try:
            for i in late:
                out[i] = impl_case(cases[i])
        finally:
            PROMPT_S = keep
    return out, crashed


def par_small(model, calls, workers=8, timeout=300):
    """Model.parallel_batch runs fewer than 64 calls serially; these few are expensive (256-bit modular
    exponentiation in the extracted model): split them anyway"""
    from concurrent.futures import ThreadPoolExecutor

    n = max(1, min(workers, len(calls)))
    chunks = [calls[i::n] for i in range(n)]
    with ThreadPoolExecutor(n) as ex:
        parts = list(ex.map(lambda c: model.batch(c, timeout), chunks))
    out = [None] * len(calls)
    for k, part in enumerate(parts):
        out[k::n] = part
    return out


class Failures:
    """routes property violations: KNOWN entries are reported once as KNOWN-FINDING, the rest fail"""

    def __init__(self, rep):
        self.rep = rep
        self.known_hits = {}
        self.n_unknown = 0

    def failing_input(self, what, case, sig):
        f = {"kind": "failing-input", "sig": sig}
        for k in KNOWN:
            if common.finding_matches(k, f):
                h = self.known_hits.setdefault(k["id"], {"count": 0, "example": None, "what": k["what"]})
                h["count"] += 1
                if h["example"] is None:
                    h["example"] = {"case": slim(case), "observed": what}
                return
        self.n_unknown += 1
        if self.n_unknown <= 12:
            self.rep.fail("failing-input", what, case=slim(case), sig=sig)

    def broken_tie(self, what, case):
        self.n_unknown += 1
        if self.n_unknown <= 12:
            self.rep.fail("broken-tie", what, case=slim(case))


def slim(case):
    c = dict(case)
    if len(c.get("vals", [])) > 8:
        c["vals"] = c["vals"][:8]
    return c


def judge(fl, case, impl, mod, latent):
    """spec-vs-implementation first (property), then model-vs-implementation (tie).
    Returns True when the case was fine."""
    op = case["op"]
    S = spec_obs(case)
    st = impl.get("st")
    desc = f"{case['lvl']} {op} operands={case.get('ops')}" + (f" code={case['code']} ({case['shape']})" if "code" in case else "") + (f" n={case['n']} abs={case['abs']}" if case["lvl"] == "L1" else "")
    noabs = case["lvl"] == "L1" and not case["abs"]
    ok = True
    if impl.get("singleton_mutated"):
        fl.failing_input(f"after {desc}: the TRUE/FALSE singletons were overwritten (con_val/sym_val)", case,
                         {"op": "HalmosBool.__init__", "class": "singleton-mutated"})
    # --- property: spec vs implementation
    by_design = (op == "SIGNEXTEND" and case["lvl"] == "L2" and st == "halt:NotConcreteError"
                 and case["ops"][0][0] in (1, 3))
    if noabs:
        pass  # abstraction=None is never used by sevm.py: tie only (see `latent`)
    elif st == "timeout":
        fl.failing_input(f"{desc}: no result within {PROMPT_S}s", case, make_sig(case, "not-prompt"))
        ok = False
    elif by_design:
        pass
    elif st != "ok":
        fl.failing_input(f"{desc}: internal exception / abnormal end `{st}` {impl.get('msg', '')}; the EVM defines the result {S[0]}", case,
                         make_sig(case, "exception:" + st.split(":", 1)[-1]))
        ok = False
    elif impl["den"] != S:
        j = next(i for i, (x, y) in enumerate(zip(impl["den"], S)) if x != y)
        fl.failing_input(f"{desc}: result denotes {impl['den'][j]} under valuation {case['vals'][j]}, the EVM result is {S[j]}", case,
                         make_sig(case, "wrong-value"))
        ok = False
    elif not impl.get("rest_ok", True):
        fl.failing_input(f"{desc}: stack discipline: {impl.get('depth')} word(s) on the stack afterwards, expected the result on top of the {case.get('rest', 0)} untouched word(s) below the operands", case,
                         make_sig(case, "stack-discipline"))
        ok = False
    elif impl.get("axioms") and not all(all(row) for row in impl["axioms"]):
        fl.failing_input(f"{desc}: a path constraint added by SEVM.arith is false under a valuation (with the exact definition of the abstraction)", case,
                         make_sig(case, "false-axiom"))
        ok = False
    # --- tie: model vs implementation
    if mod is None or case["lvl"] == "L2p":
        return ok
    mst = mod["st"]
    if mst == "slow":
        # the model does not evaluate x ^ y; the implementation was compared with the spec only
        return ok
    bad = None
    if mst.startswith("model"):
        bad = f"extracted model failed on the case: {mst}"
    elif st == "timeout":
        pass
    elif mst.startswith("exc:"):
        want = mst.split(":", 1)[1]
        got = st.split(":", 1)[-1] if st != "ok" else "ok"
        if got != want:
            bad = f"model predicts {mst}, implementation ended with `{st}`"
        elif noabs:
            latent[f"{op} abs=None {want}"] = latent.get(f"{op} abs=None {want}", 0) + 1
    elif st != "ok":
        bad = f"model predicts a value, implementation ended with `{st}`"
    else:
        if mod["ty"] != impl["ty"]:
            bad = f"result type: model {mod['ty']}, implementation {impl['ty']}"
        elif mod["den"] != impl["den"]:
            j = next(i for i, (x, y) in enumerate(zip(impl["den"], mod["den"])) if x != y)
            bad = f"denotation under valuation {case['vals'][j]}: model {mod['den'][j]}, implementation {impl['den'][j]}"
        elif mod["conc"] and not impl["conc"]:
            bad = "model takes a concrete path (int-backed result), implementation returned a symbolic term"
        elif "axioms" in mod and impl.get("axioms") is not None and len(impl["axioms"][0]) > len(mod["axioms"][0]):
            bad = f"implementation added {len(impl['axioms'][0])} path constraints, model {len(mod['axioms'][0])}"
    if bad:
        fl.broken_tie(f"model and implementation disagree on {desc}: {bad}", case)
        return False
    return ok


def nontrivial(case, B):
    if case["lvl"] == "L2p":
        return True
    if any(k != 0 for k, _ in case["ops"]):
        return True
    return any(v in B for _, v in case["ops"])


def run(rep, tier):
    t_start = time.time()
    b = common.build_property(PID, TRANSLATORS)
    common.standard_obligations(rep, PID, b)
    exe = None
    if b["make_ok"] or True:
        exe, log = common.build_driver(PID)
        rep.obligation("extraction of Model/BitVecModel.v entry points + OCaml driver build", exe is not None, "" if exe else log[-800:])
        if exe is None:
            rep.fail("broken-tie", "extracted model driver does not build: " + log[-400:], case={})
    r = common.rng(PID)
    B = boundary_values()
    Bset = set(B)
    phases = {"build_s": round(time.time() - t_start, 1)}

    # guarded big-exponent EXP runs (F2): started first, collected at the end
    # cheap ones first: with the reduced power every pair costs microseconds; with an unreduced power
    # the child dies in the first expensive pair and the rest is skipped
    rb = common.rng(PID + "/bigexp")
    big = [(3, 1 << 12), (M256, 4097), (3, 1 << 27), (2, 1 << 64), ((1 << 255) + 1, 1 << 255), (M256, M256), (7, 1 << 40), (2, 1 << 30),
           (M256 - 1, M256), ((1 << 128) + 1, (1 << 128) - 1), (5, (1 << 256) - 189)]
    big += [(rb.getrandbits(256) | 1, rb.getrandbits(rb.choice([64, 128, 256]))) for _ in range(12 if tier == "quick" else 60)]
    big += [(rb.getrandbits(256), rb.getrandbits(256)) for _ in range(6 if tier == "quick" else 40)]
    big_proc = start_big_exp(big)
    big_deadline = time.time() + 280.0   # the child ends itself after BIG_EXP_CPU_S CPU seconds

    cases = gen_programs(tier, r, B) + gen_l2(tier, r, B) + gen_l1(tier, r, B)
    if tier == "thorough":
        cases += gen_l1_exhaustive8(r)
    nproc = min(16, os.cpu_count() or 4)
    fl = Failures(rep)
    latent = {}
    slowest = 0.0
    phases["impl_s"] = 0.0
    phases["model_s"] = 0.0
    n_model_checked = 0
    all_crashed = 0
    model = Model(exe) if exe is not None else None
    # batches bounded by the number of valuations, so that the exhaustive tier stays in memory
    batch, rows, batches = [], 0, []
    for c in cases:
        batch.append(c)
        rows += len(c["vals"])
        if rows >= 250000:
            batches.append(batch)
            batch, rows = [], 0
    if batch:
        batches.append(batch)
    del cases
    for batch in batches:
        t1 = time.time()
        impl, crashed = run_pool(batch, nproc)
        phases["impl_s"] = round(phases["impl_s"] + time.time() - t1, 1)
        all_crashed += len(crashed)
        for i in crashed[:3]:
            rep.fail("broken-tie", f"a worker process died while running case {slim(batch[i])} (twice)", case=slim(batch[i]))
        t1 = time.time()
        model_res = None
        if model is not None:
            calls, spans = [], []
            for c in batch:
                cs = model_calls(c)
                spans.append((len(calls), len(cs)))
                calls += cs
            try:
                res = model.parallel_batch(calls, timeout=600 if tier == "quick" else 3000)
                model_res = [model_obs(c, res[s:s + n]) if n else None for c, (s, n) in zip(batch, spans)]
                n_model_checked += len(batch)
            except Exception as e:  # noqa: BLE001
                rep.obligation("extracted model ran on all cases", False, str(e)[:400])
                rep.fail("broken-tie", f"extracted model driver failed: {e}"[:400], case={})
                model = None
            del calls
        phases["model_s"] = round(phases["model_s"] + time.time() - t1, 1)
        for i, c in enumerate(batch):
            lvl = c["lvl"]
            rep.count("level", lvl + (f"/n={c['n']}" if lvl == "L1" else ""))
            rep.count("op", c["op"])
            rep.count("operand_kinds", kinds_str(c) if lvl != "L2p" else "program")
            nv = len(c["vals"])
            key = {"lvl": lvl, "op": c["op"], "ops": c.get("ops"), "code": c.get("code"), "n": c.get("n"), "abs": c.get("abs"),
                   "vals": common.case_hash(c["vals"]) if nv > 4 else c["vals"]}
            rep.evaluations += nv - 1
            rep.case(key, nontrivial=nontrivial(c, Bset))
            slowest = max(slowest, impl[i].get("t", 0))
            if impl[i].get("st") == "worker-crash":
                continue
            judge(fl, c, impl[i], model_res[i] if model_res is not None else None, latent)
        del impl, model_res
    rep.obligation("implementation workers ran every case", not all_crashed, f"{all_crashed} case(s) lost to worker crashes" if all_crashed else "")
    rep.coverage["phase_wall_s"] = phases

    # L0: the pure helper functions against the spec and the generated Gallina (c06_pure)
    try:
        import halmos.bitvec as hb

        pcalls, pwant = [], []
        pvals = sorted(set(B) | set(range(0, 70)))
        for x in pvals:
            got = bool(hb.is_power_of_two(x))
            want = x > 0 and bin(x).count("1") == 1
            rep.case({"pure": "is_power_of_two", "x": x}, nontrivial=True)
            if got != want:
                fl.failing_input(f"is_power_of_two({x}) = {got}, a power of two: {want}", {"lvl": "L0", "op": "is_power_of_two", "ops": [[0, x]], "vals": [[x]]},
                                 {"op": "is_power_of_two", "class": "wrong-value", "level": "L0"})
            pcalls.append(("c06_pure", [0, x]))
            pwant.append(int(got))
            for nb in (8, 256):
                xm = x & ((1 << nb) - 1)
                got = hb.to_signed(xm, nb)
                if got != sgn(xm, nb):
                    fl.failing_input(f"to_signed({xm}, {nb}) = {got}, two's complement value: {sgn(xm, nb)}", {"lvl": "L0", "op": "to_signed", "ops": [[0, xm], [0, nb]], "vals": [[xm, nb]]},
                                     {"op": "to_signed", "class": "wrong-value", "level": "L0"})
                pcalls.append(("c06_pure", [1, xm, nb]))
                pwant.append(got)
        # Python's three-argument pow against the modelled py_pow3 (c06_pure 2)
        rp = common.rng(PID + "/pow3")
        for _ in range(40 if tier == "quick" else 400):
            m_ = rp.choice([1 << 256, 1 << 8, 1 << 264, 1 << 512, rp.getrandbits(64) + 1, 1, 2, 3])
            x_ = rp.choice([0, 1, 2, 3, m_ - 1, m_, m_ + 1, rp.getrandbits(256)])
            e_ = rp.choice([0, 1, 2, 3, 5, 255, 256, 257, rp.getrandbits(16), rp.getrandbits(256)])
            rep.case({"pure": "pow3", "a": x_, "e": e_, "m": m_}, nontrivial=True)
            pcalls.append(("c06_pure", [2, x_, e_, m_]))
            pwant.append(pow(x_, e_, m_))
        rep.count("level", "L0", len(pcalls))
        if exe is not None:
            pres = Model(exe).batch(pcalls)
            for (nm, args), w, g in zip(pcalls, pwant, pres):
                if g is None or g[0] != w:
                    fl.broken_tie(f"generated pure function {args} : model {g}, implementation {w}", {"lvl": "L0", "args": args})
                    break
    except Exception as e:  # noqa: BLE001
        rep.fail("broken-tie", f"pure-function tie crashed: {type(e).__name__}: {e}"[:300], case={})

    # L0: HalmosBool(<value>) - __new__ + __init__ - and the TRUE / FALSE singletons (theorems
    # C06_singletons_preserved / C06_bool_ctor_denotes; model entry c06_boolctor)
    try:
        ctor_cases = bool_ctor_cases()
        cobs = []
        for desc, arg, kind, v, s, want in ctor_cases:
            singleton_repair()
            try:
                o = bool_ctor_observe(arg)
            except Exception as e:  # noqa: BLE001
                o = f"exc:{type(e).__name__}"
            cobs.append(o)
            case = {"lvl": "L0", "op": "HalmosBool", "arg": desc, "ops": [[kind, v]], "vals": [[v, s]]}
            rep.case({"bool_ctor": desc}, nontrivial=True)
            rep.count("op", "HalmosBool(..)")
            if isinstance(o, str):
                fl.failing_input(f"HalmosBool({desc}): internal exception {o}", case, {"op": "HalmosBool.__init__", "class": "exception:" + o.split(":")[-1]})
            elif o[3:] != [2, 0, 1, 0]:
                fl.failing_input(f"HalmosBool({desc}): afterwards the singletons are TRUE(con_val={CON[o[3]]}, sym_val {SYM[o[4]]}) FALSE(con_val={CON[o[5]]}, sym_val {SYM[o[6]]}); "
                                 "they must stay TRUE(True, None) / FALSE(False, None): bool(TRUE), TRUE.is_concrete, int(TRUE) are wrong from now on", case,
                                 {"op": "HalmosBool.__init__", "class": "singleton-mutated"})
            elif want is not None and (o[1], o[2]) != ((2 if want else 1), 0):
                fl.failing_input(f"HalmosBool({desc}): the object returned has con_val={CON[o[1]]}, sym_val {SYM[o[2]]}; the value is the constant {want}", case,
                                 {"op": "HalmosBool.__init__", "class": "wrong-value"})
        singleton_repair()
        rep.count("level", "L0", len(ctor_cases))
        if exe is not None:
            mres = Model(exe).batch([("c06_boolctor", [kind, v, s]) for _, _, kind, v, s, _ in ctor_cases])
            for (desc, _, kind, v, s, _), o, m_ in zip(ctor_cases, cobs, mres):
                if not isinstance(o, str) and m_ != o:
                    fl.broken_tie(f"HalmosBool({desc}): model {m_}, implementation {o}  ([object, con, sym, TRUE.con, TRUE.sym, FALSE.con, FALSE.sym])",
                                  {"lvl": "L0", "op": "HalmosBool", "arg": desc, "ops": [[kind, v]], "vals": [[v, s]]})
    except Exception as e:  # noqa: BLE001
        rep.fail("broken-tie", f"HalmosBool constructor tie crashed: {type(e).__name__}: {e}"[:300], case={})

    # big exponents: real HalmosBitVec.exp in the guarded child vs the spec, the extracted model and
    # the model's work prediction
    big_res = finish_big_exp(big_proc, len(big), big_deadline)
    big_model = None
    if exe is not None:
        try:
            big_model = par_small(Model(exe), [("c06_method", [256, 1, SEBC, METHODS.index("exp"), 0, a, 0, e, 0, 0]) for a, e in big])
        except Exception as e:  # noqa: BLE001
            rep.fail("broken-tie", f"extracted model driver failed on the big-exponent cases: {e}"[:300], case={})
    for i, ((a, e), res) in enumerate(zip(big, big_res)):
        c = {"lvl": "L1", "n": 256, "abs": 1, "op": "exp", "ops": [[0, a], [0, e]], "vals": [[a, e]]}
        rep.case({"big_exp": [a, e]}, nontrivial=True)
        rep.count("op", "exp(big)")
        sig = {"op": "EXP", "class": "not-prompt", "operands": "concrete", "level": "L1-subprocess"}
        want = pow(a, e, 1 << 256)
        mo = big_model[i] if big_model else None
        if res["st"] == "skipped":
            continue
        if res["st"] == "timeout":
            fl.failing_input(f"concrete EXP {a} ** {e}: HalmosBitVec.exp did not return within {BIG_EXP_CPU_S} CPU seconds (killed); EVM result is {want}"
                             + (f"; the regenerated work measure predicts an integer of {mo[1]} bits" if mo and mo[0] == 9 else ""), c, sig)
        elif res["st"] != "ok":
            sig["class"] = "not-prompt" if res["st"] in ("exc:MemoryError", "exc:OverflowError") else "exception:" + res["st"].split(":")[-1]
            fl.failing_input(f"concrete EXP {a} ** {e}: HalmosBitVec.exp ended with {res['st']} (unreduced power does not fit in memory); EVM result is {want}", c, sig)
        elif res["den"][0] != want:
            fl.failing_input(f"concrete EXP {a} ** {e}: result {res['den'][0]}, EVM result {want}", c, {"op": "EXP", "class": "wrong-value", "operands": "concrete", "level": "L1-subprocess"})
        elif res.get("t", 0) > PROMPT_S:
            fl.failing_input(f"concrete EXP {a} ** {e}: took {res['t']}s", c, sig)
        elif mo and mo[0] == 0 and (mo[1] != 0 or mo[2] != res["den"][0]):
            fl.broken_tie(f"concrete EXP {a} ** {e}: model {mo}, implementation {res['den'][0]} (int-backed)", c)

    for kid, h in sorted(fl.known_hits.items()):
        print(f"KNOWN-FINDING: property={PID} {kid}: {h['what']} [{h['count']} case(s), e.g. {json.dumps(h['example'], default=str)[:300]}]")
    rep.coverage["known_findings_local"] = {k: {"count": h["count"], "example": h["example"]} for k, h in fl.known_hits.items()}
    rep.coverage["latent_unreachable_from_sevm"] = latent
    rep.coverage["traces_validated_against_impl"] = n_model_checked
    rep.coverage["slowest_single_call_s"] = slowest
    rep.coverage["exhaustive"] = tier == "thorough"
    if tier == "thorough":
        rep.coverage["exhaustive_note"] = "size=8: for 18 binary methods all 65536 operand pairs with both operands concrete and with both symbolic (valuations of one term), and 48 concrete values (all boundaries) x all 256 valuations in the two mixed representations; all 256 values for not/is_zero, all pairs for exp, addmod/mulmod on 24 moduli"
    return rep.finish(
        checker_cmd="make -C coq Props/C06.vo (coq_makefile, coqc 8.16.1) after regenerating coq/Gen/GenBitvecGuards.v from /repo/src/halmos/bitvec.py",
        trusted_base=common.TRUSTED_BASE_COMMON + ["harness/props/C06.py: zeval (big-int evaluator of halmos' z3 terms with exact f_evm_* definitions) and the Python rendering of Base/Word.v"],
        assumptions=ASSUMPTIONS,
        partial=PARTIAL,
        rule="(plus: L0 pure functions incl. Python's 3-argument pow vs the modelled py_pow3; concrete EXP with large bases/exponents in one address-space- and CPU-limited child process vs spec, model and the model's work prediction) cases = (level, instruction/method, operand representations in {int-backed, term-backed, TRUE/FALSE, symbolic Bool}, operand values, extra valuations of the symbolic operands). L2: one-instruction SEVM.run on a pre-loaded stack for all 25 instructions x all representation mixes; L2p: short real programs; L1: HalmosBitVec methods at sizes 256 and 8 with abstractions on/off. Values from {0,1,2,2^k,2^k+-1,2^255+-1,2^256-1, integer literals of bitvec.py +-1, shift/index set, random words of several shapes}. A case is non-trivial when an operand is not int-backed or a value is a boundary value; distinct by hash of the whole case; each valuation counts as an evaluation.",
    )


def replay(rep, body):
    for f in body.get("failures", []):
        case = f.get("case") or {}
        if "lvl" not in case:
            print("not a case:", f.get("what"))
            continue
        print("case          :", json.dumps(case, default=str)[:600])
        if case.get("op") == "HalmosBool":
            for desc, arg, *_ in bool_ctor_cases():
                if desc == case.get("arg"):
                    singleton_repair()
                    print("implementation: [object, con, sym, TRUE.con, TRUE.sym, FALSE.con, FALSE.sym] =", bool_ctor_observe(arg),
                          " (must end with 2, 0, 1, 0)")
                    singleton_repair()
            continue
        print("implementation:", impl_case(case))
        print("spec          :", spec_obs(case))
    return 0
