"""C16 — the unsat-core cache never changes a verdict.

Obligations: translators T-unsatcore / T-coreids / T-coreappend / T-cacheusers, Props/C16.vo, lint.
Ties (real halmos code vs extracted model vs an independent python rendering of the spec):
  L1  parse_unsat_core, check_unsat_cores, dump, `\\s`;  solve_end_to_end + the real
      _solve_end_to_end_callback driven through scripted solver replies (step correspondence
      from the implementation's own cache state), cache on and off;
  L2  real sevm.Path trees (branch/activate/append/to_smt2) solved by the real z3 binary through
      solve_end_to_end, cache on vs off vs brute-force ground truth, with the id-stability
      monitor (H2) and forced gc between paths;
  L3  (harness/props/C16_e2e.py) python -m halmos on fabricated multi-path tests (assertion, STUCK and normal
      leaves under conditions that are contradictory only after refinement), cache on vs off, with the same
      monitor installed inside the halmos process; in sync mode (the solver answers before the engine goes on)
      every test is replayed in the extracted run_test model (c16_test) on the solver replies the
      implementation saw: outputs, stuck/normal counts, exit code, who skipped the solver, final cache;
      racing projects (two solver workers) are replayed through sched_run (c16_sched) on the schedule
      of path / look-up / callback events the run went through.
      Invariant projects (contract T + target C, --invariant-depth 1): ONE function context fed by several
      independent runs -- the case in which only halmos' own bookkeeping keeps the conditions of a finished run
      alive.  The H2 monitor there also probes z3's id free list: after a forced collection a batch of fresh terms
      is allocated before every query; one of them receiving the id of a condition of an earlier assertion query
      of the function context still running = that id was released and now denotes something else.
"""
import contextlib
import inspect
import io
import json
import os
import re
import shutil
import subprocess
import sys
import tempfile
from multiprocessing import Pool

from harness import common
from harness.common import Model

PID = "C16"
TRANSLATORS = ["T-unsatcore", "T-coreids", "T-coreappend", "T-cacheusers"]
KNOWN = []   # genuine defects of halmos found by this check (none: see the final report)

PARTIAL = (
    "H2 (identifier stability: within one function context a z3 AST id never denotes two different "
    "constraints) is a hypothesis of C16_sound/C16_transparent; it is a property of z3's id allocator and "
    "CPython reference counting that the Coq model cannot express. It is only MONITORED here (L2 on real "
    "Path objects, L3 inside real halmos runs incl. invariant tests whose function context spans several runs, with forced gc "
    "between paths and a probe of z3's id free list before every query); C16_needs_stability_refuted "
    "shows it cannot be dropped. Thread interleavings of the solver pool are covered by the event-history / any-schedule "
    "theorems (C16_sound, C16_transparent_any_state, C16_test_transparent_any_schedule); the L1/L2 ties run queries sequentially "
    "per context, L3 replays in the model the schedule each racing run (two workers) actually went through, as linearised by one "
    "lock held around every look-up and every callback (the instrumentation serialises look-ups against callbacks; it does not "
    "choose the order). "
    "The two semantics of C16_test_sound/_transparent (query as posed vs after refine()) are section variables related "
    "by `every real valuation is an abstract one`; that halmos' refine() implements exactly that relation is C04's subject. "
    "A consumer of the solver whose code has a shape T-cacheusers does not know (anything but solve_low_level / "
    "solve_end_to_end / a check_unsat_cores look-up, combined by if/and/or/not) is reported as a broken translator, not modelled."
)
ASSUMPTIONS = [
    "H1: the external solver's unsat cores are correct (a non-empty core names an unsatisfiable subset of the query -- as posed for the un-refined file, under the real operations for the refined file)",
    "abstraction: a valuation satisfying constraints under the real mul/div/... satisfies them for some interpretation of halmos' f_evm_* symbols",
    "H2: identifier stability within a function context (monitored, not proved)",
    "H3 (only for exact equality of verdicts): the uncached pipeline answers unsat on really unsatisfiable queries (no timeout/error); without it C16_monotone / C16_fail_iff apply",
    "the solver's answer (sat/unsat/unknown) does not depend on the unsat-core instrumentation of the query file (named assertions, :produce-unsat-cores); a solver that times out only on the instrumented file is counted, not flagged (seen once under heavy machine load)",
    "Python's re engine implements the pinned regex as the hand-written matcher does (tied by the correspondence run, incl. all code points for \\s)",
    "the extracted model and driver are faithful to the Coq definitions (extraction is trusted)",
]

SPACE_CODES = [9, 10, 11, 12, 13, 28, 29, 30, 31, 32, 133, 160, 5760] + list(range(8192, 8203)) + [8232, 8233, 8239, 8287, 12288]
DECL = "(declare-fun f_evm_bvudiv_256 ((_ BitVec 256) (_ BitVec 256)) (_ BitVec 256))\n"


# ----------------------------------------------------------------- encodings for the model

def enc_str(s):
    return [len(s)] + [ord(c) for c in s]


def enc_strlist(l):
    out = [len(l)]
    for s in l:
        out += enc_str(s)
    return out


def enc_cores(cs):
    out = [len(cs)]
    for c in cs:
        out += enc_strlist(c)
    return out


def enc_reply(r):
    k = r["kind"]
    if k == "sat":
        return [0 if r["valid"] else 1, r["m"]]
    if k == "unsat":
        return [2] if r.get("core") is None else [3] + enc_strlist(r["core"])
    return [4] if k == "unknown" else [5]


def dec_strs(v, i):
    n = v[i]
    i += 1
    out = []
    for _ in range(n):
        ln = v[i]
        out.append("".join(chr(c) for c in v[i + 1:i + 1 + ln]))
        i += 1 + ln
    return out, i


def dec_reply(v, i):
    k = v[i]
    if k in (0, 1):
        return {"kind": "sat", "valid": k == 0, "m": v[i + 1]}, i + 2
    if k == 2:
        return {"kind": "unsat", "core": None}, i + 1
    if k == 3:
        c, j = dec_strs(v, i + 1)
        return {"kind": "unsat", "core": c}, j
    return {"kind": "unknown" if k == 4 else "err"}, i + 1


def dec_step(v):
    hit = v[0]
    r, i = dec_reply(v, 1)
    n = v[i]
    i += 1
    cores = []
    for _ in range(n):
        c, i = dec_strs(v, i)
        cores.append(c)
    return {"hit": bool(hit), "reply": r, "cores": cores}


# ----------------------------------------------------------------- L1: text of solver replies

def render_reply_text(r, ws0="\n", err=True, seps=None, post="\n"):
    """What a solver prints for reply r (a dict as above; `core_text` overrides the core rendering)."""
    k = r["kind"]
    if k == "sat":
        body = f"((define-fun halmos_x_uint256_00 () (_ BitVec 256) #x{r['m']:064x})"
        if not r["valid"]:
            body += "\n (define-fun f_evm_bvudiv_256 ((x!0 (_ BitVec 256)) (x!1 (_ BitVec 256))) (_ BitVec 256) #x00)"
        return "sat\n" + body + ")\n"
    if k == "unknown":
        return "unknown\n(error \"model is not available\")\n"
    if k == "err":
        return r.get("text", "(error \"line 1: syntax\")\n")
    if "core_text" in r:
        return "unsat" + ws0 + r["core_text"]
    e = "(error \"line 9 column 10: model is not available\")\n" if err else ""
    if r.get("core") is None:
        return "unsat" + ws0 + e   # no (get-unsat-core) answer at all
    names = " ".join(f"<{i}>" for i in r["core"])
    return "unsat" + ws0 + e + "(" + names + ")" + post


# ----------------------------------------------------------------- spec (python, independent of halmos)

def spec_hit(ids, cores):
    s = set(ids)
    return any(all(i in s for i in c) for c in cores)


def lits_sat(lits, nvars=4):
    """lits: list of (var, bool).  satisfiable iff no variable is required both ways."""
    need = {}
    for v, b in lits:
        if need.setdefault(v, b) != b:
            return False
    return True


# ----------------------------------------------------------------- L1: implementation drivers (run in pool workers)

def _quiet():
    devnull = os.open(os.devnull, os.O_WRONLY)
    os.dup2(devnull, 2)
    os.dup2(devnull, 1)


def _t(rep, label, t0=[None]):
    import time

    now = time.time()
    if t0[0] is not None:
        rep.coverage.setdefault("stage_seconds", {})[label] = round(now - t0[0], 1)
    t0[0] = now


def impl_parse_batch(texts):
    from halmos.solve import parse_unsat_core

    out = []
    buf = io.StringIO()
    with contextlib.redirect_stdout(buf), contextlib.redirect_stderr(buf):
        for t in texts:
            try:
                out.append(parse_unsat_core(t))
            except Exception as e:  # noqa: BLE001
                out.append(f"EXC {type(e).__name__}")
    return out


def impl_check_batch(cases):
    from halmos.sevm import SMTQuery
    from halmos.solve import check_unsat_cores

    return [bool(check_unsat_cores(SMTQuery("", list(ids)), [list(c) for c in cores])) for ids, cores in cases]


def impl_dump_batch(cases):
    from pathlib import Path
    from types import SimpleNamespace

    from halmos.solve import dump

    out = []
    with tempfile.TemporaryDirectory() as d:
        f = Path(d) / "q.smt2"
        for smt, ids in cases:
            pc = SimpleNamespace(args=SimpleNamespace(verbose=0, cache_solver=True), query=SimpleNamespace(smtlib=smt, assertions=list(ids)), dump_file=f)
            dump(pc)
            a = f.read_text()
            pc.args.cache_solver = False
            dump(pc)
            out.append((a, f.read_text()))
    return out


_Z3CTX = {}


def _install_future(kind):
    """Process spawning costs ~70 ms in the sandbox and is C17's subject, not C16's: unless kind is
    'binary', halmos.solve.PopenFuture is replaced by a future that produces the solver's stdout without
    a child process -- from the scripted <file>.reply ('script') or by executing the query file with z3's
    own SMT-LIB front end in process ('z3api', what the z3 binary does with the file)."""
    import concurrent.futures

    import halmos.solve as solve

    if not hasattr(solve, "_c16_orig_future"):
        solve._c16_orig_future = solve.PopenFuture
    if kind == "binary":
        solve.PopenFuture = solve._c16_orig_future
        return

    class FileFuture(concurrent.futures.Future):
        def __init__(self, cmd, timeout=None):
            super().__init__()
            self.cmd, self.timeout = cmd, timeout

        def start(self):
            try:
                if kind == "script":
                    with open(self.cmd[-1] + ".reply") as f:
                        out = f.read()
                else:
                    import z3

                    with open(self.cmd[-1]) as f:
                        text = f.read()
                    from z3 import z3core

                    # one z3 context per worker process, reset before every file (creating a context costs
                    # 20 ms on an idle machine but seconds when the sandbox is short of memory)
                    ctx = _Z3CTX.get("ctx")
                    if ctx is None:
                        ctx = _Z3CTX["ctx"] = z3.Context()
                    # the raw entry point: the python wrapper raises when a command prints an (error ...) line
                    raw = z3core.Z3_eval_smtlib2_string.__defaults__[0].f(ctx.ref(), ("(reset)\n" + text).encode())
                    out = raw.decode() if isinstance(raw, bytes) else str(raw)
                self.set_result((out, "", 0))
            except Exception as e:  # noqa: BLE001
                self.set_exception(e)

        def cancel(self):
            return False

    solve.PopenFuture = FileFuture


class Ctx:
    """One real FunctionContext + CounterexampleHandler; the solver is a script, z3's API or a real binary."""

    def __init__(self, cache, fake=True, solver=None):
        _install_future("script" if fake else ("binary" if solver else "z3api"))
        from halmos.__main__ import CounterexampleHandler
        from halmos.calldata import FunctionInfo
        from halmos.config import ConfigSource, default_config
        from halmos.solve import FunctionContext, dirname

        self.dir = tempfile.mkdtemp(prefix="c16_")
        over = dict(cache_solver=cache, dump_smt_directory=self.dir, no_status=True)
        if solver:
            over["solver"] = solver
        if fake:
            fk = os.path.join(self.dir, "fake.sh")
            with open(fk, "w") as f:
                f.write('cat "$1.reply"\n')
            over["solver_command"] = f"sh {fk}"
        self.args = default_config().with_overrides(ConfigSource.command_line, **over)
        self.ctx = FunctionContext(args=self.args, info=FunctionInfo("C", "check_x", "check_x(uint256)", "00000000"), solver=None, contract_ctx=None)
        self.handler = CounterexampleHandler(ctx=self.ctx, is_invariant=False, is_probe=False, flamegraph_enabled=False, potential_flamegraphs={}, submitted_futures=[])
        self.dd = dirname(self.ctx.solving_ctx.dump_dir)

    def cores(self):
        return [list(c) for c in self.ctx.solving_ctx.unsat_cores]

    def step(self, pid, query, replies=None):
        """Runs the real solve_end_to_end and the real callback; returns the observation."""
        from concurrent.futures import Future

        from halmos.solve import PathContext, solve_end_to_end

        if replies is not None:
            with open(os.path.join(self.dd, f"{pid}.smt2.reply"), "w") as f:
                f.write(replies[0])
            with open(os.path.join(self.dd, f"{pid}.refined.smt2.reply"), "w") as f:
                f.write(replies[1])
        pc = PathContext(args=self.args, path_id=pid, solving_ctx=self.ctx.solving_ctx, query=query)
        self.ctx.call_sequences[pid] = ""
        buf = io.StringIO()
        with contextlib.redirect_stdout(buf), contextlib.redirect_stderr(buf):
            out = solve_end_to_end(pc)
            fut = Future()
            fut.set_result(out)
            # the callback as handle_assertion_violation binds it; which of the optional bindings exist is not C16's subject
            cb = self.handler._solve_end_to_end_callback
            params = inspect.signature(cb).parameters
            cb(fut, **{k: v for k, v in dict(ex=None, fun_info=None, path_ctx=pc, description="").items() if k in params})
        solved = os.path.exists(os.path.join(self.dd, f"{pid}.smt2"))
        res = str(out.result)
        r = {"kind": res if res in ("sat", "unsat", "unknown") else "err"}
        if r["kind"] == "sat":
            mv = out.model.model.get("halmos_x_uint256_00") if out.model else None
            r["m"] = mv.value if mv is not None else -1
            r["valid"] = bool(out.model.is_valid)
        if r["kind"] == "unsat":
            r["core"] = None if out.unsat_core is None else list(out.unsat_core)
        return {"hit": not solved, "reply": r, "cores": self.cores(), "counted": [str(o.result) for o in self.ctx.solver_outputs][-1]}

    def close(self):
        with contextlib.suppress(Exception):
            self.ctx.thread_pool.shutdown(wait=False)
        shutil.rmtree(self.dir, ignore_errors=True)


def impl_history(hist):
    """hist = {queries: [{ids, refine, abs, ref}]}.  Runs it with cache on and off."""
    from halmos.sevm import SMTQuery

    out = {}
    for cache in (True, False):
        c = Ctx(cache)
        obs = []
        try:
            for pid, q in enumerate(hist["queries"]):
                before = c.cores()
                smt = "(assert true)\n" + (DECL if q["refine"] else "")
                o = c.step(pid, SMTQuery(smt, list(q["ids"])), (q["abs_text"], q["ref_text"]))
                o["before"] = before
                obs.append(o)
        except Exception as e:  # noqa: BLE001
            obs.append({"exc": f"{type(e).__name__}: {e}"})
        finally:
            c.close()
        out["on" if cache else "off"] = obs
    return out


# ----------------------------------------------------------------- L2: real Path trees + real z3 + monitor

W = 4  # bit width of the two variables (ground truth by enumeration of 256 valuations)


def mk_cond(spec):
    """spec -> (z3 term, python predicate over (x, y)); f_evm_bvudiv_4 is halmos' abstraction of DIV."""
    import z3

    x, y = z3.BitVec("halmos_x_uint256_00", W), z3.BitVec("halmos_y_uint256_00", W)
    bv = z3.BitVecSort(W)
    fdiv = z3.Function(f"f_evm_bvudiv_{W}", bv, bv, bv)
    k, a, b = spec
    M = (1 << W) - 1
    if k == "ult":
        return z3.ULT(x, z3.BitVecVal(a, W)), lambda X, Y: X < a
    if k == "uge":
        return z3.UGE(x, z3.BitVecVal(a, W)), lambda X, Y: X >= a
    if k == "yeq":
        return y == z3.BitVecVal(a, W), lambda X, Y: Y == a
    if k == "yne":
        return y != z3.BitVecVal(a, W), lambda X, Y: Y != a
    if k == "mask":
        return (x & z3.BitVecVal(a, W)) == z3.BitVecVal(b & a, W), lambda X, Y: (X & a) == (b & a)
    if k == "sum":
        return (x + y) == z3.BitVecVal(a, W), lambda X, Y: ((X + Y) & M) == a
    if k == "xy":
        return z3.ULT(x, y), lambda X, Y: X < Y
    if k == "divgt":   # impossible under the real semantics (x / y <= x, x / 0 = 0), feasible for the abstraction
        return z3.UGT(fdiv(x, y), x), lambda X, Y: (0 if Y == 0 else X // Y) > X
    if k == "diveq":
        return fdiv(x, y) == z3.BitVecVal(a, W), lambda X, Y: (0 if Y == 0 else X // Y) == a
    raise ValueError(k)


def impl_tree(case):
    """case = {tree: nested [spec, left, right] | 'leaf', ...}.  Builds the tree with real Path objects
    (branch / activate / append), serialises every leaf with the real Path.to_smt2, solves it with the
    real z3 through solve_end_to_end + callback, cache on and off.  Monitors id -> sexpr."""
    import gc
    import time

    import z3

    from halmos.__main__ import mk_solver
    from halmos.sevm import Path

    res = {"t0": time.time(), "pid": os.getpid(), "c0": sum(os.times()[:4])}
    prof = None
    if os.environ.get("C16_PROFILE"):
        import cProfile

        prof = cProfile.Profile()
        prof.enable()
    for cache in (True, False):
        c = Ctx(cache, fake=False, solver=case.get("solver"))
        seen = {}        # id -> sexpr within this function context
        clashes = []
        leaves = []
        try:
            solver = mk_solver(c.args)
            root = Path(solver)
            pid = [0]

            def leaf(path, preds):
                q = path.to_smt2(c.args)
                conds = list(path.conditions)
                if [str(t.get_id()) for t in conds] != list(q.assertions):
                    clashes.append({"kind": "ids-differ-from-conditions", "leaf": pid[0]})
                for t in conds:
                    i, s = str(t.get_id()), t.sexpr()
                    if seen.setdefault(i, s) != s:
                        clashes.append({"kind": "id-reused", "id": i, "first": seen[i][:200], "now": s[:200], "leaf": pid[0]})
                del conds
                truth = any(all(p(X, Y) for p in preds) for X in range(1 << W) for Y in range(1 << W))
                o = c.step(pid[0], q)
                leaves.append({"hit": o["hit"], "result": o["reply"]["kind"], "valid": o["reply"].get("valid"), "truth_sat": truth, "n_conds": len(q.assertions), "cores": len(o["cores"])})
                pid[0] += 1

            def explore(path, node, preds):
                if node == "leaf":
                    leaf(path, preds)
                    return
                spec, left, right = node
                t, p = mk_cond(tuple(spec))
                kids = [(path.branch(t), left, p), (path.branch(z3.Not(t)), right, (lambda X, Y, p=p: not p(X, Y)))]
                del t
                for k in (1, 0):     # LIFO, as the worklist of SEVM.run does (solver scopes are a stack)
                    child, sub, pp = kids[k]
                    kids[k] = None
                    child.activate()
                    explore(child, sub, preds + [pp])
                    del child
                    gc.collect()     # release the finished path before the next one is built

            explore(root, case["tree"], [])
        except Exception as e:  # noqa: BLE001
            import traceback

            leaves.append({"exc": f"{type(e).__name__}: {e}", "tb": traceback.format_exc()[-600:]})
        finally:
            c.close()
        res["on" if cache else "off"] = {"leaves": leaves, "clashes": clashes, "ids": len(seen)}
    if prof is not None:
        import pstats

        prof.disable()
        sio = io.StringIO()
        pstats.Stats(prof, stream=sio).sort_stats("tottime").print_stats(8)
        res["profile"] = sio.getvalue()[-1800:]
    res["t1"] = time.time()
    res["cpu"] = round(sum(os.times()[:4]) - res["c0"], 1)
    return res


# ----------------------------------------------------------------- generators

def gen_parse_cases(r, tier):
    """(text, expected) with expected = list of ids | None | 'any' (tie only)."""
    cases = []
    ws_pool = ["", " ", "\n", "\t", "  ", "\r\n", "\x0b", "\x0c", "\x1c", "\x1f", "\x85", "\xa0", " ", "　", " \n "]
    sep_pool = [" ", "\n", "\t", "  ", " \n", "\xa0", " "]

    def rid():
        k = r.choice([1, 1, 2, 3, 5, 8, 20])
        return "".join(r.choice("0123456789") for _ in range(k))

    def errline():
        msg = r.choice(['"line 9 column 10: model is not available"', '"x"', "", '"the context is unsatisfiable"', '"unsat <1>"', "model\tis not (available"])
        return "(" + r.choice(["", " ", "\n"]) + "error" + r.choice(ws_pool[1:]) + msg + ")" + r.choice(ws_pool)

    n = 300 if tier == "quick" else 2000
    for _ in range(n):
        ids = [rid() for _ in range(r.choice([0, 1, 1, 2, 3, 4, 7, 12]))]
        names = ""
        for k, i in enumerate(ids):
            last = k == len(ids) - 1
            names += "<" + i + ">" + (r.choice(sep_pool + [""]) if last else r.choice(sep_pool))
        text = "unsat" + r.choice(ws_pool) + (errline() if r.random() < 0.6 else "") + "(" + r.choice(ws_pool) + names + ")" + r.choice(["", "\n", "\n(extra)", " <9>)"])
        cases.append((text, ids, "wellformed"))
    # malformed by construction
    bad = [
        "", "unsat", "unsat\n", "sat\n(<1>)", "unsat\n(<1> <2>", "unsat\n<1> <2>)", "unsat\n(<1> <a>)", "unsat\n(<1> 2)",
        "unsat\n(<> <2>)", "unsat\n(<1 <2>)", "unsat\n(<1>> <2>)", "unsat\n(error \"a) b\")\n(<1>)", "unsat\n(error)\n(<1>)",
        "unsat\n(errorx y)\n(<1>)", "unsat x (<1>)", "unsat\n(<1>,<2>)", "unsat\n(< 1>)", "unsat\n(<1 >)", "unsa t\n(<1>)",
        "UNSAT\n(<1>)", "unsat\n[<1>]", "unsat\n(<١>)", "unsat\n(<1>\x00)", "unsat\n(a1 a2)", "unsat\n(|1| |2|)",
    ]
    for t in bad:
        cases.append((t, None, "malformed"))
    # the recogniser's quirks (tie only + adjacency expectation from the refuted theorem)
    cases.append(("unsat(<12><13>)", ["1213"], "adjacent"))
    cases.append(("unsat\n(<12><13> <7>)", ["1213", "7"], "adjacent"))
    cases.append(("foo unsat bar unsat\n(<5>)", ["5"], "second-occurrence"))
    # an error message quoting a core-like text: the leftmost-match search picks the quoted one (tie only)
    cases.append(("unsat\n(error \"unsat (<3>)\")\n(<4>)", "any", "error-mentions-core"))
    cases.append(("unsat\n(error \"a) unsat (<3>)", "any", "error-mentions-core"))
    # random mutations of well-formed replies: model vs implementation only
    alphabet = list("unsat()<>0123456789 \n\t\"erro") + ["\xa0", " ", "x", "|"]
    base = [c[0] for c in cases if c[2] == "wellformed"][: (200 if tier == "quick" else 1500)]
    for t in base:
        s = list(t)
        for _ in range(r.choice([1, 1, 2, 3])):
            op = r.choice("dir")
            pos = r.randrange(len(s) + 1)
            if op == "d" and s:
                del s[min(pos, len(s) - 1)]
            elif op == "i":
                s.insert(pos, r.choice(alphabet))
            elif s:
                s[min(pos, len(s) - 1)] = r.choice(alphabet)
        cases.append(("".join(s), "any", "mutated"))
    return cases


def gen_check_cases(r, tier):
    n = 400 if tier == "quick" else 3000
    pool = [str(i) for i in range(1, 14)] + ["07", "7 ", "12345678901234567890"]
    cases = []
    for _ in range(n):
        ids = r.sample(pool, r.randint(0, 8))
        if r.random() < 0.2:
            ids += [r.choice(ids)] if ids else []
        cores = []
        for _ in range(r.choice([0, 1, 1, 2, 3, 6])):
            if ids and r.random() < 0.5:
                c = r.sample(ids, r.randint(1, len(ids)))
                if r.random() < 0.3:
                    c[r.randrange(len(c))] = r.choice(pool)
            else:
                c = r.sample(pool, r.randint(0, 4))
            cores.append(c)
        cases.append((ids, cores))
    return cases


def gen_histories(r, tier):
    """Scripted histories.  family 'truthful': ids denote literals (stable), the scripted solver tells the
    truth with a correct core (possibly rendered oddly / empty / missing); 'adversarial': arbitrary replies
    (tie only); 'unstable': an id is re-used for another literal (the refuted theorem's scenario)."""
    hs = []
    n = 80 if tier == "quick" else 500
    for h in range(n):
        fam = r.choice(["truthful"] * 5 + ["adversarial"] * 2 + ["unstable"])
        nv = 4
        den = {}
        pool = [str(i) for i in r.sample(range(2, 60), 12)]
        for i in pool:
            den[i] = (r.randrange(nv), r.random() < 0.5)
        qs = []
        for k in range(r.randint(2, 8)):
            ids = r.sample(pool, r.randint(1, 6))
            lits = [den[i] for i in ids]
            if fam == "unstable" and k >= 1 and r.random() < 0.7:
                j = r.randrange(len(ids))
                lits[j] = (r.randrange(nv), r.random() < 0.5)   # same id, another constraint
            q = {"ids": ids, "lits": lits, "refine": r.random() < 0.5}
            truth = lits_sat(lits)

            def unsat_reply():
                # a correct core: two contradicting literals (+ padding)
                for a in range(len(ids)):
                    for b in range(len(ids)):
                        if lits[a][0] == lits[b][0] and lits[a][1] != lits[b][1]:
                            core = [ids[a], ids[b]] + [i for i in ids if r.random() < 0.2 and i not in (ids[a], ids[b])]
                            r.shuffle(core)
                            return core
                return None

            if fam == "adversarial":
                def rnd():
                    k = r.choice(["sat", "sat", "unsat", "unsat", "unsat", "unknown", "err"])
                    if k == "sat":
                        return {"kind": "sat", "valid": r.random() < 0.6, "m": r.randrange(1 << 16)}
                    if k == "unsat":
                        c = r.choice([None, [], r.sample(ids, r.randint(1, len(ids))), r.sample(pool, r.randint(1, 3))])
                        return {"kind": "unsat", "core": c}
                    return {"kind": k}
                q["abs"], q["ref"] = rnd(), rnd()
            else:
                if truth:
                    valid = r.random() < 0.6
                    q["abs"] = {"kind": "sat", "valid": valid, "m": r.randrange(1 << 16)}
                    q["ref"] = {"kind": "sat", "valid": r.random() < 0.8, "m": r.randrange(1 << 16)}
                else:
                    core = unsat_reply()
                    style = r.choice(["core", "core", "core", "empty", "missing", "abstract-sat"])
                    u = {"kind": "unsat", "core": core if style in ("core", "abstract-sat") else ([] if style == "empty" else None)}
                    if style == "abstract-sat":   # only the refined query is unsat
                        q["abs"] = {"kind": "sat", "valid": False, "m": r.randrange(1 << 16)}
                        q["ref"] = u
                        q["refine"] = True
                    else:
                        q["abs"], q["ref"] = u, u
            for key in ("abs", "ref"):
                rr = q[key]
                kw = {}
                if rr["kind"] == "unsat":
                    kw = dict(ws0=r.choice(["\n", "\n", "\n\n", "\n  "]), err=r.random() < 0.7, post=r.choice(["\n", "", "\n\n"]))
                q[key + "_text"] = render_reply_text(rr, **kw)
            qs.append(q)
        hs.append({"family": fam, "queries": qs})
    # corpus: the witness of C16_needs_stability_refuted, literally
    hs.insert(0, {"family": "unstable", "queries": [
        {"ids": ["1", "2"], "lits": [(0, True), (0, False)], "refine": False, "abs": {"kind": "unsat", "core": ["1", "2"]}, "ref": {"kind": "unsat", "core": ["1", "2"]},
         "abs_text": "unsat\n(<1> <2>)\n", "ref_text": "unsat\n(<1> <2>)\n"},
        {"ids": ["1", "2"], "lits": [(0, True), (1, False)], "refine": False, "abs": {"kind": "sat", "valid": True, "m": 5}, "ref": {"kind": "sat", "valid": True, "m": 5},
         "abs_text": render_reply_text({"kind": "sat", "valid": True, "m": 5}), "ref_text": render_reply_text({"kind": "sat", "valid": True, "m": 5})},
    ]})
    return hs


def gen_trees(r, tier):
    n = 10 if tier == "quick" else 64
    kinds = ["ult", "uge", "yeq", "yne", "mask", "sum", "xy", "divgt", "diveq"]
    out = []

    def tree(d):
        if d == 0 or (d < 3 and r.random() < 0.15):
            return "leaf"
        k = r.choice(kinds)
        return [[k, r.randrange(1 << W), r.randrange(1 << W)], tree(d - 1), tree(d - 1)]

    for _ in range(n):
        # one tree in eight goes through the real yices-smt2 binary (halmos' default solver; /usr/bin/z3 needs 1.8 s per query here), the others through z3's API
        out.append({"tree": tree(r.choice([3, 4, 4] if tier == "quick" else [4, 5, 5, 6])), "solver": ("yices" if len(out) % 8 == 3 else None)})
        if out[-1]["solver"] and tier == "quick":
            out[-1]["tree"] = tree(3)
    return out


# ----------------------------------------------------------------- the check

def model_reply_of_text(parse_model_out, rr):
    """What `low` yields for a scripted reply text, given the model's own parse of that text:
    from_result looks at the first line, then parse_unsat_core."""
    if rr["kind"] != "unsat":
        return rr
    return {"kind": "unsat", "core": parse_model_out}


def run(rep, tier):
    b = common.build_property(PID, TRANSLATORS)
    common.standard_obligations(rep, PID, b)
    exe = None
    if b["make_ok"]:
        exe, log = common.build_driver(PID)
        rep.obligation("extraction of Model/CacheModel.v entry points + OCaml driver build", exe is not None, "" if exe else log[-800:])
        if exe is None:
            rep.fail("broken-tie", "extracted model driver does not build: " + log[-400:], case={})
    m = Model(exe) if exe else None
    r = common.rng(PID)
    nfail = {}

    def fail(kind, what, case, **kw):
        # at most 12 reports per kind: a flood of broken-tie reports of one stage must not hide a failing input of a later one
        nfail[kind] = nfail.get(kind, 0) + 1
        if nfail[kind] <= 12:
            rep.fail(kind, what, case=case, **kw)

    pool = Pool(min(8 if tier == "quick" else 16, os.cpu_count() or 4), initializer=_quiet)
    try:
        _t(rep, "build")
        # ---- white space: every code point
        py_space = sorted({ord(c) for c in re.findall(r"\s", "".join(chr(i) for i in range(0x110000) if not 0xD800 <= i < 0xE000))})
        split_space = sorted(i for i in range(0x110000) if not 0xD800 <= i < 0xE000 and not ("a" + chr(i) + "b").split() == ["a" + chr(i) + "b"])
        rep.case({"kind": "space", "codes": py_space}, nontrivial=True)
        rep.count("case_kind", "space")
        if py_space != SPACE_CODES or split_space != SPACE_CODES:
            fail("broken-tie", f"python's \\s / str.split() white space is {py_space} / {split_space}, the spec lists {SPACE_CODES}", {"kind": "space"})
        if m:
            probe = list(range(0, 0x3100)) + [0xFEFF, 0x1FFFF, 0x10FFFF]
            got = m.batch([("c16_isspace", probe)])[0]
            mod_space = [c for c, v in zip(probe, got) if v]
            if mod_space != SPACE_CODES:
                fail("broken-tie", f"model is_space accepts {mod_space}", {"kind": "space"})

        _t(rep, "space")
        # ---- parse_unsat_core
        pcs = gen_parse_cases(r, tier)
        texts = [c[0] for c in pcs]
        chunks = [texts[i::16] for i in range(16)]
        parts = pool.map(impl_parse_batch, chunks)
        impl = [None] * len(texts)
        for k, part in enumerate(parts):
            impl[k::16] = part
        mod = m.parallel_batch([("c16_parse", [ord(ch) for ch in t]) for t in texts]) if m else None
        for i, (t, exp, fam) in enumerate(pcs):
            rep.count("case_kind", "parse:" + fam)
            rep.case({"kind": "parse", "text": t}, nontrivial=fam != "malformed" or len(t) > 6)
            if exp != "any" and impl[i] != exp:
                fail("failing-input" if fam in ("wellformed", "malformed") else "broken-tie",
                     f"parse_unsat_core({t!r}) = {impl[i]!r}, the reply lists {exp!r}", {"kind": "parse", "text": t, "implementation": impl[i], "spec": exp},
                     sig={"observable": "parse_unsat_core", "family": fam})
                continue
            if mod is not None:
                mv = mod[i]
                mo = None if mv is None or mv[0] == 0 else dec_strs(mv, 1)[0]
                if mv is None or mo != impl[i]:
                    fail("broken-tie", f"parse_unsat_core({t!r}): implementation {impl[i]!r}, model {mo!r}", {"kind": "parse", "text": t, "implementation": impl[i], "model": mo})

        _t(rep, "parse")
        # ---- check_unsat_cores
        ccs = gen_check_cases(r, tier)
        impl = pool.apply(impl_check_batch, (ccs,))
        mod = m.parallel_batch([("c16_check", enc_strlist(ids) + enc_cores(cores)) for ids, cores in ccs]) if m else None
        for i, (ids, cores) in enumerate(ccs):
            sp = spec_hit(ids, cores)
            rep.count("case_kind", "check:" + ("hit" if sp else "miss"))
            rep.case({"kind": "check", "ids": ids, "cores": cores}, nontrivial=bool(cores))
            if impl[i] != sp:
                fail("failing-input", f"check_unsat_cores(ids={ids}, cores={cores}) = {impl[i]}, containment says {sp}", {"kind": "check", "ids": ids, "cores": cores}, sig={"observable": "check_unsat_cores"})
            elif mod is not None and (mod[i] is None or bool(mod[i][0]) != impl[i]):
                fail("broken-tie", f"check_unsat_cores(ids={ids}, cores={cores}): implementation {impl[i]}, model {mod[i]}", {"kind": "check", "ids": ids, "cores": cores})

        # ---- dump
        dcs = [("(declare-fun x () Bool)\n(assert (=> |5| x))\n" * r.randint(0, 2) + r.choice(["", "; c\n"]), [str(r.randrange(1, 10 ** r.randint(1, 7))) for _ in range(r.randint(0, 5))]) for _ in range(60 if tier == "quick" else 300)]
        impl = pool.apply(impl_dump_batch, (dcs,))
        mod = m.parallel_batch([("c16_dump", [len(smt)] + [ord(c) for c in smt] + enc_strlist(ids)) for smt, ids in dcs]) if m else None
        for i, (smt, ids) in enumerate(dcs):
            on, off = impl[i]
            rep.count("case_kind", "dump")
            rep.case({"kind": "dump", "ids": ids, "smt": smt}, nontrivial=bool(ids))
            lines = on.split("\n")
            ok = (lines[0] == "(set-option :produce-unsat-cores true)" and all(f"(assert (! |{i_}| :named <{i_}>))" in lines for i_ in ids)
                  and on.count(":named") == len(ids) and lines.index("(check-sat)") > max([lines.index(f"(assert (! |{i_}| :named <{i_}>))") for i_ in ids] + [0])
                  and "(get-unsat-core)" in lines[lines.index("(check-sat)"):] and smt in on and ":named" not in off and "(check-sat)" in off and smt in off)
            if not ok:
                fail("failing-input", f"dump() with ids {ids}: the cache-mode file does not name every assertion <id> / request the core: {on[-300:]!r}", {"kind": "dump", "ids": ids, "smt": smt, "file": on}, sig={"observable": "dump"})
            elif mod is not None and (mod[i] is None or "".join(chr(c) for c in mod[i]) != on):
                fail("broken-tie", f"dump() with ids {ids}: implementation and model differ", {"kind": "dump", "ids": ids, "smt": smt, "file": on, "model": None if mod[i] is None else "".join(chr(c) for c in mod[i])})

        _t(rep, "check+dump")
        # ---- scripted histories through the real solve_end_to_end + callback
        hs = gen_histories(r, tier)
        impl = pool.map(impl_history, hs, chunksize=4)
        # model: parse each reply text, then one c16_step per (history, mode, query) from the implementation's state
        calls, index = [], []
        if m:
            ptexts = []
            for h in hs:
                for q in h["queries"]:
                    ptexts += [q["abs_text"], q["ref_text"]]
            pres = m.parallel_batch([("c16_parse", [ord(ch) for ch in t]) for t in ptexts])
            pit = iter(pres)
            for hi, h in enumerate(hs):
                for q in h["queries"]:
                    for key in ("abs", "ref"):
                        pv = next(pit)
                        q["m" + key] = model_reply_of_text(None if pv is None or pv[0] == 0 else dec_strs(pv, 1)[0], q[key])
                for mode in ("on", "off"):
                    for qi, q in enumerate(h["queries"]):
                        obs = impl[hi][mode]
                        if qi >= len(obs) or "exc" in obs[qi]:
                            continue
                        calls.append(("c16_step", [1 if mode == "on" else 0, 1 if q["refine"] else 0] + enc_cores(obs[qi]["before"]) + enc_strlist(q["ids"]) + enc_reply(q["mabs"]) + enc_reply(q["mref"])))
                        index.append((hi, mode, qi))
            mres = dict(zip(index, m.parallel_batch(calls))) if calls else {}   # no call: every history raised (reported below)
        refuted_replayed = False
        for hi, h in enumerate(hs):
            fam = h["family"]
            on, off = impl[hi]["on"], impl[hi]["off"]
            hits = sum(1 for o in on if o.get("hit"))
            rep.count("case_kind", "history:" + fam)
            rep.count("history_hits", min(hits, 3))
            rep.case({"kind": "history", "family": fam, "queries": [{k: q[k] for k in ("ids", "lits", "refine", "abs_text", "ref_text")} for q in h["queries"]]}, nontrivial=hits > 0)
            bad = [o for o in on + off if "exc" in o]
            if bad:
                fail("broken-tie", f"history {hi} ({fam}): the implementation raised {bad[0]['exc']}", {"kind": "history", "history": h})
                continue
            # spec vs implementation (truthful, stable histories): every hit is on an unsatisfiable query,
            # outputs with cache == outputs without, nothing but unsat/sat as scripted
            if fam == "truthful":
                for qi, q in enumerate(h["queries"]):
                    truth = lits_sat(q["lits"])
                    a, b_ = on[qi], off[qi]
                    if a["hit"] and truth:
                        fail("failing-input", f"cache hit on a SATISFIABLE query: history {[(x['ids'], x['lits']) for x in h['queries'][:qi + 1]]}, cores {a['before']}",
                             {"kind": "history", "history": h, "query": qi}, sig={"observable": "cache-hit-on-sat"})
                        break
                    sa = dict(a["reply"], core=None) if a["reply"]["kind"] == "unsat" else a["reply"]
                    sb = dict(b_["reply"], core=None) if b_["reply"]["kind"] == "unsat" else b_["reply"]
                    if sa != sb:
                        fail("failing-input", f"output with cache {sa} differs from output without cache {sb} on query {qi} of {[(x['ids'], x['lits']) for x in h['queries']]}",
                             {"kind": "history", "history": h, "query": qi}, sig={"observable": "on-vs-off"})
                        break
                    if b_["hit"] or b_["cores"]:
                        fail("failing-input", f"cache used although cache_solver is off (query {qi})", {"kind": "history", "history": h, "query": qi}, sig={"observable": "cache-when-off"})
                        break
                    if [] in a["cores"]:
                        fail("failing-input", f"an empty core was stored (query {qi})", {"kind": "history", "history": h, "query": qi}, sig={"observable": "empty-core"})
                        break
            if fam == "unstable" and any(o["hit"] and lits_sat(q["lits"]) for o, q in zip(on, h["queries"])):
                refuted_replayed = True
            # model vs implementation, step by step
            if m:
                for mode, obs in (("on", on), ("off", off)):
                    for qi, o in enumerate(obs):
                        mv = mres.get((hi, mode, qi))
                        mo = dec_step(mv) if mv else None
                        io_ = {"hit": o["hit"], "reply": o["reply"], "cores": o["cores"]}
                        if mo != io_:
                            fail("broken-tie", f"solve_end_to_end/callback step differs (history {hi} {fam}, cache {mode}, query {qi}, cores before {o['before']}): implementation {io_}, model {mo}",
                                 {"kind": "history", "history": h, "mode": mode, "query": qi, "implementation": io_, "model": mo})
                            break
                        want = {"sat": "sat", "unsat": "unsat", "unknown": "unknown", "err": "err"}[o["reply"]["kind"]]
                        if o["counted"] != want:
                            fail("broken-tie", f"solver_outputs counts {o['counted']} for a {want} output", {"kind": "history", "history": h})
        rep.coverage["refuted_witness_replayed_on_implementation"] = refuted_replayed
        if not refuted_replayed:
            fail("broken-tie", "the witness of C16_needs_stability_refuted (re-used id) no longer makes the real code answer a satisfiable query unsat", {"kind": "history", "history": hs[0]})

        _t(rep, "histories")
        # ---- L2: real Path trees, real z3, monitor
        ts = gen_trees(r, tier)
        impl = pool.map(impl_tree, ts, chunksize=1)
        tot_hits = tot_leaves = tot_ids = 0
        for ti, (t, o) in enumerate(zip(ts, impl)):
            on, off = o["on"], o["off"]
            hits = sum(1 for l in on["leaves"] if l.get("hit"))
            tot_hits += hits
            tot_leaves += len(on["leaves"])
            tot_ids += on["ids"]
            rep.count("case_kind", "tree")
            rep.count("tree_hits", min(hits, 5))
            rep.case({"kind": "tree", "tree": t["tree"]}, nontrivial=hits > 0)
            exc = [l for l in on["leaves"] + off["leaves"] if "exc" in l]
            if exc:
                fail("broken-tie", f"tree {ti}: driving Path/solve_end_to_end raised {exc[0]['exc']} {exc[0].get('tb', '')}", {"kind": "tree", "tree": t["tree"]})
                continue
            for mode in (on, off):
                for cl in mode["clashes"]:
                    fail("failing-input", f"H2 broken on real Path objects: {cl}", {"kind": "tree", "tree": t["tree"], "clash": cl}, sig={"observable": "id-stability", "clash": cl["kind"]})
            for li, (a, b_) in enumerate(zip(on["leaves"], off["leaves"])):
                if a["hit"] and a["truth_sat"]:
                    fail("failing-input", f"tree {ti} leaf {li}: cache hit on a satisfiable path", {"kind": "tree", "tree": t["tree"], "leaf": li}, sig={"observable": "cache-hit-on-sat"})
                if (a["result"], a["valid"]) != (b_["result"], b_["valid"]):
                    fail("failing-input", f"tree {ti} leaf {li}: result with cache {a['result']}/{a['valid']} != without {b_['result']}/{b_['valid']}", {"kind": "tree", "tree": t["tree"], "leaf": li}, sig={"observable": "on-vs-off"})
                if b_["result"] not in ("sat", "unsat") or (b_["result"] == "sat") != b_["truth_sat"]:
                    fail("broken-tie", f"tree {ti} leaf {li}: z3 says {b_['result']}, enumeration says sat={b_['truth_sat']}", {"kind": "tree", "tree": t["tree"], "leaf": li})
            if len(on["leaves"]) != len(off["leaves"]):
                fail("broken-tie", f"tree {ti}: different number of leaves on/off", {"kind": "tree", "tree": t["tree"]})
        if os.environ.get("C16_PROFILE"):
            rep.coverage["L2_profile"] = max(impl, key=lambda o: o["cpu"]).get("profile")
        tbase = min(o["t0"] for o in impl)
        rep.coverage["L2_tree_schedule"] = [(o["pid"], round(o["t0"] - tbase, 1), round(o["t1"] - tbase, 1), o["cpu"], t.get("solver")) for t, o in zip(ts, impl)]
        rep.coverage["L2_paths"] = tot_leaves
        rep.coverage["L2_cache_hits"] = tot_hits
        rep.coverage["L2_ids_monitored"] = tot_ids
        if tot_hits == 0:
            fail("broken-tie", "no cache hit at all in the L2 runs (generator or cache wiring broken)", {"kind": "tree"})
        _t(rep, "trees")
    finally:
        pool.terminate()

    # ---- L3: python -m halmos on fabricated tests, cache on vs off, monitor inside
    from harness.props import C16_e2e

    if os.environ.get("C16_SKIP_E2E"):          # developer knob (mutation campaigns); never set by bin/check
        rep.coverage["L3_skipped"] = True
    else:
        C16_e2e.run_e2e(rep, tier, r, fail, m)
    _t(rep, "e2e")

    rep.coverage["traces_validated_against_impl"] = rep.evaluations
    return rep.finish(
        checker_cmd="make -C coq Props/C16.vo (coq_makefile, coqc 8.16.1) after regenerating coq/Gen/{GenUnsatCore,GenCoreIds,GenCoreAppend,GenCacheUsers}.v from /repo/src/halmos/{solve,sevm,__main__}.py",
        trusted_base=common.TRUSTED_BASE_COMMON + ["the real z3 binary as truthful solver in the L2/L3 ties (cross-checked against enumeration in L2)", "sh + a one-line script as scripted solver in the L1 history tie"],
        assumptions=ASSUMPTIONS,
        partial=PARTIAL,
        rule="cases: (space) every Unicode code point against \\s and str.split; (parse) solver replies: generated well-formed replies with Unicode white space / optional error line / 0-12 ids, malformed-by-construction replies, single-character mutations (model vs implementation only); (check) random id lists and core lists; (dump) query files; (history) 2-8 queries per function context over a pool of ids denoting literals, scripted solver replies (truthful with correct/empty/missing/odd cores; adversarial; id-reusing), run through the real solve_end_to_end and the real callback with cache on and off, compared step by step with the model from the implementation's own cache state and with the truth table; (tree) random condition trees built with real Path.branch/activate, every leaf serialised by Path.to_smt2 and solved by real z3, gc.collect() between paths, id->sexpr monitor; (e2e) halmos runs on fabricated bytecode projects with cache on and off: a hand-made corpus plus random projects of decision trees over three uint256 arguments whose leaves panic, get STUCK (jump to a symbolic destination) or stop; most trees contain a gadget -- a conjunction contradictory under the real mul/div and satisfiable for the uninterpreted abstraction -- above a subtree over the third argument, so that the same stored core is met again by later assertion and stuck paths in both exploration orders; sync projects (solver answers before the next path) are replayed test by test in the extracted run_test model, one project lets two solver workers race the engine and each other and is replayed through the model's sched_run on the logged schedule of path / look-up / callback events; invariant projects (test contract + target contract with one setter per tree, depth 1) make one function context span several independent runs, half of them without stuck leaves (a stuck path pins its conditions until the verdict), with the id monitor and the free-list probe on. A history/tree/e2e case is non-trivial when at least one query is answered from the cache; parse cases unless trivially short; distinct by hash of the case",
    )


def replay(rep, body):
    for f in body.get("failures", []):
        case = f.get("case") or {}
        print("failure:", f.get("what", "")[:400])
        if case.get("kind") == "parse":
            print("  implementation:", impl_parse_batch([case["text"]])[0])
        elif case.get("kind") == "check":
            print("  implementation:", impl_check_batch([(case["ids"], case["cores"])])[0], " spec:", spec_hit(case["ids"], case["cores"]))
        elif case.get("kind") == "history" and "history" in case:
            o = impl_history(case["history"])
            for mode in ("on", "off"):
                print("  cache", mode, [(x.get("hit"), x.get("reply")) for x in o[mode]])
        elif case.get("kind") == "e2e" and "trees" in case:
            from harness.props import C16_e2e

            C16_e2e.replay_case(case)
        elif case.get("kind") == "tree" and "tree" in case:
            o = impl_tree({"tree": case["tree"]})
            print("  on :", o["on"])
            print("  off:", o["off"])
    return 0
