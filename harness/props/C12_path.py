"""C12 helper -- several calldata in ONE path.

A path does not hold one calldata: setUp's calldata, then the test's (or one per invariant
transaction, each Path extending the previous one), and svm.createCalldata registers one calldata
per function of the target contract in a loop -- all in the same Concretization, which Path.branch /
Path.extend_path copy along.  "Every configured length candidate is explored" must hold for every
one of them, whatever was registered, copied or fixed before and after.

A *session* is a list of function signatures, one length configuration and
  mode "path":  a script of events run on real objects --
                  cd i     mk_calldata(f_i, args, new_symbol_id) ; path.process_dyn_params(dyn_params)
                  extend   p = Path(mk_solver(args)) ; p.extend_path(path)
                  branch   path = path.branch(<fresh boolean>) ; path.activate()
                  fix j c  path = path.branch(size symbol j == its candidate c) ; path.activate()
                           (what calldataload's own branching does to the path)
                  skip n   n other symbols are created
                then the real SEVM.calldataload on every word of every registered calldata
                (fake Exec; the path is the real Path, branches are made by the real Path.branch);
  mode "cheat": the real cheatcodes.create_calldata_generic on a hand-made build output with these
                functions (some view), then for every produced calldata a real SEVM run of
                PUSH4 <offset> CALLDATALOAD STOP at the length word of each dynamic parameter, on a
                path extending the cheatcode caller's.
Both are compared with the specification (one successor per configured candidate, condition
symbol == candidate, candidate pushed; the constant once fixed) and with the extracted Coq model
of the path (Model/AbiEncModel.v: prun / calldataload, entry c12_path).
"""
import re

UID_RE = re.compile(r"^(p_.*)_([0-9a-f]{7})_([0-9 ]*)$", re.S)
SELECTORS = ["a1b2c3d4", "0e5c011e", "d45754f8", "00000001", "ffffffff", "12345678"]


def _c12():
    from harness.props import C12

    return C12


# ================================================================= generation

def gen_session(r, tier, force_mode=None):
    c12 = _c12()
    nf = r.choice([1, 2, 2, 2, 3, 3, 4])
    funs = []
    for _ in range(nf):
        for _try in range(20):
            depth = r.choice([1, 1, 2, 2, 3])
            budget = [r.choice([2, 4, 6])]
            n = r.choice([0, 1, 1, 2, 2, 3])
            comps = [(r.choice(c12.NAMES), c12.gen_type(r, depth - 1, budget)) for _ in range(n)]
            if r.random() < 0.7:
                comps.insert(r.randrange(len(comps) + 1), r.choice([("data", ("base", "bytes")), ("xs", ("dyn", ("base", "uint256"))),
                                                                     ("s", ("base", "string")), ("x", ("dyn", ("base", "bytes")))]))
            top = ("tuple", comps)
            if c12.est_items(top, {"lengths": {}, "array": [3], "bytes": [0]}) <= 60:
                break
        else:
            top = ("tuple", [("data", ("base", "bytes"))])
        funs.append({"type": top, "view": r.random() < 0.15})
    cfg = {"lengths": {}, "array": c12.gen_lengths(r, "array"), "bytes": c12.gen_lengths(r, "bytes")}
    seen = set()
    for f in funs:
        paths = []
        c12.dyn_paths(f["type"], "", 2, paths)
        for name, is_arr in paths:
            if name and name not in seen and r.random() < 0.3 and not re.search(r"[=,{}\s]", name):
                seen.add(name)
                cfg["lengths"][name] = c12.gen_lengths(r, "array" if is_arr else "bytes")
    mode = force_mode or ("cheat" if r.random() < 0.3 else "path")
    sess = {"funs": funs, "cfg": cfg, "mode": mode, "counter": r.choice([None, 0, 7, 98]), "script": [], "skip": r.choice([0, 0, 3])}
    if mode == "path":
        script = []
        if r.random() < 0.3:
            script.append(["skip", r.choice([1, 2, 5])])
        order = list(range(nf))
        if r.random() < 0.3:
            order.append(r.randrange(nf))  # the same function again (another transaction): fresh symbols
        for i in order:
            script.append(["cd", i])
            for _ in range(r.choice([0, 0, 1, 1, 2])):
                k = r.random()
                if k < 0.35:
                    script.append(["extend"])
                elif k < 0.6:
                    script.append(["branch"])
                elif k < 0.85:
                    script.append(["fix", r.randrange(1 << 16), r.randrange(1 << 16)])
                else:
                    script.append(["skip", r.choice([1, 2])])
        sess["script"] = script
    else:
        sess["counter"] = 0
    return sess


CORPUS = [
    # svm.createCalldata on a contract with f(bytes) and g(uint256[]) (all but the last registered calldata matter)
    {"funs": [{"type": ("tuple", [("data", ("base", "bytes"))]), "view": False}, {"type": ("tuple", [("xs", ("dyn", ("base", "uint256")))]), "view": False}],
     "cfg": {"lengths": {"xs": [3, 5]}, "array": [0, 1, 2], "bytes": [0, 65, 1024]}, "mode": "cheat", "counter": 0, "script": [], "skip": 0},
    # setUp(bytes) then the test's calldata in the extended path, then a transaction's; the first one's length fixed on the way
    {"funs": [{"type": ("tuple", [("data", ("base", "bytes"))]), "view": False}, {"type": ("tuple", [("x", ("dyn", ("base", "bytes"))), ("", ("base", "uint256"))]), "view": False},
              {"type": ("tuple", [("data", ("base", "bytes")), ("s", ("fixed", ("base", "string"), 2))]), "view": False}],
     "cfg": {"lengths": {"x": [1, 2]}, "array": [0, 1], "bytes": [0, 33]}, "mode": "path", "counter": 7, "skip": 0,
     "script": [["cd", 0], ["extend"], ["cd", 1], ["fix", 0, 1], ["extend"], ["cd", 2], ["branch"], ["cd", 0]]},
    # no symbol counter (setUp / invariant targets): names differ by uid only
    {"funs": [{"type": ("tuple", [("xs", ("dyn", ("base", "uint256")))]), "view": False}, {"type": ("tuple", [("xs", ("dyn", ("base", "uint256")))]), "view": False}],
     "cfg": {"lengths": {}, "array": [2, 0], "bytes": [1]}, "mode": "path", "counter": None, "skip": 0,
     "script": [["cd", 0], ["cd", 1], ["extend"], ["fix", 1, 0], ["cd", 0]]},
    # view functions are skipped by createCalldata; a static-only function in between
    {"funs": [{"type": ("tuple", [("s", ("base", "string"))]), "view": False}, {"type": ("tuple", [("a", ("base", "uint256"))]), "view": False},
              {"type": ("tuple", [("data", ("base", "bytes"))]), "view": True}, {"type": ("tuple", [("x", ("dyn", ("base", "bytes")))]), "view": False}],
     "cfg": {"lengths": {"x[0]": [2]}, "array": [1, 2], "bytes": [0, 32]}, "mode": "cheat", "counter": 0, "script": [], "skip": 3},
]


# ================================================================= spec

def spec_dyn_list(t, name, cfg, out):
    """the dynamic parameters of a signature in creation order: (name, is_array, configured candidates);
    elements exist up to the largest candidate of their array"""
    c12 = _c12()
    if t[0] == "base":
        if c12.spec_is_dyn(t):
            out.append((name, False, c12.spec_cand(cfg, name, False)))
    elif t[0] == "fixed":
        for i in range(t[2]):
            spec_dyn_list(t[1], c12.idx_name(name, i), cfg, out)
    elif t[0] == "dyn":
        cs = c12.spec_cand(cfg, name, True)
        out.append((name, True, cs))
        for i in range(max(cs)):
            spec_dyn_list(t[1], c12.idx_name(name, i), cfg, out)
    else:
        for n, x in t[1]:
            spec_dyn_list(x, c12.field_name(name, n), cfg, out)
    return out


# ================================================================= implementation side

def _label(name):
    m = UID_RE.match(name)
    return (m.group(1), m.group(3)) if m else (name, None)


def _cells(cd):
    """per byte of a ByteVec: ('c', byte) | ('s', symbol name, index, symbol bytes) | ('e',)"""
    import z3

    from halmos.bytevec import ConcreteChunk, SymbolicChunk

    cells, pos = [], 0
    for off, ch in cd.chunks.items():
        if off != pos:
            return None
        if isinstance(ch, ConcreteChunk):
            cells += [("c", b) for b in bytes(ch.unwrap())]
        elif isinstance(ch, SymbolicChunk) and z3.is_const(ch.data) and ch.data.decl().kind() == z3.Z3_OP_UNINTERPRETED:
            nb = ch.data.size() // 8
            cells += [("s", ch.data.decl().name(), ch.start + i, nb) for i in range(ch.length)]
        else:
            cells += [("e",)] * len(ch)
        pos += len(ch)
    return cells


def _word_kind(cells, off):
    w = cells[off:off + 32]
    if len(w) < 32:
        return ["short"]
    if all(c[0] == "c" for c in w):
        return ["con", int.from_bytes(bytes(c[1] for c in w), "big")]
    if all(c[0] == "s" and c[1] == w[0][1] and c[2] == i and c[3] == 32 for i, c in enumerate(w)):
        return ["sym", w[0][1]]
    return ["data"]


def _describe(v):
    import z3

    if isinstance(v, int):
        return ["const", v]
    if hasattr(v, "is_concrete"):
        v = v.value if v.is_concrete else v.unwrap() if hasattr(v, "unwrap") else v.value
        if isinstance(v, int):
            return ["const", v]
    if z3.is_bv_value(v):
        return ["const", v.as_long()]
    if z3.is_const(v) and v.decl().kind() == z3.Z3_OP_UNINTERPRETED:
        return ["sym", v.decl().name()]
    return ["expr", str(v)[:60]]


def _cond(cc):
    import z3

    if cc is None:
        return None
    if z3.is_eq(cc):
        a, b = cc.arg(0), cc.arg(1)
        if z3.is_bv_value(a):
            a, b = b, a
        if z3.is_bv_value(b) and z3.is_const(a):
            return [a.decl().name(), b.as_long()]
    return ["?", str(cc)[:60]]


def _args_of(cfg, obs):
    from halmos.config import ConfigSource, arg_parser, default_config

    c12 = _c12()
    ns = arg_parser().parse_args(c12.cfg_argv(cfg))
    args = default_config().with_overrides(ConfigSource.command_line, **vars(ns))
    obs["cfg"] = {"lengths": dict(args.array_lengths or {}), "array": list(args.default_array_lengths), "bytes": list(args.default_bytes_lengths)}
    return args


def _fun_json(i, f):
    c12 = _c12()
    return {"type": "function", "name": f"f{i}", "stateMutability": "view" if f["view"] else "nonpayable",
            "inputs": [c12.to_json(n, x) for n, x in f["type"][1]], "outputs": []}


def impl_session(sess):
    try:
        return _impl_path(sess) if sess["mode"] == "path" else _impl_cheat(sess)
    except BaseException as e:  # noqa: BLE001  (argparse exits)
        import traceback

        return {"error": f"{type(e).__name__}: {e} {traceback.format_exc()[-500:]}"}


def _impl_path(sess):
    import z3

    from halmos.__main__ import mk_solver
    from halmos.calldata import DynamicArrayType, FunctionInfo, mk_calldata, str_abi
    from halmos.sevm import SEVM, Path

    obs = {"events": [], "regs": [], "cds": []}
    args = _args_of(sess["cfg"], obs)
    items = [_fun_json(i, f) for i, f in enumerate(sess["funs"])]
    abi = {str_abi(it): it for it in items}
    base = sess["counter"]
    cnt = [base]

    def nid():
        cnt[0] += 1
        return cnt[0]

    # ---- the real SEVM.calldataload on every word of every calldata, in the final path
    class St:
        def __init__(self, off):
            self.off, self.pushed = off, []

        def pop(self):
            return self.off

        def push_any(self, v):
            self.pushed.append(v)

    class Ex:
        def __init__(self, cd, off, path, cond=None):
            self.cd, self.st, self.cond, self.pc, self.advanced, self.path = cd, St(off), cond, 0, 0, path

        def int_of(self, x, _msg=""):
            return x

        def calldata(self):
            return self.cd

        def advance(self):
            self.advanced += 1

    class Stack:
        def __init__(self):
            self.items = []

        def push(self, e):
            self.items.append(e)

    class Self:
        def create_branch(self, ex, cond, target):
            new_path = ex.path.branch(cond)  # the real Path.branch
            return Ex(ex.cd, ex.st.off, new_path, new_path.pending[0] if len(new_path.pending) == 1 else "pending?")

    def load(cd, off, path):
        stack = Stack()
        try:
            SEVM.calldataload(Self(), Ex(cd, off, path), stack)
            brs = []
            for e in stack.items:
                keeps = None
                if e.cond is not None:
                    # the successor path still knows the candidates of every registered calldata
                    cand = e.path.concretization.candidates
                    me = e.cond.arg(0) if not isinstance(e.cond, str) and e.cond.num_args() == 2 else None
                    keeps = all(any(k.eq(d.size_symbol) for k in cand) for d, _ in regs if me is None or not d.size_symbol.eq(me))
                brs.append([_cond(e.cond) if not isinstance(e.cond, str) else ["?", e.cond], [_describe(v) for v in e.st.pushed], e.advanced]
                           + ([] if keeps in (None, True) else ["successor lost candidates"]))
        except Exception as e:  # noqa: BLE001
            brs = [["EXC", type(e).__name__, str(e)[:100]]]
        return brs

    def offset_of(cd, nm):
        cells = _cells(cd) or []
        return next((i for i, c in enumerate(cells) if c[0] == "s" and c[1] == nm and c[2] == 0), None)

    obs["isolation"] = []
    path = Path(mk_solver(args))
    regs = []   # (DynamicParam, calldata index)
    cds = []    # (ByteVec, function index)
    fixed = {}  # raw size symbol name -> value
    nb = 0
    for ev in sess["script"]:
        if ev[0] == "cd":
            it = items[ev[1]]
            sig = str_abi(it)
            cd, dyn = mk_calldata(abi, FunctionInfo("C", it["name"], sig, SELECTORS[ev[1] % len(SELECTORS)]), args, nid if base is not None else None)
            path.process_dyn_params(dyn)
            for d in dyn:
                regs.append((d, len(cds)))
            cds.append((cd, ev[1]))
            obs["events"].append(["cd", ev[1]])
        elif ev[0] == "extend":
            p2 = Path(mk_solver(args))
            p2.extend_path(path)
            path = p2
            obs["events"].append(["extend"])
        elif ev[0] == "branch":
            nb += 1
            path = path.branch(z3.Bool(f"c12_cond_{nb}"))
            path.activate()
            obs["events"].append(["branch"])
        elif ev[0] == "fix":
            free = [j for j, (d, _) in enumerate(regs) if d.size_symbol.decl().name() not in fixed]
            if not free:
                continue
            j = free[ev[1] % len(free)]
            d = regs[j][0]
            val = d.size_choices[ev[2] % len(d.size_choices)]
            parent = path
            path = parent.branch(d.size_symbol == val)
            path.activate()
            fixed[d.size_symbol.decl().name()] = val
            # the path branched from (its other successors continue from it) must not see the fix
            off = offset_of(cds[regs[j][1]][0], d.size_symbol.decl().name())
            if off is not None:
                obs["isolation"].append([j, val, load(cds[regs[j][1]][0], off, parent)])
            obs["events"].append(["fix", j, val])
        elif ev[0] == "skip":
            if base is not None:
                for _ in range(ev[1]):
                    nid()
                obs["events"].append(["skip", ev[1]])
    for d, ci in regs:
        nm = d.size_symbol.decl().name()
        lab, ctr = _label(nm)
        obs["regs"].append([d.name, list(d.size_choices), lab, ctr, isinstance(d.typ, DynamicArrayType), nm, ci])
    obs["fixed"] = fixed

    for cd, fi in cds:
        cells = _cells(cd)
        if cells is None:
            obs["cds"].append({"fun": fi, "error": "chunk offsets not contiguous"})
            continue
        loads = []
        for off in range(4, len(cd), 32):
            kind = _word_kind(cells, off)
            p = path
            if kind[0] == "sym":
                # every load is made by an execution of its own (a successor of the final path): the state that
                # executes CALLDATALOAD is consumed by the branching, only its successors live on
                nb += 1
                p = path.branch(z3.Bool(f"c12_cond_{nb}"))
                p.activate()
            brs = load(cd, off, p)
            loads.append([off, kind, brs])
        obs["cds"].append({"fun": fi, "len": len(cd), "loads": loads, "syms": sorted({c[1] for c in cells if c[0] == "s"})})
    return obs


def _impl_cheat(sess):
    from z3 import Array, BitVec, BitVecSort

    from halmos.__main__ import mk_block, mk_solver
    from halmos.bytevec import ByteVec
    from halmos.calldata import FunctionInfo, str_abi
    from halmos.cheatcodes import create_calldata_generic
    from halmos.mapper import BuildOut
    from halmos.sevm import SEVM, CallContext, Contract, Message, Path
    from halmos.utils import EVM

    obs = {"events": [], "regs": [], "cds": []}
    args = _args_of(sess["cfg"], obs)
    items = [_fun_json(i, f) for i, f in enumerate(sess["funs"])]
    sigs = [str_abi(it) for it in items]
    target = {"abi": items, "methodIdentifiers": {s: SELECTORS[i % len(SELECTORS)] for i, s in enumerate(sigs)}}
    BuildOut().set_build_out({"src/Target.sol": {"Target": (target, "Solidity", None)}})
    sevm = SEVM(args, FunctionInfo("Test", "check_target", "check_target()", "00000000"))
    this = BitVec("this_address", 160)

    def mk_ex(hexcode, data, path):
        pgm = Contract(bytes.fromhex(hexcode))
        message = Message(target=this, caller=BitVec("msg_sender", 160), origin=BitVec("tx_origin", 160),
                          value=BitVec("msg_value", 256), data=data, call_scheme=EVM.CALL)
        return sevm.mk_exec(code={this: pgm}, storage={this: {}}, transient_storage={this: {}},
                            balance=Array("balance_0", BitVecSort(160), BitVecSort(256)), block=mk_block(),
                            context=CallContext(message), pgm=pgm, path=path)

    test_ex = mk_ex("00", ByteVec(), Path(mk_solver(args)))
    for _ in range(sess["skip"]):
        test_ex.new_symbol_id()
    obs["k0"] = test_ex.cnts["symbol"] + 1
    results = create_calldata_generic(test_ex, sevm, "Target")
    live = [i for i, f in enumerate(sess["funs"]) if not f["view"]]
    if len(results) != 2 + len(live):
        obs["error"] = f"createCalldata returned {len(results) - 2} function calldata for {len(live)} non-view functions"
        return obs
    obs["events"] = [["skip", 2]] + [["cd", i] for i in live] + [["extend"]]
    obs["next"] = test_ex.cnts["symbol"] + 1
    registered = {k.decl().name(): list(v) for k, v in test_ex.path.concretization.candidates.items()}
    obs["registered"] = registered
    for fi, encoded in zip(live, results[2:]):
        calldata = encoded[64:]
        if bytes(calldata[:4].unwrap()).hex() != SELECTORS[fi % len(SELECTORS)]:
            obs["cds"].append({"fun": fi, "error": "selector missing"})
            continue
        cells = _cells(calldata)
        if cells is None:
            obs["cds"].append({"fun": fi, "error": "chunk offsets not contiguous"})
            continue
        loads = []
        plain = 0
        for off in range(4, len(calldata), 32):
            kind = _word_kind(cells, off)
            is_len = kind[0] == "sym" and _label(kind[1])[0].endswith("_length")
            if not is_len:
                plain += 1
                if plain > 2:
                    continue
            # the call made with this calldata continues the path of the cheatcode caller
            path = Path(mk_solver(args))
            path.extend_path(test_ex.path)
            ex = mk_ex("63%08x35" % off + "00", calldata, path)  # PUSH4 off CALLDATALOAD STOP
            try:
                brs = []
                for e in sevm.run(ex):
                    top = _describe(e.st.stack[-1])
                    cond = None
                    if kind[0] == "sym":
                        sym = next((k for k in e.path.concretization.substitution if k.decl().name() == kind[1]), None)
                        if sym is not None:
                            cond = [kind[1], e.path.concretization.substitution[sym].as_long()]
                    brs.append([cond, [top], 1])
            except Exception as e:  # noqa: BLE001
                brs = [["EXC", type(e).__name__, str(e)[:100]]]
            loads.append([off, kind, brs])
        obs["cds"].append({"fun": fi, "len": len(calldata), "loads": loads, "syms": sorted({c[1] for c in cells if c[0] == "s"})})
    # the size symbols in creation order (cheatcodes always pass the symbol counter)
    names = []
    for c in obs["cds"]:
        for _, kind, _ in c.get("loads", []):
            if kind[0] == "sym" and _label(kind[1])[0].endswith("_length"):
                names.append((kind[1], c["fun"]))
    obs["size_syms"] = sorted(names, key=lambda x: int(_label(x[0])[1] or -1))
    return obs


# ================================================================= model side

def model_events(sess, obs, with_fix_ids=None):
    """the resolved events as input of c12_path; fix events need the model's ids (second pass)"""
    c12 = _c12()
    out, n = [], 0
    for ev in obs["events"]:
        if ev[0] == "cd":
            out += [0] + c12.ser_cfg(sess["cfg"]) + c12.ser_ty(sess["funs"][ev[1]]["type"])
        elif ev[0] == "branch":
            out += [1]
        elif ev[0] == "extend":
            out += [2]
        elif ev[0] == "fix":
            if with_fix_ids is None:
                continue
            out += [3, with_fix_ids[ev[1]], ev[2]]
        elif ev[0] == "skip":
            out += [4, ev[1]]
        n += 1
    return n, out


def model_call(sess, obs, ids=None):
    if sess["mode"] == "cheat":
        k0 = obs.get("k0", 1)
    else:
        k0 = 0 if sess["counter"] is None else sess["counter"] + 1
    n, evs = model_events(sess, obs, ids)
    return ("c12_path", [k0, n] + evs)


def parse_model(res):
    """-> {"next": k, "dyn": [[name, sizes, id, is_array, branches]]}"""
    c12 = _c12()
    if not res or res[0] != 1:
        return {"error": f"model returned {res[:4] if res else res}"}
    nxt, nd = res[1], res[2]
    i, dyn = 3, []
    for _ in range(nd):
        nm, i = c12.take_str(res, i)
        sz, i = c12.take_nats(res, i)
        k, arr = res[i], res[i + 1]
        nb = res[i + 2]
        i += 3
        brs = []
        for _ in range(nb):
            has, kk, c, pk, z = res[i:i + 5]
            i += 5
            brs.append([[kk, c] if has else None, ["const", z] if pk else ["same"]])
        dyn.append([nm, sz, k, bool(arr), brs])
    return {"next": nxt, "dyn": dyn}


# ================================================================= the check

def public(sess):
    return {"session": {"funs": [{"type": f["type"], "view": f["view"]} for f in sess["funs"]], "cfg": sess["cfg"], "mode": sess["mode"],
                        "counter": sess["counter"], "script": sess["script"], "skip": sess["skip"]}}


def sig_string(f, i):
    c12 = _c12()
    return f"f{i}(" + ",".join(c12.type_string(x)[0] for _, x in f["type"][1]) + ")"


def check_spec(sess, obs):
    """specification vs implementation; -> [(kind, what, sig)]"""
    c12 = _c12()
    out = []
    if "error" in obs:
        return [("failing-input", f"registering several calldata in one path failed: {obs['error']}", {"kind": "session-exception"})]
    if obs["cfg"] != sess["cfg"]:
        return [("failing-input", f"length configuration parsed as {obs['cfg']}, written as {sess['cfg']}", {"kind": "config-parse"})]
    cfg = sess["cfg"]
    # what must be registered, per calldata, in creation order
    expected = {}  # raw size symbol name -> (param name, candidates, function index)
    if sess["mode"] == "path":
        cds = [ev[1] for ev in obs["events"] if ev[0] == "cd"]
        want = []
        for ci, fi in enumerate(cds):
            want += [(n, a, cs, ci) for n, a, cs in spec_dyn_list(sess["funs"][fi]["type"], "", cfg, [])]
        got = [(d[0], d[4], d[1], d[6]) for d in obs["regs"]]
        if got != want:
            k = next((i for i, (a, b) in enumerate(zip(got, want)) if a != b), min(len(got), len(want)))
            return [("failing-input", f"dynamic parameters registered in the path: #{k} is {got[k] if k < len(got) else None}, "
                     f"the signatures and the configuration give {want[k] if k < len(want) else None}", {"kind": "candidates", "where": "path"})]
        for d in obs["regs"]:
            expected[d[5]] = (d[0], d[1], cds[d[6]])
        if len(expected) != len(obs["regs"]):
            out.append(("failing-input", "two dynamic parameters of the path share a size symbol", {"kind": "duplicate-symbol", "where": "path"}))
        fixed = obs["fixed"]
    else:
        live = [ev[1] for ev in obs["events"] if ev[0] == "cd"]
        want = []
        for fi in live:
            want += [(n, cs, fi) for n, a, cs in spec_dyn_list(sess["funs"][fi]["type"], "", cfg, [])]
        syms = obs["size_syms"]
        if [(f"p_{n}_length", fi) for n, _, fi in want] != [(_label(nm)[0], fi) for nm, fi in syms]:
            return [("failing-input", f"size symbols in the calldata of createCalldata: {[(_label(nm)[0], fi) for nm, fi in syms][:6]}, "
                     f"expected {[(f'p_{n}_length', fi) for n, _, fi in want][:6]}", {"kind": "candidates", "where": "createCalldata"})]
        for (n, cs, fi), (nm, _) in zip(want, syms):
            expected[nm] = (n, cs, fi)
        fixed = {}
    # no symbol is shared between two calldata of the path
    seen = {}
    for ci, c in enumerate(obs["cds"]):
        for nm in c.get("syms", []):
            if nm in seen:
                out.append(("failing-input", f"the symbol {nm} occurs in two calldata of one path ({sig_string(sess['funs'][seen[nm][1]], seen[nm][1])} #{seen[nm][0]} and "
                            f"{sig_string(sess['funs'][c['fun']], c['fun'])} #{ci}): their arguments are not independent", {"kind": "duplicate-symbol", "where": "path"}))
                return out
            seen[nm] = (ci, c["fun"])
    for j, val, brs in obs.get("isolation", []):
        d = obs["regs"][j]
        want = [[[d[5], v], [["const", v]], 1] for v in d[1]]
        if brs != want:
            shared = brs == [[None, [["const", val]], 1]]
            out.append(("failing-input", f"after one successor of a path fixed the length of {d[0]!r} to {val}, the path it branched from reads the size symbol as "
                        f"{str(brs)[:160]} instead of branching over {d[1]}" + (" (sibling paths share their concretization)" if shared else ""),
                        {"kind": "calldataload-branches", "where": "sibling" if shared else "path"}))
            return out
    for c in obs["cds"]:
        fs = sig_string(sess["funs"][c["fun"]], c["fun"])
        if "error" in c:
            out.append(("failing-input", f"calldata of {fs}: {c['error']}", {"kind": "encoder-exception"}))
            continue
        for off, kind, brs in c["loads"]:
            if kind[0] == "sym" and kind[1] in expected:
                pname, cands, _ = expected[kind[1]]
                if kind[1] in fixed:
                    want = [[None, [["const", fixed[kind[1]]]], 1]]
                else:
                    want = [[[kind[1], v], [["const", v]], 1] for v in cands]
                got = brs
                if sess["mode"] == "cheat":  # the order in which a run yields its final states is not part of the property
                    got, want = sorted(brs, key=repr), sorted(want, key=repr)
                if got != want:
                    lone = len(brs) == 1 and len(brs[0]) > 1 and brs[0][1] and brs[0][1][0][0] == "sym"
                    what = (f"{fs}: the length word of {pname!r} (offset {off}) was loaded as the unconstrained symbol {brs[0][1][0][1]} on a single path; "
                            f"candidates {cands} were not explored") if lone else \
                           f"{fs}: calldataload of the size symbol of {pname!r} at offset {off} gives {str(brs)[:200]}, expected one successor per candidate {cands}" \
                           + (f" (fixed to {fixed[kind[1]]})" if kind[1] in fixed else "")
                    out.append(("failing-input", what, {"kind": "calldataload-branches", "where": sess["mode"], "lost": bool(lone)}))
                    return out
            elif kind[0] == "sym":
                if [b[:2] for b in brs] != [[None, [["sym", kind[1]]]]]:
                    out.append(("failing-input", f"{fs}: calldataload of a leaf symbol at {off} gives {str(brs)[:160]}", {"kind": "calldataload-leaf", "where": sess["mode"]}))
                    return out
            elif kind[0] == "con":
                if [b[:2] for b in brs] != [[None, [["const", kind[1]]]]]:
                    out.append(("failing-input", f"{fs}: calldataload of the offset word at {off} gives {str(brs)[:160]}", {"kind": "calldataload-const", "where": sess["mode"]}))
                    return out
            elif len(brs) != 1 or brs[0][0] is not None:
                out.append(("failing-input", f"{fs}: calldataload inside a bytes symbol at {off} branches: {str(brs)[:160]}", {"kind": "calldataload-leaf", "where": sess["mode"]}))
                return out
    return out


def real_branches(sess, obs):
    """per registered dynamic parameter (creation order): [counter, branches as the model prints them]"""
    by_sym = {}
    for c in obs["cds"]:
        for _off, kind, brs in c.get("loads", []):
            if kind[0] == "sym":
                by_sym.setdefault(kind[1], brs)
    names = [d[5] for d in obs["regs"]] if sess["mode"] == "path" else [nm for nm, _ in obs["size_syms"]]
    out = []
    for nm in names:
        brs = by_sym.get(nm)
        flat = None
        if brs is not None:
            flat = []
            for b in brs:
                if b and b[0] == "EXC":
                    flat.append(["EXC"])
                    continue
                pv = b[1][0] if len(b[1]) == 1 else ["?"]
                flat.append([b[0][1] if b[0] else None, pv if pv[0] == "const" else ["same"]])
        out.append([_label(nm)[1], flat])
    return out


def check_model(sess, obs, mo):
    """extracted model of the path vs implementation; -> [what]"""
    if "error" in mo:
        return [f"extracted path model failed: {mo['error']}"]
    real = real_branches(sess, obs)
    if len(real) != len(mo["dyn"]):
        return [f"path: the model registers {len(mo['dyn'])} dynamic parameters, the implementation {len(real)}"]
    counted = sess["mode"] == "cheat" or sess["counter"] is not None
    for j, ((ctr, brs), (nm, sz, k, _arr, mbrs)) in enumerate(zip(real, mo["dyn"])):
        if counted:
            try:
                c = int(ctr)
            except (TypeError, ValueError):
                c = ctr
            if c != k:
                return [f"path: dynamic parameter #{j} ({nm!r}) has symbol counter {ctr} in the implementation, index {k} in the model"]
        if brs is None:
            continue
        mine = [[b[0][1] if b[0] else None, b[1]] for b in mbrs]
        theirs = brs
        if sess["mode"] == "cheat":
            mine, theirs = sorted(mine, key=repr), sorted(brs, key=repr)
        if mine != theirs:
            return [f"path: calldataload of size symbol #{j}: model {str(mine)[:120]} implementation {str(theirs)[:120]}"]
    if sess["mode"] == "cheat" and obs.get("next") != mo["next"]:
        return [f"createCalldata: symbol counter continues at {obs.get('next')} in the implementation, {mo['next']} in the model"]
    return []


def classify(sess, obs):
    kinds = {sess["mode"]}
    n = len([ev for ev in obs.get("events", []) if ev[0] == "cd"])
    kinds.add(f"calldata_{min(n, 4)}")
    with_dyn = len({d[6] for d in obs.get("regs", [])}) if sess["mode"] == "path" else len({fi for _, fi in obs.get("size_syms", [])})
    if with_dyn >= 2:
        kinds.add("two_or_more_with_dynamic_params")
    for ev in obs.get("events", []):
        if ev[0] in ("extend", "branch", "fix"):
            kinds.add(ev[0])
    return sorted(kinds), with_dyn >= 2
