"""C20 — tests are isolated from each other and results are deterministic.

Obligations: T-copies (copy-vs-share tables of create_branch / run_message / Path.branch /
Path.extend_path regenerated from sevm.py), T-frontierflow (what reaches the contract-level frontier
cache: provenance of the values run_message hands down to get_frontier / _compute_frontier /
run_target_contract / run_target_function, regenerated from __main__.py), Props/C20.vo, lint.
Ties:
  S  store: run-time object identities of the real create_branch / run_message / Path.branch /
     extend_path against the regenerated tables (translator self-check) and, per field and
     nesting level, "is a write through one state visible through the other?" on the real
     objects against the extracted model (c20_visible);
  L2 sibling leakage on generated branching programs (harness/c20_dyn.py): worklist
     push/pop fingerprints, run_message pre-state fingerprint, leaf re-derivation;
  L3 generated test contracts (regular and invariant tests, storage written by setUp) run
     through the real `halmos._main` in every order / subset, repeatedly in one process and
     under three deterministic uuid4 streams; every test's result must equal its result
     alone (specification) and the extracted runner model (c20_run_ann) must predict it.  Tests may
     carry function-level `@custom:halmos` annotations (--width, --loop, --invariant-depth): every
     test has its own config, the target `bump(uint256)` makes the explored transactions depend on
     the loop bound of the config that explores them; which config object run_target_function
     receives is also observed at run time and compared with T-frontierflow.
"""
import contextlib
import itertools
import json
import os
import time

from harness import common, pool

PID = "C20"
TRANSLATORS = ["T-copies", "T-callbackcopies", "T-frontierflow", "T-solverlife"]

# Genuine defects of halmos reproduced by this check on the unchanged tree (reported, not repaired).
KNOWN = common.known_for("C20")  # entries live in /verif/known_findings.json

PARTIAL = ("CPython object aliasing outside the fields the code copies explicitly, the process-global singletons "
           "(BuildOut, DeployAddressMapper, Mapper, Profiler, CoverageReporter, logger_unique), z3's own global state and "
           "the timing of --early-exit cannot be exhibited by the Coq model; they are monitored by the L2 fingerprint "
           "checks and the repeated in-process L3 runs only. Deep copies are modelled as copies to depth 8. The push/pop scope "
           "protocol of the z3 solver shared by sibling Paths (Path.branch / Path.activate) is modelled for two-way branches over decision trees only "
           "(Model/SolverLifeModel.v: what a run leaves in the solver, tied to solver.assertions() of the real runs); a wrong scope elsewhere would show up "
           "in the L2 leaf re-derivation. The quick membership answers of Exec.check (condition or its negation already in Path.conditions), "
           "`unknown` answers and the loop bound are outside that model. With --early-exit the L3 runs use a "
           "deterministic fast-solver schedule (every query answered before the path loop continues).")
ASSUMPTIONS = [
    "Spec.exec_need / Spec.path_need (how deep each Exec / Path field is mutated in place) were written by reading sevm.py; "
    "the L2 fingerprint check monitors them (a field mutated deeper than stated shows up as leakage)",
    "ByteVec.copy() independence below the ByteVec object is property C07",
    "a state of the runner model is an integer; the test body and the target step are pure functions of it "
    "(that SEVM.run_message does not mutate its pre-state is the store theorem + the L2 pre-state fingerprint check)",
    "a configuration of the runner model is an integer; what a target transaction reaches is a function of the exploring configuration and the "
    "pre-state (cstep); in the L3 correspondence a configuration is identified with its loop bound",
    "C20_rename_verdict assumes a sound and complete solver (hypotheses in the statement); real solvers may time out",
    "C20_state_runs_isolated holds for every solver answer function; that mk_solver returns a new empty solver and reset() leaves no assertion / scope "
    "is checked on the source text and on the real functions by T-solverlife; a frontier state as the test sees it is (sliced conditions, decision tree of the test)",
    "the extracted model and driver are faithful to the Coq definitions (extraction is trusted)",
]

REG_KINDS = ["eqmagic", "slotplus", "write", "slotis", "writex", "two", "revertall", "tstore"]
INV_KINDS = ["inv_lt", "inv_ne", "inv_slot"]
TARGET_FUNS = ["inc", "add2", "dbl", "reset", "cap3"]
NSTATES = 16
DEFAULT_LOOP = 2      # halmos' default --loop
MAX_LOOP = 4


def test_opts(spec, t):
    """options of the function-level annotation of test t: {'width': w, 'loop': L, 'invariant-depth': d}"""
    toks = ((spec.get("devdoc") or {}).get(t[0]) or "").split()
    assert len(toks) % 2 == 0, toks
    return {toks[i][2:]: int(toks[i + 1]) for i in range(0, len(toks), 2)}


def contract_loop(spec):
    return spec.get("loop") or DEFAULT_LOOP


def test_loop(spec, t):
    return test_opts(spec, t).get("loop", contract_loop(spec))


def test_depth(spec, t):
    if not t[1].startswith("inv_"):
        return 0
    return test_opts(spec, t).get("invariant-depth", spec["depth"])


# ----------------------------------------------------------------- generated contracts

def gen_spec(r, i, flavour):
    """flavour: 'regular' | 'invariant' | 'mixed' | 'f10w' | 'f10e' | 'symbolic' | 'cfg'"""
    a = r.choice([0, 1, 5, 7, 7, 41])
    names = ["a", "b", "c", "d"]
    tests = []
    target = None
    devdoc = {}
    if flavour == "cfg":
        return gen_cfg_spec(r, i)
    if flavour in ("regular", "mixed", "symbolic"):
        n = r.randint(2, 4) if flavour == "regular" else r.randint(1, 2)
        kinds = r.sample(REG_KINDS, n)
        if flavour == "regular" and r.random() < 0.7 and "write" not in kinds:
            kinds[0] = "write"
        for k in kinds:
            p = {"eqmagic": r.choice([0, 42, 2 ** 255, 2 ** 256 - 1]), "slotplus": r.choice([100, 3, 0]),
                 "write": 7, "slotis": 7, "writex": r.choice([99, 7]), "two": 5, "revertall": 0, "tstore": 7}[k]
            tests.append([names[len(tests)], k, p])
    if flavour in ("invariant", "mixed", "f10w", "f10e", "symbolic"):
        nf = r.randint(1, 3)
        target = r.sample(TARGET_FUNS, nf)
        if flavour == "symbolic":
            target = target[:1] + ["setx"]
        if flavour in ("f10w", "f10e") and not ({"inc", "add2", "dbl"} & set(target)):
            target[0] = "inc"
        ninv = 2 if flavour in ("f10w", "f10e") else max(1, min(4 - len(tests), r.randint(1, 3)))
        for _ in range(ninv):
            k = r.choice(INV_KINDS if flavour != "f10w" else ["inv_lt", "inv_ne"])
            p = {"inv_lt": r.choice([1, 2, 3, 4, 9]), "inv_ne": r.choice([1, 2, 3, 4]), "inv_slot": r.choice([7, 8])}[k]
            tests.append([names[len(tests)], k, p])
        r.shuffle(tests)
        for j, t in enumerate(tests):
            t[0] = names[j]
    spec = {"id": i, "flavour": flavour, "slot1": a, "target": target, "tests": tests, "depth": r.choice([1, 2, 2]) if target else 0}
    if flavour == "f10w":
        first_inv = next(t for t in tests if t[1].startswith("inv_"))
        devdoc[first_inv[0]] = f"--width {r.choice([1, 1, 2])}"
    spec["devdoc"] = devdoc
    spec["early_exit"] = flavour == "f10e"
    return spec


def gen_cfg_spec(r, i):
    """invariant tests with their own configs over a target whose transactions depend on the loop bound"""
    names = ["a", "b", "c"]
    target = ["bump"] + r.sample(["inc", "reset", "cap3"], r.randint(0, 1))
    r.shuffle(target)
    loop = r.choice([None, None, 1, 3])
    depth = r.choice([1, 1, 2])
    ninv = r.randint(2, 3)
    tests, devdoc = [], {}
    base = loop or DEFAULT_LOOP
    for j in range(ninv):
        k = r.choice(["inv_lt", "inv_lt", "inv_ne"])
        # thresholds around what the different bounds reach
        p = r.choice([base, base + 1, base + 1, base + 2, 2 * base + 1]) if k == "inv_lt" else r.choice([base, base + 1, base + 2])
        tests.append([names[j], k, p])
        opts = []
        if r.random() < 0.6:
            opts += ["--loop", str(r.choice([x for x in range(1, MAX_LOOP + 1) if x != base]))]
        if r.random() < 0.25:
            opts += ["--invariant-depth", str(3 - depth)]
        if opts:
            devdoc[names[j]] = " ".join(opts)
    if not any("--loop" in d for d in devdoc.values()):
        devdoc[names[r.randrange(ninv)]] = f"--loop {base + 1}"
    if r.random() < 0.4:
        tests.insert(r.randrange(len(tests) + 1), ["r", r.choice(["eqmagic", "two", "write"]), 7])
    return {"id": i, "flavour": "cfg", "slot1": r.choice([0, 5]), "target": target, "tests": tests, "depth": depth,
            "loop": loop, "toml": True, "devdoc": devdoc, "early_exit": False}


def corpus_specs():
    """minimal hand-written contracts, run first"""
    return [
        # F10 by --width: invariant_a (width 1: breaks having pulled 2 paths) leaves frontier[1] = [c=1]; invariant_b misses c=2
        {"id": "corpus-f10w", "flavour": "f10w", "slot1": 5, "target": ["inc", "add2"], "depth": 1,
         "tests": [["a", "inv_ne", 1], ["b", "inv_ne", 2]], "devdoc": {"a": "--width 1"}, "early_exit": False},
        # F10 by --early-exit: invariant_a fails at the first depth-1 state
        # (the loop breaks one pull after the counterexample: frontier[1] = [c=1, c=0 written], c=2 is missing)
        {"id": "corpus-f10e", "flavour": "f10e", "slot1": 5, "target": ["inc", "reset", "add2"], "depth": 1,
         "tests": [["a", "inv_ne", 1], ["b", "inv_ne", 2]], "devdoc": {}, "early_exit": True},
        # per-test config: invariant_a is annotated with --loop 3, invariant_b is not (contract bound 2); bump() reaches
        # c = 3 only under bound 3.  The shared frontier must not be explored with invariant_a's private config.
        {"id": "corpus-cfg-loop", "flavour": "cfg", "slot1": 5, "target": ["bump"], "depth": 1, "loop": None, "toml": True,
         "tests": [["a", "inv_lt", 3], ["b", "inv_lt", 3]], "devdoc": {"a": "--loop 3"}, "early_exit": False},
        # ... and with a private --invariant-depth as well: invariant_a goes one transaction deeper than invariant_b;
        # the contract-level bound comes from halmos.toml
        {"id": "corpus-cfg-depth", "flavour": "cfg", "slot1": 0, "target": ["bump", "reset"], "depth": 1, "loop": 1, "toml": True,
         "tests": [["a", "inv_ne", 2], ["b", "inv_ne", 2]], "devdoc": {"a": "--invariant-depth 2", "b": "--loop 2"}, "early_exit": False},
        # a test that writes storage followed by one that reads it
        {"id": "corpus-write-read", "flavour": "regular", "slot1": 5, "target": None, "depth": 0,
         "tests": [["a", "write", 7], ["b", "slotis", 7], ["c", "slotplus", 100], ["d", "tstore", 7]], "devdoc": {}, "early_exit": False},
        # setUp moves the clock relative to the current one: a block environment that survives from an
        # earlier run / contract in the same process shows up as a different timestamp
        {"id": "corpus-setup-warp", "flavour": "regular", "slot1": 5, "target": None, "depth": 0, "setup_warp": 100,
         "tests": [["ts", "tsis", 101], ["m", "eqmagic", 42]], "devdoc": {}, "early_exit": False},
        {"id": "corpus-mixed", "flavour": "mixed", "slot1": 7, "target": ["inc", "dbl", "reset"], "depth": 2,
         "tests": [["a", "writex", 99], ["b", "inv_lt", 3], ["c", "slotis", 7], ["d", "inv_ne", 3]], "devdoc": {}, "early_exit": False},
    ]


def sig_of(t):
    from harness.c20_l3 import test_sig

    return test_sig(t[0], t[1])


def plan_for(spec, r, tier):
    """list of runs: dict(label, order (list of test indices), match (list of indices or None), uid (stream or None))"""
    n = len(spec["tests"])
    base = list(range(n))
    runs = [{"label": "all", "order": base, "match": None, "uid": None}]
    for i in base:
        runs.append({"label": f"alone{i}", "order": base, "match": [i], "uid": None})
    perms = [list(p) for p in itertools.permutations(base) if list(p) != base]
    if tier == "quick":
        rev = base[::-1]
        r.shuffle(perms)
        perms = ([rev] if rev != base else []) + [p for p in perms[:1] if p != rev and n > 2]
    for p in perms:
        runs.append({"label": "perm", "order": p, "match": None, "uid": None})
    subsets = [list(s) for k in range(2, n) for s in itertools.combinations(base, k)]
    if tier == "quick":
        r.shuffle(subsets)
        subsets = subsets[:1]
    for s in subsets:
        runs.append({"label": "subset", "order": base, "match": s, "uid": None})
    runs.append({"label": "repeat", "order": base, "match": None, "uid": None})
    for k in (1, 2, 3):
        runs.append({"label": f"uid{k}", "order": base if k != 2 or not perms else perms[0], "match": None, "uid": k})
    return runs


def l3_task(task):
    """worker: all runs of one contract, in ONE process (so every run after the first also is a
    repeated run in a process that has already executed other tests / contracts)"""
    import re

    from harness import c20_l3 as L

    spec, runs = task
    out = []
    cfg_seen = set()
    t0 = time.time()
    with L.workspace() as d:
        roots = {}
        for run in runs:
            key = tuple(run["order"])
            if key not in roots:
                sp = dict(spec, tests=[spec["tests"][i] for i in run["order"]])
                roots[key] = L.build_project(os.path.join(d, "p" + "_".join(map(str, key))), sp)
            # command-line options override function-level annotations: contracts whose tests carry their own
            # --loop / --invariant-depth get the contract-level values from halmos.toml (written by build_project)
            extra = [] if spec.get("toml") else ["--invariant-depth", str(spec["depth"])]
            if spec.get("early_exit"):
                extra.append("--early-exit")
            if run["match"] is not None:
                names = [re.escape(sig_of(spec["tests"][i]).split("(")[0]) for i in run["match"]]
                extra += ["--match-test", "^(" + "|".join(names) + r")\("]
            try:
                with contextlib.ExitStack() as stack:
                    if spec.get("early_exit"):
                        stack.enter_context(L.fast_solver_schedule())
                    if run["uid"]:
                        stack.enter_context(L.patched_uuid(run["uid"]))
                    stack.enter_context(L.observe_explore_cfg(cfg_seen))
                    summ, text = L.run_halmos(roots[key], extra)
                out.append({"run": run, "summary": summ, "tail": text[-600:] if "Traceback" in text or "ERROR" in text else ""})
            except Exception as e:  # noqa: BLE001
                out.append({"run": run, "error": f"{type(e).__name__}: {e}"})
    return {"spec": spec, "runs": out, "seconds": round(time.time() - t0, 1), "explore_cfg_seen": sorted(cfg_seen)}


# ----------------------------------------------------------------- abstraction for the runner model

def target_apply(f, c):
    if f == "inc":
        return c + 1
    if f == "add2":
        return c + 2
    if f == "dbl":
        return 2 * c + 1
    if f == "reset":
        return 0
    if f == "cap3":
        return c + 1 if c < 3 else None
    raise ValueError(f)


def body_codes(spec, t, c):
    """outcome codes (0 success, 1 counterexample, 2 revert) of test t started in counter state c"""
    _name, kind, p = t
    a = spec["slot1"]
    if kind in ("eqmagic", "slotplus", "writex"):
        return [0, 1]
    if kind == "write" or kind == "tstore":
        return [0]
    if kind == "slotis":
        return [1] if a == p else [0]
    if kind == "two":
        return [0, 0]
    if kind == "revertall":
        return [2]
    if kind == "tsis":
        # block.timestamp after setUp = halmos' initial timestamp (1) + the relative warp of THIS run
        return [0] if 1 + spec.get("setup_warp", 0) == p else [1]
    if kind == "inv_lt":
        return [1] if c >= p else [0]
    if kind == "inv_ne":
        return [1] if c == p else [0]
    if kind == "inv_slot":
        return [1] if a == p else [0]
    raise ValueError(kind)


def model_input(spec, order, budgets):
    """encoding for c20_run_ann; budgets: {test index: k} (paths pulled before the break).
    State NSTATES-1 is the post-setUp state (counter slot never written, value 0): halmos' state id
    distinguishes it from the state in which 0 has been written explicitly (state 0).
    A config is identified with its loop bound (0..MAX_LOOP): the step table of config e is what one target
    transaction reaches when it is explored under --loop e (bump: c+0 -- no SSTORE, the very same state -- ... c+e).
    Every test carries its raw annotation (loop bound / depth overrides); WHICH base config the annotation is applied to
    (the contract's, or the previous test's) and WHICH config explores the frontier is not decided here but by the model
    (Model.next_base, Model.frontier_cfg: regenerated from __main__.py)."""
    K, P = 8, 2
    n = NSTATES
    nc = MAX_LOOP + 1
    cval = lambda idx: 0 if idx == n - 1 else idx  # noqa: E731
    steps = []
    for e in range(nc):
        for idx in range(n):
            succ = []
            for f in spec["target"] or []:
                if f == "bump":
                    vs = [idx] + [cval(idx) + k for k in range(1, e + 1)]
                else:
                    vs = [target_apply(f, cval(idx))]
                succ += [v for v in vs if v is not None and (v < n - 1 or v == idx)]
            assert len(succ) <= K, succ
            steps += succ + [-1] * (K - len(succ))
    a = [n, K, P, n - 1, len(order), nc, contract_loop(spec) * 16 + spec["depth"]] + steps + list(range(n))
    for i in order:
        t = spec["tests"][i]
        o = test_opts(spec, t)
        a += [1 if t[1].startswith("inv_") else 0, o.get("loop", -1), o.get("invariant-depth", -1), budgets.get(i, -1)]
        for idx in range(n):
            codes = body_codes(spec, t, cval(idx))
            a += codes + [-1] * (P - len(codes))
    return a


def decode_model(res, ntests):
    out, i = [], 0
    for _ in range(ntests):
        k = res[i]
        out.append(res[i + 1:i + 1 + k])
        i += 1 + k
    return out


def result_of_codes(codes):
    exitcode = 1 if 1 in codes else (3 if 3 in codes else (4 if codes.count(0) == 0 else 0))
    return [exitcode, max(1, len(codes)), codes.count(0)]


def width_budgets(spec, order):
    b = {}
    for i in order:
        w = test_opts(spec, spec["tests"][i]).get("width")
        if w is not None:
            b[i] = w + 1
    return b


def modelable(spec):
    return "setx" not in (spec["target"] or [])


# ----------------------------------------------------------------- comparison

def norm_test(s, kind, early_exit=False):
    """what must be identical for a test across schedules"""
    if s is None:
        return None
    if early_exit:
        return {"exitcode": s["exitcode"]}
    models = []
    for valid, assign in s["models"]:
        if kind in ("eqmagic", "slotplus", "writex"):
            models.append([valid, [list(x) for x in assign]])     # the planted counterexample is unique
        else:
            models.append([valid, sorted(x[0] for x in assign)])  # symbols only: the solver picks the values
    return {"exitcode": s["exitcode"], "num_models": s["num_models"], "models": sorted(models, key=json.dumps),
            "paths": s["paths"], "bounded": s["bounded"]}


def analyse_contract(rep, res, model, record):
    spec = res["spec"]
    tests = spec["tests"]
    ee = bool(spec.get("early_exit"))
    alone = {}
    nontrivial = False
    n_same = {}
    # run-time cross-check of T-frontierflow: the config object run_target_function received while a test
    # with a private config was running
    seen = set(res.get("explore_cfg_seen") or [])
    for x in sorted(seen):
        rep.count("explore_cfg_seen", x)
    want = {"SrcContract": {"contract"}, "SrcTest": {"test"}}.get(FLOW.get("explore_cfg_src"))
    if seen and want is not None and not seen <= want:
        rep.fail("broken-tie", f"T-frontierflow says the target transactions are explored under {FLOW.get('explore_cfg_src')} but at run time "
                 f"run_target_function received the config of: {sorted(seen)} (contract {spec['id']})", case={"spec": spec, "seen": sorted(seen)})
    for r in res["runs"]:
        if "error" in r:
            rep.fail("broken-tie", f"halmos run crashed in the harness: {r['error']}", case={"spec": spec, "run": r["run"]})
            return
    for r in res["runs"]:
        if r["run"]["label"].startswith("alone"):
            i = r["run"]["match"][0]
            s = r["summary"].get(sig_of(tests[i]))
            if s is None:
                rep.fail("broken-tie", f"test {sig_of(tests[i])} did not run alone: {r['summary']} {r.get('tail', '')}", case={"spec": spec})
                return
            alone[i] = s
    # specification: every test in every schedule = the test alone
    for r in res["runs"]:
        run = r["run"]
        idxs = run["match"] if run["match"] is not None else run["order"]
        ran = [i for i in run["order"] if i in idxs]
        for pos, i in enumerate(ran):
            t = tests[i]
            got = r["summary"].get(sig_of(t))
            a, g = norm_test(alone[i], t[1], ee), norm_test(got, t[1], ee)
            rep.case({"spec": spec["id"], "run": run["label"], "order": run["order"], "match": run["match"], "uid": run["uid"], "test": i},
                     nontrivial=pos > 0 or run["uid"] is not None or run["label"] == "repeat")
            rep.count("run_kind", run["label"].rstrip("0123456789"))
            rep.count("test_kind", t[1])
            if a == g:
                continue
            earlier = [tests[j] for j in ran[:pos]]
            interrupted = [e for e in earlier if e[1].startswith("inv_") and (ee or "width" in test_opts(spec, e))]
            other_cfg = [e for e in earlier if e[1].startswith("inv_") and test_loop(spec, e) != contract_loop(spec)]
            if t[1].startswith("inv_") and interrupted and (g or {}).get("exitcode") in (0, 1):
                sig = {"defect": "partial-frontier-cache", "interrupt": "early-exit" if ee else "width"}
            elif t[1].startswith("inv_") and other_cfg and not interrupted:
                sig = {"defect": "frontier-explored-under-another-tests-config", "test_kind": t[1], "run": run["label"]}
            else:
                sig = {"defect": "schedule-dependent-result", "test_kind": t[1], "run": run["label"]}
            failure = dict(kind="failing-input",
                           what=f"{sig_of(t)} gives {g} after {[sig_of(e) for e in earlier]} (run {run['label']}, uid stream {run['uid']}) but {a} alone; contract {spec}",
                           case={"spec": spec, "run": run, "alone": a, "in_schedule": g}, sig=sig)
            # the same defect shows up in every schedule of the contract: two instances per (contract, defect) are reported
            n_same[sig["defect"]] = n_same.get(sig["defect"], 0) + 1
            if n_same[sig["defect"]] <= 2:
                record(failure)
            else:
                rep.count("failures_not_repeated", sig["defect"])
    # model: the extracted runner predicts exit code / path counts of every test of the whole-contract runs
    if model is not None and modelable(spec):
        for r in res["runs"]:
            run = r["run"]
            if run["match"] is not None:
                idxs = [i for i in run["order"] if i in run["match"]]
            else:
                idxs = list(run["order"])
            observed = []
            for i in idxs:
                s = r["summary"].get(sig_of(tests[i]))
                observed.append([s["exitcode"], s["paths"][0], s["paths"][1]] if s and s.get("paths") else None)
            if ee:
                candidates = early_exit_candidates(spec, idxs, model)
            else:
                candidates = [model_results(spec, idxs, width_budgets(spec, idxs), model)]
            if ee:
                ok = any(all(o is not None and o[0] == c[0] for o, c in zip(observed, cand)) for cand in candidates)
            else:
                ok = observed in candidates
            if not ok:
                rep.fail("broken-tie", f"runner model and halmos disagree on contract {spec['id']} run {run['label']} order {idxs}: halmos {observed}, model {candidates[:3]}",
                         case={"spec": spec, "run": run, "halmos": observed, "model": candidates[:3]})
                break
            nontrivial = True
    rep.coverage["contracts_model_checked"] = rep.coverage.get("contracts_model_checked", 0) + (1 if nontrivial else 0)


_MODEL_CACHE = {}
FLOW = {}     # info of T-frontierflow (filled by run)


def model_results(spec, idxs, budgets, model):
    key = (json.dumps(spec, sort_keys=True), tuple(idxs), tuple(sorted(budgets.items())))
    if key not in _MODEL_CACHE:
        res = model.batch([("c20_run_ann", model_input(spec, idxs, budgets))])[0]
        _MODEL_CACHE[key] = [result_of_codes(c) for c in decode_model(res, len(idxs))]
    return _MODEL_CACHE[key]


def early_exit_candidates(spec, idxs, model):
    """--early-exit: the loop of a failing test breaks at an unpredictable moment after its first
    counterexample: any budget k >= 1 is legal for a test that fails alone"""
    spaces = []
    for i in idxs:
        t = spec["tests"][i]
        spaces.append([None] + ([1, 2, 3, 4, 5, 6, 8, 12, 16] if t[1].startswith("inv_") else []))
    out = []
    for combo in itertools.islice(itertools.product(*spaces), 400):
        budgets = {i: k for i, k in zip(idxs, combo) if k is not None}
        out.append(model_results(spec, idxs, budgets, model))
    return out


# ----------------------------------------------------------------- store tie (real objects vs model)

def store_visibility():
    """For create_branch and run_message: poke a mutable object at nesting level L below each field of
    one state and see whether the other state's fingerprint of that field changes.
    -> list of (table index, field, level, new_to_old visible, old_to_new visible)"""
    import contextlib
    import io

    import z3

    from harness import c20_dyn as D

    def children(o):
        name = type(o).__name__
        if isinstance(o, dict):
            return [v for v in o.values()]
        if isinstance(o, (list, tuple)):
            return list(o)
        if name in ("StorageData",):
            return [o._mapping]
        if name == "State":
            return [o.stack, o.memory]
        if name == "KeccakRegistry":
            return [o._hash_ids]
        if name == "CallContext":
            return [o.trace, o.output]
        if name == "Concretization":
            return [o.substitution, o.candidates]
        return []

    def pokeable(o):
        name = type(o).__name__
        return isinstance(o, (dict, list, set)) or name in ("StorageData", "Block", "CallOutput", "KeccakRegistry")

    def poke(o):
        name = type(o).__name__
        if isinstance(o, dict):
            o["__c20_poke__"] = 1
        elif isinstance(o, list):
            o.append("__c20_poke__")
        elif isinstance(o, set):
            o.add("__c20_poke__")
        elif name == "StorageData":
            o.symbolic = not o.symbolic
        elif name == "Block":
            o.number = z3.BitVecVal(777, 256)
        elif name == "CallOutput":
            o.return_scheme = 0x777
        elif name == "KeccakRegistry":
            o._hash_ids = dict(o._hash_ids, poke=1)

    def at_level(o, level):
        cur = [o]
        for _ in range(level):
            nxt = []
            for x in cur:
                nxt += [c for c in children(x) if pokeable(c)]
            cur = nxt
        return [x for x in cur if pokeable(x)]

    def derive(which):
        from halmos.__main__ import mk_solver
        from halmos.sevm import SEVM, Message, Path
        from halmos.utils import EVM

        sevm, old = D._populated_exec()
        if which == 0:
            return old, sevm.create_branch(old, z3.BitVec("arg0", 256) != 8, 0)
        got = []
        orig_run = SEVM.run
        SEVM.run = lambda self, ex0: (got.append(ex0), iter(()))[1]
        try:
            p = Path(mk_solver(sevm.options))
            p.extend_path(old.path)
            msg = Message(target=old.this(), caller=old.caller(), origin=old.origin(), value=0, data=old.calldata(), call_scheme=EVM.CALL)
            list(sevm.run_message(old, msg, p))
        finally:
            SEVM.run = orig_run
        return old, got[0]

    out = []
    with contextlib.redirect_stdout(io.StringIO()):
        for which in (0, 1):
            old0, new0 = derive(which)
            for f in D.EXEC_FIELDS:
                if f in ("path", "pc", "balance", "pgm"):
                    continue
                for level in range(0, 3):
                    if not at_level(getattr(new0, f), level) or not at_level(getattr(old0, f), level):
                        continue
                    vis = []
                    for direction in (0, 1):
                        old, new = derive(which)
                        src, dst = (new, old) if direction == 0 else (old, new)
                        before = D.fp(getattr(dst, f))
                        poke(at_level(getattr(src, f), level)[0])
                        vis.append(1 if D.fp(getattr(dst, f)) != before else 0)
                    out.append((which, f, level, vis[0], vis[1]))
    return out


def check_store(rep, model, tables):
    """tables: info dict of the translator (field order)"""
    obs = store_visibility()
    names = {0: [f for f, _ in tables["create_branch"]], 1: [f for f, _ in tables["run_message"]]}
    calls = [("c20_visible", [which, names[which].index(f), level]) for which, f, level, _a, _b in obs]
    res = model.batch(calls) if model is not None else [None] * len(obs)
    for (which, f, level, a, b), m in zip(obs, res):
        tname = ["create_branch", "run_message"][which]
        rep.case({"store": tname, "field": f, "level": level}, nontrivial=True)
        rep.count("store_field", f)
        # specification: in-place mutation at a level the interpreter uses must not cross
        need = dict(SPEC_NEED).get(f)
        if need is not None and level < need and (a or b):
            rep.fail("failing-input", f"{tname}: a write at nesting level {level} below field `{f}` through one state is visible through the other (new->old {a}, old->new {b})",
                     case={"table": tname, "field": f, "level": level}, sig={"defect": "shared-mutable-field", "field": f, "table": tname})
        elif m is not None and [a, b] != m:
            rep.fail("broken-tie", f"{tname}.{f} level {level}: real objects show visibility {[a, b]}, store model {m}",
                     case={"table": tname, "field": f, "level": level, "real": [a, b], "model": m})
    return len(obs)


SPEC_NEED = [("code", 1), ("storage", 3), ("transient_storage", 3), ("block", 1), ("context", 4), ("st", 2), ("jumpis", 2),
             ("addresses_to_delete", 1), ("alias", 1), ("cnts", 1), ("sha3s", 2), ("storages", 1), ("balances", 1)]


# ----------------------------------------------------------------- L2 sibling leakage

def l2_descs(r, tier):
    from harness import l2common

    plan = [("branch", 7), ("storage", 5), ("call", 4), ("memory", 2)] if tier == "quick" else [("branch", 80), ("storage", 60), ("call", 60), ("memory", 30), ("loop", 20)]
    descs = []
    for prof, cnt in plan:
        try:
            descs += l2common.gen_descs(r, [(prof, cnt)])
        except Exception:  # noqa: BLE001  unknown profile name in this version of scenarios.py
            continue
    return descs


def l2_corpus_descs():
    """hand-written programs that exercise every place where sibling states are derived AFTER a sub-call: the return
    callback of call_known builds one continuation per outcome of the callee from the caller state / the backups that all
    outcomes share.  A calls B with the symbolic word arg0; B ends on three paths (x == 1, x == 2, otherwise); every
    continuation of A checks that the slot it is about to write is still zero (INVALID otherwise) and then writes it:
    a write of one continuation that is visible to a sibling shows up as a changed fingerprint of the waiting Exec and as a
    leaf that differs from the same path explored alone."""
    from harness.asm import assemble

    b_addr = 0xB0B

    def callee(first, second):
        # x = calldataload(0); x == 1 -> `first`; x == 2 -> `second`; otherwise STOP
        ends = {"revert": ["PUSH0", "PUSH0", "REVERT"], "stop": ["STOP"], "write": [("push", 5), ("push", 3), "SSTORE", "STOP"],
                "invalid": ["INVALID"]}
        return assemble(["PUSH0", "CALLDATALOAD", "DUP1", ("push", 1), "EQ", ("ref", "P1"), "JUMPI",
                         "DUP1", ("push", 2), "EQ", ("ref", "P2"), "JUMPI", "STOP",
                         ("label", "P1")] + ends[first] + [("label", "P2")] + ends[second])

    def caller(op_load, op_store, only_failed, callop="CALL"):
        args = ["PUSH0", "PUSH0", ("push", 0x20), "PUSH0"] + (["PUSH0"] if callop in ("CALL", "CALLCODE") else [])
        items = [("push", 4), "CALLDATALOAD", "PUSH0", "MSTORE"] + args + [("push", b_addr), "GAS", callop]
        items += [("ref", "OK"), "JUMPI"] if only_failed else ["POP"]
        items += ["PUSH0", op_load, ("ref", "BAD"), "JUMPI", ("push", 1), "PUSH0", op_store, "STOP",
                  ("label", "OK"), "STOP", ("label", "BAD"), "INVALID"]
        return assemble(items)

    out = []
    for first, second, ld, stv, only_failed, callop in [
            ("revert", "revert", "SLOAD", "SSTORE", True, "CALL"),       # two failing outcomes, storage
            ("revert", "invalid", "TLOAD", "TSTORE", True, "CALL"),      # two failing outcomes, transient storage
            ("write", "revert", "SLOAD", "SSTORE", False, "CALL"),       # succeeding and failing outcomes
            ("revert", "revert", "SLOAD", "SSTORE", True, "DELEGATECALL"),
    ]:
        out.append({"code": caller(ld, stv, only_failed, callop).hex(), "callees": {hex(b_addr): callee(first, second).hex()},
                    "nargs": 1, "profile": "c20-call-outcomes"})
    return out


N_L2_CORPUS = 4


def norm_left(lits):
    """literals left in a solver, without the exclusions an equation on the same symbol implies (halmos substitutes a
    symbol that is equal to a constant, so `x != 5` is never added under `x == 12`)"""
    if lits is None:
        return None
    lits = {tuple(x) for x in lits}
    eqs = {(v, k) for v, k, p in lits if p}
    return sorted(x for x in lits if x[2] or not any(v == x[0] and k != x[1] for v, k in eqs))


_SL_REPORTED = [0]


def analyse_solverlife(rep, res, model):
    """the per-state solver life cycle of run_message (harness/c20_solverlife.py)"""
    from harness import c20_solverlife as S

    case = res["case"]
    prog, fr = case["prog"], case["frontiers"]
    if "error" in res:
        rep.fail("broken-tie", f"solver life cycle: the real run_message could not be driven on case {case['id']}: {res['error'][-500:]}", case={"solverlife": case})
        return
    full = res["full"]
    if not full["sliced_ok"]:
        rep.fail("broken-tie", f"solver life cycle, case {case['id']}: a constraint on a symbol held in the state is not in the slice (the harness relies on Exec.path_slice)", case={"solverlife": case})
        return
    flat = [(d, i) for d, sts in enumerate(fr) for i in range(len(sts))]
    nontrivial = len(flat) >= 2
    rep.case({"solverlife": case["id"], "states": len(flat), "depths": len(fr)}, nontrivial=nontrivial)
    rep.count("solverlife_depths", len(fr) - 1)
    rep.count("solverlife_states", len(flat))
    bad = False
    rows = []
    for d, i in flat:
        st = fr[d][i]
        rows.append((d, i, st, full["outs"][d][i], res["alone"][d][i]["outs"][0][0], res["reversed"][d][i], S.spec_outcomes(prog, st["slice"])))
    # the first state whose outcomes in the frontier differ from the state alone; else in the reversed frontier; else from the spec
    hit = next((x for x in rows if x[3] != x[4]), None) or next((x for x in rows if x[5] != x[4]), None)
    if hit is not None:
        d, i, st, got, alone, rev, _spec = hit
        k = flat.index((d, i))
        order = "as given" if got != alone else "in reversed order"
        before = [fr[a][b]["slice"] for a, b in (flat[:k] if got != alone else reversed(flat[k + 1:]))]
        bad = True
        _SL_REPORTED[0] += 1
        if _SL_REPORTED[0] <= 3:
            rep.fail("failing-input", f"run_message: the test {prog} explored on the frontier state (depth {d}, #{i}, constraints {st['slice']}) gives the outcomes {got if got != alone else rev} "
                     f"with the frontier {order}, i.e. after the states with constraints {before}, but {alone} when the state is the only one: the exploration of a frontier state depends on the "
                     f"states explored before it (frontiers {[[x['slice'] for x in sts] for sts in fr]})",
                     case={"solverlife": case, "state": [d, i], "in_frontier": got, "reversed": rev, "alone": alone},
                     sig={"defect": "frontier-state-run-depends-on-earlier-states", "lost": bool(set(alone) - set(got if got != alone else rev))})
        else:
            rep.count("failures_not_repeated", "frontier-state-run-depends-on-earlier-states")
    else:
        hit = next((x for x in rows if sorted(x[3]) != x[6]), None)
        if hit is not None:
            d, i, st, got, _alone, _rev, spec = hit
            bad = True
            rep.fail("failing-input", f"run_message: the test {prog} on the frontier state (depth {d}, #{i}) with constraints {st['slice']} ends in the leaves {sorted(got)}; "
                     f"the valuations that satisfy the constraints reach {spec}", case={"solverlife": case, "state": [d, i], "got": got, "spec": spec},
                     sig={"defect": "frontier-state-outcomes-differ-from-spec"})
    if model is None:
        return
    mo = model.batch([("c20_solverlife", S.enc_frontiers(prog, fr))] + [("c20_solver_leftover", S.enc_state(prog, fr[d][i])) for d, i in flat])
    if mo[0] is None:
        rep.fail("broken-tie", f"solver life cycle model failed on case {case['id']}", case={"solverlife": case})
        return
    m_outs, _ = S.dec_outs(mo[0], len(flat))
    r_outs = [full["outs"][d][i] for d, i in flat]
    if m_outs != r_outs:
        rep.fail("broken-tie", f"solver life cycle, case {case['id']}: outcomes per frontier state: run_message {r_outs}, the model under the regenerated life cycle {m_outs} "
                 f"(states {[fr[d][i]['slice'] for d, i in flat]}, test {prog})", case={"solverlife": case, "real": r_outs, "model": m_outs})
        return
    if not bad:
        for (d, i), m in zip(flat, mo[1:]):
            real_left = norm_left(res["alone"][d][i]["left"][0][0])
            if m is None or real_left is None:
                rep.count("solverlife_leftover", "not compared")
                continue
            outs, rest = S.dec_outs(m, 1)
            m_left = norm_left([tuple(rest[j:j + 3]) for j in range(0, len(rest), 3)])
            if m_left != real_left:
                rep.fail("broken-tie", f"solver life cycle, case {case['id']}: what the solver holds when the run on state (depth {d}, #{i}, constraints {fr[d][i]['slice']}) returns: "
                         f"z3 {real_left}, model {m_left} (test {prog})", case={"solverlife": case, "state": [d, i], "real": real_left, "model": m_left})
                return
            rep.count("solverlife_leftover", "compared")
    rep.coverage["solverlife_cases_model_checked"] = rep.coverage.get("solverlife_cases_model_checked", 0) + 1


def any_task(task):
    kind, payload = task
    if kind == "l3":
        return l3_task(payload)
    if kind == "sl":
        from harness import c20_solverlife

        return c20_solverlife.task(payload)
    from harness import c20_dyn

    return c20_dyn.sibling_task(payload)


# ----------------------------------------------------------------- main

def run(rep, tier):
    t_start = time.time()
    b = common.build_property(PID, TRANSLATORS)
    common.standard_obligations(rep, PID, b)
    exe = None
    if b["make_ok"]:
        exe, log = common.build_driver(PID)
        rep.obligation("extraction of Model/IsolationModel.v entry points + OCaml driver build", exe is not None, "" if exe else log[-800:])
        if exe is None:
            rep.fail("broken-tie", "extracted model driver does not build: " + log[-400:], case={})
    model = common.Model(exe) if exe is not None else None
    r = common.rng(PID)
    rep.coverage["build_seconds"] = round(time.time() - t_start, 1)

    known_hits = []

    def record(failure):
        # Report.finish matches failing inputs against known_findings.json and prints the KNOWN-FINDING lines;
        # the hits are only counted here (coverage)
        for k in KNOWN:
            if common.finding_matches(k, failure):
                known_hits.append((k, dict(failure)))
                break
        rep.fail(failure.pop("kind"), failure.pop("what"), **failure)

    # --- store tie
    tinfo = None
    try:
        from translate import t_copies

        _text, tinfo = t_copies.translate((common.SRC / "sevm.py").read_text())
    except Exception:  # noqa: BLE001  (reported by standard_obligations as a broken translator)
        tinfo = None
    if tinfo is not None:
        t_store = time.time()
        n_store = check_store(rep, model, tinfo)
        rep.coverage["store_pokes"] = n_store
        rep.coverage["store_seconds"] = round(time.time() - t_store, 1)

    try:
        from translate import t_frontierflow

        FLOW.update(t_frontierflow.translate((common.SRC / "__main__.py").read_text())[1])
    except Exception:  # noqa: BLE001  (reported by standard_obligations as a broken translator)
        FLOW.clear()
    rep.coverage["frontier_flow"] = {k: FLOW.get(k) for k in ("explore_cfg_src", "frontier_test_inputs", "cache_key_depth_only")}

    # --- L3 + L2 in one worker pool (corpus first)
    from harness import c20_dyn

    specs = corpus_specs()
    n_gen = 8 if tier == "quick" else 220
    flavours = ["cfg", "regular", "invariant", "mixed", "cfg", "f10w", "mixed", "invariant", "f10e", "symbolic", "regular", "mixed"]
    for i in range(n_gen):
        specs.append(gen_spec(r, i, flavours[i % len(flavours)]))
    l3_tasks = [("l3", (s, plan_for(s, r, tier))) for s in specs]
    descs = l2_corpus_descs() + l2_descs(r, tier)
    assert descs[N_L2_CORPUS - 1]["profile"] == "c20-call-outcomes"
    l2_tasks = [("l2", (1000 + i, d)) for i, d in enumerate(descs)]
    # phase 1: the corpus contracts and a few branching programs, whatever the machine load;
    # phase 2: the generated rest within the remaining time budget of the tier
    t_pool = time.time()
    # everything the workers (and halmos inside them) put into the temp dir goes below one directory that is
    # removed at the end, also when a worker is killed on timeout
    import shutil
    import tempfile

    tmp_base = tempfile.mkdtemp(prefix="c20_run_")
    old_tmp = (tempfile.tempdir, os.environ.get("TMPDIR"))
    tempfile.tempdir = tmp_base
    os.environ["TMPDIR"] = tmp_base
    # the per-state solver life cycle of run_message: real run_message on hand-built frontiers (corpus first)
    from harness import c20_solverlife

    sl_cases = c20_solverlife.corpus() + [c20_solverlife.gen_case(r, i) for i in range(10 if tier == "quick" else 400)]
    sl_tasks = [("sl", c) for c in sl_cases]
    first = l3_tasks[:6] + l2_tasks[:8] + sl_tasks
    rest = []
    a, b = l3_tasks[6:], l2_tasks[8:]
    for i in range(max(len(a), len(b))):      # interleaved so that both kinds progress under the time budget
        rest += a[i:i + 1] + b[i:i + 1]
    out1 = pool.run_tasks(any_task, first, timeout=400, total_timeout=600)
    budget = (70 - (time.time() - t_start)) if tier == "quick" else (840 - (time.time() - t_start))
    out2 = pool.run_tasks(any_task, rest, timeout=120 if tier == "quick" else 600, total_timeout=budget) if budget > 8 and rest else [("timeout", None)] * len(rest)
    tasks = first + rest
    out = list(out1) + list(out2)
    tempfile.tempdir = old_tmp[0]
    if old_tmp[1] is None:
        os.environ.pop("TMPDIR", None)
    else:
        os.environ["TMPDIR"] = old_tmp[1]
    shutil.rmtree(tmp_base, ignore_errors=True)
    n_l3 = n_branching = n_red = n_sl = 0
    for (kind, payload), (st, val) in zip(tasks, out):
        if kind == "sl":
            rep.count("solverlife_status", st)
            if st != "ok":
                rep.fail("broken-tie", f"solver life cycle worker failed on case {payload['id']}: {st} {str(val)[-600:]}", case={"solverlife": payload})
                continue
            n_sl += 1
            analyse_solverlife(rep, val, model)
        elif kind == "l3":
            s = payload[0]
            rep.count("l3_status", st)
            rep.count("l3_flavour", s["flavour"])
            if st == "timeout":
                continue
            if st != "ok":
                rep.fail("broken-tie", f"L3 worker failed on contract {s['id']}: {str(val)[-600:]}", case={"spec": s})
                continue
            n_l3 += 1
            analyse_contract(rep, val, model, record)
        else:
            seed, d = payload
            rep.count("l2_status", st)
            if st == "timeout":
                continue
            if st != "ok":
                rep.fail("broken-tie", f"L2 worker failed on scenario {seed}: {str(val)[-600:]}", case={"scenario": d})
                continue
            rep.case({"l2": seed, "paths": val["n_paths"]}, nontrivial=val["branching"])
            if d.get("profile") == "c20-call-outcomes" and (val["n_paths"] < 3 or val["flags"]["crashed"]):
                rep.fail("broken-tie", f"L2 corpus program {seed} (continuations after a sub-call) was explored with {val['n_paths']} paths "
                         f"({val['kinds']}, {val['flags']}): it no longer exercises the sibling continuations", case={"scenario": d})
            n_branching += bool(val["branching"])
            n_red += val["rederived"]
            for leak in val["leaks"][:3]:
                rep.fail("failing-input", f"state leakage between paths: an Exec changed while it was waiting ({leak}) in scenario seed {seed}",
                         case={"scenario": d, "leak": leak, "via_run_message": val["via_run_message"]}, sig={"defect": "sibling-leak", "fields": leak["fields"]})
            for bad in val["rederive"][:2]:
                rep.fail("failing-input", f"a leaf of the full exploration differs from the same path explored alone: {json.dumps(bad, default=str)[:500]}",
                         case={"scenario": d, **bad}, sig={"defect": "leaf-differs-alone"})
    rep.coverage["l3_contracts"] = n_l3
    rep.coverage["pool_seconds"] = round(time.time() - t_pool, 1)
    rep.coverage["l2_branching_programs"] = n_branching
    rep.coverage["l2_leaves_rederived"] = n_red
    rep.coverage["solverlife_cases"] = n_sl
    if n_l3 < 4:
        rep.fail("broken-tie", f"only {n_l3} generated contracts could be run end to end", case={})
    if n_branching < 2:
        rep.fail("broken-tie", f"only {n_branching} branching programs explored by the L2 sibling check", case={})

    rep.coverage["known_findings_hit_module"] = sorted({k["id"] for k, _f in known_hits})
    distinct_cases = {}
    for _k, f in known_hits:
        distinct_cases.setdefault((f["case"]["spec"]["id"], f["sig"].get("interrupt")), f["case"])
    rep.coverage["known_findings_cases"] = list(distinct_cases.values())[:6]
    rep.coverage["known_findings_hits"] = len(known_hits)
    rep.coverage["traces_validated_against_impl"] = rep.coverage.get("contracts_model_checked", 0)
    return rep.finish(
        checker_cmd="make -C coq Props/C20.vo (coq_makefile, coqc 8.16.1) after regenerating coq/Gen/GenCopies.v from /repo/src/halmos/sevm.py "
                    "and coq/Gen/GenFrontierFlow.v, coq/Gen/GenSolverLife.v from /repo/src/halmos/__main__.py",
        trusted_base=common.TRUSTED_BASE_COMMON,
        assumptions=ASSUMPTIONS,
        partial=PARTIAL,
        rule="L3 cases = (generated test contract, schedule, test): contracts have <= 4 tests (regular: unique planted counterexample, storage written by setUp "
             "and read back, storage/transient writers followed by readers, all-revert; invariant: bounds on a target counter driven by inc/add2/dbl/reset/cap3/setx/bump(n); "
             "flavour cfg: invariant tests with function-level annotations --loop L / --invariant-depth d over the loop-bound-sensitive target bump, optional contract-level --loop), "
             "schedules = all tests, each alone, permutations (fabricated methodIdentifiers orders), subsets (--match-test), a repeated run, three deterministic uuid4 streams, "
             "all inside one process per contract; a case is non-trivial when the test is not first in its schedule, or runs under a patched uuid stream or in the repeated run; "
             "compared: exit code, counterexample count, counterexample symbols (uid fragments stripped) and values where unique, path counts, loop-bound count. "
             "Solver life cycle cases = (test, frontiers): a generated decision tree over literals x_v == k / x_v != k on two calldata words (depth <= 3, leaves STOP / INVALID / REVERT), "
             "run by the real run_message on hand-built frontiers of 1..3 depths with 1..3 states each, every state holding the symbols in storage with 0..2 sliced constraints on them "
             "(constants that decide or do not decide the tested ones); compared per state: outcomes in the frontier vs the state alone vs the frontier in reversed order vs the leaves reached "
             "by the satisfying valuations (enumerated), and vs the extracted model under the regenerated life cycle (outcomes in order; literals left in the solver); non-trivial with >= 2 states. "
             "Store cases = (table, field, nesting level) pokes of real objects. L2 cases = generated branching programs (worklist push/pop fingerprints, leaf re-derivation)",
    )


def replay(rep, body):
    from harness import c20_l3 as L

    for f in body.get("failures", []):
        case = f.get("case") or {}
        if "spec" in case and "run" in case:
            r = common.rng(PID)
            res = l3_task((case["spec"], plan_for(case["spec"], r, "quick")[: 1 + len(case["spec"]["tests"])] + [case["run"]]))
            for x in res["runs"]:
                print(x["run"], json.dumps({k: v for k, v in x.get("summary", {}).items() if not k.startswith("__")}, default=str)[:600])
    return 0
