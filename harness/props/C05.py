"""C05 — verdict aggregation is fail-safe and independent of solver timing.

Obligations: T-verdict, T-solvedispatch, T-unsatcore, T-coreappend, Props/C05.vo, lint.
Ties (real halmos code vs extracted model vs an independent Python rendering of the spec):
  X1  SolverOutput.from_result on generated stdout strings                         (L1)
  X2  CounterexampleHandler._get_solver_output on fabricated futures               (L1)
  X2b check_unsat_cores on generated id lists; _solve_end_to_end_callback's decision to append
      a core to the shared list (result class x core None / empty / non-empty x shutdown)  (L1)
  X3  solve_end_to_end / solve_low_level with the scripted solver as a subprocess  (L2)
  X4  `python -m halmos` end to end on fabricated projects, scripted solver: path kinds x
      reply kinds x completion orders x --early-exit x --cache-solver; printed status,
      JSON exit codes, process exit code, path counters; under --cache-solver also the shape of
      the unsat core in the reply (all names / a shared prefix / empty list / none), one solver
      thread (answers consumed strictly in submission order) vs all queries started first, and
      which queries never reached the solver (answered from the shared core list)     (L3)
  X5  several tests / failing setUp / no test selected: process exit code          (L3)
"""
import itertools
import json
import os
import shutil
import tempfile
import types
from concurrent.futures import Future, ThreadPoolExecutor
from pathlib import Path

from harness import c05_e2e as e2e
from harness import common
from harness.c05_fake_solver import UNSAT_KINDS, core_names, reply_text
from harness.common import Model

PID = "C05"
TRANSLATORS = ["T-verdict", "T-solvedispatch", "T-unsatcore", "T-coreappend"]

# Genuine defects of halmos found by this check: F8 / F8b (an exception of the synchronous stuck-path solve left run_test),
# repaired by e923044; the signatures are still computed so that a regression is reported as the same failing input.
KNOWN = common.known_for("C05")  # entries live in /verif/known_findings.json (none at present)

PARTIAL = ("Thread timing is replaced by forced orders (per-query delays, one stale read of the shutdown flag); CPython's "
           "ThreadPoolExecutor guarantee that done-callbacks have run when shutdown(wait=True) returns is assumed. A solver kill "
           "during the synchronous stuck-path solve is not a separate model step (it can only happen after a valid counterexample "
           "was recorded, where the verdict is FAIL whatever the stuck count); a Popen failure / unparsable model there is the "
           "EvMainRaise step (handled by `except Exception`: from_error output). --cache-solver: the order in which worker threads consult the "
           "shared core list is forced (one solver thread: strictly in submission order; default threads + delays: all queries started "
           "first); otherwise the implementation's verdict must be among the model's results over both families of schedules. A model "
           "refinement (second solver call) together with the cache is covered at function level (X3) but not end to end.")
ASSUMPTIONS = [
    "done-callbacks of the thread pool futures have completed when ThreadPoolExecutor.shutdown(wait=True) returns (CPython semantics)",
    "list.append from solver threads is atomic (CPython GIL); the verdict chain reads solver_outputs only after the pool has been joined",
    "the truthful answer of a query does not depend on when it is asked (the scripted solver is a function of the query file name)",
    "the extracted model and driver are faithful to the Coq definitions (extraction is trusted)",
    "--cache-solver: the solver honours its own non-empty unsat cores (it answers unsat on every potential-violation query that contains one; "
    "hypothesis of C05_cache_refines, stated in the theorem); an empty core list carries no such promise. Cases whose script breaks this are compared with the model only",
    "--cache-solver: one worker thread (--solver-threads 1) runs solve_end_to_end and the done-callback of a query before it starts the next one (CPython ThreadPoolExecutor)",
]

LABELS = ["PASS", "FAIL", "ERROR", "TIMEOUT"]
KIND_CODE = {"success": 0, "revert": 1, "panic": 2, "failflag": 3, "stuck": 4}
POTENTIAL = ("panic", "failflag")
ASYNC_REPLIES = ["sat", "rc1_sat", "sat_nomodel", "sat_invalid", "sat_badmodel", "unsat", "unsat_rc1", "unsat_cr",
                 "unknown", "hang", "garbage", "empty", "crash"]
# `unsat` replies that differ only in the unsat core they print under --cache-solver
CORE_REPLIES = ["unsat_core0", "unsat_core1", "unsat_core2", "unsat_nocore"]


# ----------------------------------------------------------------- independent spec (python)

def spec_answer(kind, refined=None):
    """truthful final answer class of the solver for a scripted reply (None = no refinement asked)."""
    if kind in ("sat", "rc1_sat", "sat_nomodel"):
        return "sat"
    if kind == "sat_invalid":
        return "sat" if refined is None else spec_answer(refined)
    if kind in UNSAT_KINDS:
        return "unsat"  # unsat_cr: "unsat\r\n" reaches halmos as "unsat\n" (the pipe is read in text mode)
    if kind in ("unknown", "hang"):
        return "unknown"
    return "err"  # garbage, empty, crash, sat_badmodel


def spec_label(paths, answers):
    """paths: kinds; answers: truthful answer class per path (None for success / revert)."""
    pot = [a for k, a in zip(paths, answers) if k in POTENTIAL]
    if "sat" in pot:
        return "FAIL"
    if "err" in pot:
        return "ERROR"
    if "unknown" in pot:
        return "TIMEOUT"
    if any(k == "stuck" and a != "unsat" for k, a in zip(paths, answers)):
        return "ERROR"
    if "success" not in paths:
        return "ERROR"
    return "PASS"


def spec_first_line(stdout):
    i = stdout.find("\n")
    line = stdout if i < 0 else stdout[:i]
    return {"sat": "sat", "unsat": "unsat", "unknown": "unknown"}.get(line, "err")


# ----------------------------------------------------------------- model encodings

def raw_enc(kind):
    if kind is None:
        return [2, 0, 0]
    if kind == "hang":
        return [1, 1, 0]
    out = reply_text(kind)[0].replace("\r\n", "\n").replace("\r", "\n")  # Popen(text=True): universal newlines
    cs = [ord(c) for c in out]
    return [0, 0 if kind == "sat_badmodel" else 1, len(cs)] + cs


ANS_NAME = {0: "sat", 1: "sat", 2: "unsat", 3: "unknown", 4: "err", -1: "raise"}


def case_answers_calls(case):
    """model calls computing the truthful answer of every path's query."""
    calls = []
    for j, k in enumerate(case["paths"]):
        r1 = case["replies"].get(str(j))
        r2 = case.get("refined", {}).get(str(j))
        refinable = 1 if (case.get("mul") and r2 is not None) else 0
        calls.append(("c05_job", [0, 0, refinable] + raw_enc(r1 or "unsat") + raw_enc(r2)))
    return calls


def schedules(case, n, raises=(), by_delay=True):
    """event lists the model is run on: all main steps then callbacks by completion time;
    plus, under --early-exit, for every stuck path k the schedule in which the callbacks of
    earlier queries run between the flag check and the body of path k.  The body step of a
    stuck path whose synchronous solve raises (model: solve_low_level = None) is EvMainRaise (-2)."""
    order = sorted(range(n), key=lambda j: (case.get("delays", {}).get(str(j), 0) if by_delay else 0, j))
    mains = []
    for k in range(n):
        mains += [-1, -2 if k in raises else -1]
    mains += [-1, -1]
    out = [("late", mains + order)]
    if case.get("ee"):
        for k, kind in enumerate(case["paths"]):
            if kind == "stuck":
                out.append((f"stale@{k}", mains[:2 * k + 1] + [j for j in order if j < k] + mains[2 * k + 1:] + order))
    return out


# ----------------------------------------------------------------- the unsat-core cache

def sym_ids(n, j):
    """Names (small naturals) of the assertions in the query of path_id j of the fabricated n-path
    test: 0 = the balance assumption, 1+i = `x != i`, 100+i = `x == i`.  halmos explores the
    fall-through branch first, then the jump targets from the last comparison backwards, so path 0
    carries every `!=`, path j>0 the first n-1-j of them and `x == n-1-j`.  Checked against the
    dumped query files of every run (check_ids)."""
    if j == 0:
        return [0] + [1 + i for i in range(n - 1)]
    return [0] + [1 + i for i in range(n - 1 - j)] + [100 + (n - 1 - j)]


def check_ids(case, named, test="check_p"):
    """the dumped queries name their assertions as sym_ids predicts (up to renaming)."""
    n = len(case["paths"])
    ren = {}
    for f, names in named.items():
        d, _, base = f.rpartition("/")
        if d != test or not base.endswith(".smt2") or ".refined" in base:
            continue
        want = sym_ids(n, int(base[:-5]))
        if len(names) != len(want):
            return f"{f}: {len(names)} named assertions, expected {len(want)}"
        for a, b in zip(names, want):
            if ren.setdefault(a, b) != b:
                return f"{f}: assertion name {a} stands for {ren[a]} and {b}"
    if len(set(ren.values())) != len(ren):
        return "two assertion names for one condition"
    return None


def final_reply(case, j):
    r1 = case["replies"].get(str(j))
    r2 = case.get("refined", {}).get(str(j))
    return r2 if (case.get("mul") and r1 == "sat_invalid" and r2 is not None) else r1


def reply_core(case, j):
    """core list parsed from the final reply for the query of path j (None: no list / not unsat)."""
    k = final_reply(case, j)
    if not case.get("cache") or k not in UNSAT_KINDS:
        return None
    return core_names(k, sym_ids(len(case["paths"]), j))


def core_consistent(case, answers):
    """the hypothesis of C05_cache_refines on the scripted solver: every potential-violation query that
    contains a non-empty core reported for another one is itself answered unsat."""
    paths = case["paths"]
    n = len(paths)
    pot = [j for j, k in enumerate(paths) if k in POTENTIAL]
    for p in pot:
        c = reply_core(case, p) if answers[p] == "unsat" else None
        if not c:
            continue
        for q in pot:
            if set(c) <= set(sym_ids(n, q)) and answers[q] != "unsat":
                return False
    return True


def enc_olist(c):
    return [-1] if c is None else [len(c)] + list(c)


def cache_events(sched, pot, mode):
    """plain schedule (main steps < 0, callback of path j = j) -> events of the cache model
    (CStart j = 2j, CCb j = 2j+1).  mode `seq`: the worker enters solve_end_to_end right before its
    callback runs (one worker thread: as late as possible); mode `eager`: right after the main
    loop has submitted the query (a free worker thread for every query)."""
    ev, mains = [], 0
    for e in sched:
        if e < 0:
            ev.append(e)
            mains += 1
            if mode == "eager" and mains % 2 == 0 and (mains // 2 - 1) in pot:
                ev.append(2 * (mains // 2 - 1))
        else:
            if mode == "seq":
                ev.append(2 * e)
            ev.append(2 * e + 1)
    return ev


def cache_run_calls(case, codes, raises):
    """(name, model call) for every schedule the implementation may have followed."""
    paths = case["paths"]
    n = len(paths)
    pot = {j for j, k in enumerate(paths) if k in POTENTIAL}
    enc = []
    for j, k in enumerate(paths):
        enc += [KIND_CODE[k], codes[j]] + enc_olist(sym_ids(n, j)) + enc_olist(reply_core(case, j) if codes[j] == 2 else None)
    head = [1 if case.get("cache") else 0, 1 if case.get("ee") else 0, n] + enc
    out = []
    for name, sched in schedules(case, n, raises, by_delay=False):
        out.append((f"seq/{name}", ("c05_crun", head + cache_events(sched, pot, "seq"))))
    if case.get("threads") != 1:
        for name, sched in schedules(case, n, raises):
            out.append((f"eager/{name}", ("c05_crun", head + cache_events(sched, pot, "eager"))))
            out.append((f"seq-by-delay/{name}", ("c05_crun", head + cache_events(sched, pot, "seq"))))
    return out


# ----------------------------------------------------------------- X4 / X5 cases

def script_of(case, tests=("check_p",)):
    script = {"default": {"reply": "unsat"}}
    for t in tests:
        rep = case["replies"] if len(tests) == 1 else case["per_test"][t]
        for j, kind in rep.items():
            script[f"{t}/{j}.smt2"] = {"reply": kind, "delay": case.get("delays", {}).get(j, 0)}
        for j, kind in case.get("refined", {}).items():
            script[f"{t}/{j}.refined.smt2"] = {"reply": kind, "delay": 0}
    return script


def _has_hang(case):
    reps = list(case.get("replies", {}).values()) + list(case.get("refined", {}).values())
    for d in case.get("per_test", {}).values():
        reps += list(d.values())
    return "hang" in reps


def run_case(case):
    """Runs halmos on one fabricated project.  The solver timeout is huge (a starved solver
    process on a loaded machine must not read as `unknown`) unless the script contains a `hang`
    reply; then it is short, and the call log is used to tell whether every other scripted answer
    was really delivered: if not, the run is repeated, and finally set aside as inconclusive
    (only when the query file was written, i.e. halmos did ask)."""
    tests = tuple(case.get("tests", ("check_p",)))
    hang = _has_hang(case)
    last = None
    for attempt in range(3 if hang else 1):
        d = tempfile.mkdtemp(prefix="c05_")
        try:
            e2e.make_project(d, case["paths"], mul=case.get("mul", False), tests=tests, setup=case.get("setup", False))
            r = e2e.run_halmos(d, script_of(case, tests), early_exit=case.get("ee", False), cache_solver=case.get("cache", False),
                               timeout_ms=(2500 * (attempt + 1)) if hang else 300000, stale_read=case.get("stale"),
                               extra=case.get("extra", ()), wall=900, threads=case.get("threads"))
        finally:
            shutil.rmtree(d, ignore_errors=True)
        ended = {c[0] for c in r["calls"] if c[2] == "end"}
        res = {"rc": r["rc"], "status": r["status"], "json": r["json"], "calls": [c[:3] for c in r["calls"]], "log_tail": r["log"][-1500:], "attempt": attempt,
               "named": r.get("named", {})}
        last = res
        starved = []
        if hang and not case.get("ee"):
            for t in tests:
                reps = case["replies"] if len(tests) == 1 else case["per_test"][t]
                for jj, kind in reps.items():
                    q = f"{t}/{jj}.smt2"
                    if case["paths"][int(jj)] in POTENTIAL + ("stuck",) and kind != "hang" and q not in ended and q in r["smt_files"]:
                        starved.append(q)
        res["starved"] = starved
        if r["rc"] == -999 or starved:
            continue
        return res
    last["inconclusive"] = bool(last.get("starved")) or last["rc"] == -999
    return last


def _sig(t, case):
    if t == "setUp":
        return "setUp()"
    return f"{t}(uint256,uint256)" if case.get("mul") else f"{t}(uint256)"


def impl_obs(case, res, t="check_p"):
    sig = _sig(t, case)
    js = res["json"] or {}
    tr = None
    for lst in (js.get("test_results") or {}).values():
        for x in lst:
            if x["name"] == sig:
                tr = x
    return {
        "label": res["status"].get(sig),
        "code": tr["exitcode"] if tr else None,
        "normal": tr["num_paths"][1] if tr and tr.get("num_paths") else None,
        "nstuck": tr["num_paths"][2] if tr and tr.get("num_paths") else None,
        "num_models": tr.get("num_models") if tr else None,
    }


def gen_cases(tier, r):
    cases = []

    def mk(paths, replies, **kw):
        c = {"paths": list(paths), "replies": {str(j): k for j, k in replies.items()}}
        c.update(kw)
        return c

    # corpus: one case per verdict arm and per fault class, the precedence pairs, order permutations
    cases.append(mk(["success"], {}))
    cases.append(mk(["revert"], {}))
    cases.append(mk(["success", "revert"], {}))
    cases.append(mk(["stuck", "success"], {0: "unsat"}))
    cases.append(mk(["stuck", "success"], {0: "sat"}))
    cases.append(mk(["success", "stuck"], {1: "unknown"}))
    cases.append(mk(["success", "stuck"], {1: "garbage"}))
    for k in ASYNC_REPLIES:
        if k == "hang" and tier == "quick":
            continue
        cases.append(mk(["success", "panic"], {1: k}))
        cases.append(mk(["failflag", "success"], {0: k}, cache=True))
    cases.append(mk(["success", "panic"], {1: "hang"}))
    cases.append(mk(["success", "stuck"], {1: "hang"}))
    # precedence pairs among two potential paths, both orders, both completion orders
    prec = ["sat", "sat_invalid", "crash", "unknown", "unsat"]
    for a, b in itertools.permutations(prec, 2):
        cases.append(mk(["panic", "failflag", "success"], {0: a, 1: b}, delays={"0": 0.6, "1": 0}))
        if tier != "quick":
            cases.append(mk(["panic", "failflag", "success"], {0: a, 1: b}, delays={"0": 0, "1": 0.6}))
    # stuck / all reverted against solver classes
    for a in ["sat", "crash", "unknown", "unsat"]:
        cases.append(mk(["stuck", "panic", "success"], {0: "sat", 1: a}))
        cases.append(mk(["panic", "revert"], {0: a}))
        cases.append(mk(["stuck", "panic", "revert"], {0: "unsat", 1: a}))
    # refinement (query with f_evm_bvmul): first answer abstract, refined answer decides
    for k2 in ["unsat", "sat", "unknown", "empty", "sat_invalid"]:
        cases.append(mk(["panic", "success"], {0: "sat_invalid"}, refined={"0": k2}, mul=True))
    # --early-exit
    cases.append(mk(["panic", "panic", "success"], {0: "sat", 1: "unsat"}, ee=True))
    cases.append(mk(["panic", "failflag", "panic", "success"], {0: "unsat", 1: "sat", 2: "crash"}, ee=True, delays={"1": 0.5}))
    cases.append(mk(["panic", "failflag", "success"], {0: "sat_invalid", 1: "unknown"}, ee=True))
    cases.append(mk(["success", "panic", "revert", "failflag"], {1: "sat", 3: "sat"}, ee=True, cache=True))
    cases.append(mk(["success", "panic"], {1: "unsat"}, ee=True))
    cases.append(mk(["stuck", "panic", "success"], {0: "sat", 1: "sat"}, ee=True))
    # a stuck path whose solver answer makes solve_low_level raise (unparsable model), next to a real counterexample (formerly F8b)
    cases.append(mk(["panic", "stuck", "success"], {0: "sat", 1: "sat_badmodel"}))
    cases.append(mk(["stuck", "success"], {0: "sat_badmodel"}))
    # --cache-solver: the shared list of unsat cores makes the answer to a query depend on which callbacks ran
    # before its worker started.  threads=1: answers are consumed strictly in submission order (every earlier core
    # is visible to every later query); default threads + a delay on the early answers: the opposite order.
    #  - an `unsat` answer with an EMPTY core next to a real counterexample, in both submission orders
    cases.append(mk(["panic", "panic", "success"], {0: "unsat_core0", 1: "sat"}, cache=True, threads=1))
    cases.append(mk(["panic", "failflag", "success"], {0: "sat", 1: "unsat_core0"}, cache=True, threads=1))
    cases.append(mk(["failflag", "panic", "panic", "success"], {0: "unsat_nocore", 1: "unsat_core0", 2: "sat_invalid"}, cache=True, threads=1))
    cases.append(mk(["panic", "panic", "success"], {0: "unsat_core0", 1: "crash"}, cache=True, threads=1, ee=True))
    #  - a shared-prefix core: the later queries are answered from the cache (consistent script: they are unsat)
    cases.append(mk(["panic", "failflag", "panic", "success"], {0: "unsat_core1", 1: "unsat", 2: "unsat_core2"}, cache=True, threads=1))
    cases.append(mk(["panic", "failflag", "success"], {0: "unsat_core1", 1: "unsat"}, cache=True, delays={"0": 0.7, "1": 0}))
    #  - the stuck-path solve neither reads nor feeds the cache
    cases.append(mk(["panic", "stuck", "failflag", "success"], {0: "unsat_core1", 1: "sat", 2: "unsat"}, cache=True, threads=1))
    #  - a solver that does not honour its own core (outside the theorem's hypothesis; model vs implementation only):
    #    the second query never reaches the solver
    cases.append(mk(["panic", "panic", "success"], {0: "unsat_core1", 1: "sat"}, cache=True, threads=1))
    if tier != "quick":
        cases.append(mk(["panic", "panic", "success"], {0: "unsat_core0", 1: "unknown"}, cache=True, threads=1))
        cases.append(mk(["panic", "failflag", "success"], {0: "unsat_core2", 1: "unsat_nocore"}, cache=True, threads=1))
        cases.append(mk(["stuck", "panic", "success"], {0: "unsat_core1", 1: "sat"}, cache=True, threads=1))
        cases.append(mk(["panic", "failflag", "success"], {0: "unsat_core2", 1: "unknown"}, cache=True, threads=1))
        for a, b in itertools.product(["unsat_core0", "unsat_core1", "unsat_core2", "unsat_nocore", "unsat"], ["sat", "sat_invalid", "unknown", "crash", "unsat", "unsat_core0"]):
            cases.append(mk(["panic", "failflag", "success"], {0: a, 1: b}, cache=True, threads=1))
            cases.append(mk(["failflag", "panic", "success"], {0: b, 1: a}, cache=True, threads=1))
            cases.append(mk(["panic", "failflag", "success"], {0: a, 1: b}, cache=True, delays={"0": 0.7, "1": 0}))
    # forced schedule: stale read of the shutdown flag right before a stuck path (formerly F8: ShutdownError left run_test)
    cases.append(mk(["panic", "stuck", "success"], {0: "sat", 1: "sat"}, ee=True, stale=1))
    if tier != "quick":
        cases.append(mk(["panic", "success", "stuck"], {0: "sat", 2: "unsat"}, ee=True, stale=2))
        cases.append(mk(["failflag", "stuck"], {0: "rc1_sat", 1: "unknown"}, ee=True, stale=1, cache=True))
    # random / exhaustive part
    kinds = list(KIND_CODE)
    if tier == "quick":
        n_random = 16
        pool = []
    else:
        n_random = 120
        pool = []
        small = ["sat", "sat_invalid", "unsat", "unknown", "crash", "empty"]
        for n in (1, 2, 3):
            for ps in itertools.product(kinds, repeat=n):
                need = [j for j, k in enumerate(ps) if k in POTENTIAL or k == "stuck"]
                for reps in itertools.product(small, repeat=len(need)):
                    pool.append((ps, dict(zip(need, reps))))
        r.shuffle(pool)
        pool = pool[:500]
        for ps, reps in pool:
            cases.append(mk(ps, reps, ee=r.random() < 0.3 and "stuck" not in ps, cache=r.random() < 0.3))
    for _ in range(n_random):
        n = r.choice([1, 2, 3, 3, 4, 4])
        ps = [r.choice(kinds + ["panic", "failflag", "stuck"]) for _ in range(n)]
        reps, delays = {}, {}
        cache = r.random() < 0.5
        for j, k in enumerate(ps):
            if k in POTENTIAL or k == "stuck":
                reps[j] = r.choice([x for x in ASYNC_REPLIES if x != "hang"] + ["unsat", "unsat", "sat"] + (CORE_REPLIES * 2 if cache else []))
                if k in POTENTIAL and r.random() < 0.4:
                    delays[str(j)] = r.choice([0.2, 0.5, 0.8])
        ee = r.random() < 0.35
        extra = {"threads": 1} if cache and r.random() < 0.6 else {}
        cases.append(mk(ps, reps, delays=delays, ee=ee, cache=cache, **extra))
    return cases


def gen_multi(tier, r):
    """several tests in one contract (same paths, per-test scripts), failing setUp, no test selected."""
    out = []
    base = ["success", "panic"]
    combos = [("unsat", "unsat"), ("unsat", "sat"), ("crash", "unsat"), ("unknown", "unknown"), ("sat", "garbage")]
    if tier != "quick":
        combos += list(itertools.product(["unsat", "sat", "unknown", "empty"], repeat=2))
    for a, b in combos:
        out.append({"paths": base, "tests": ["check_a", "check_b"], "per_test": {"check_a": {"1": a}, "check_b": {"1": b}}, "replies": {}})
    # setUp() runs the x == 0 branch (the last path): success -> tests run; revert -> setUp fails, no results
    out.append({"paths": ["success", "success"], "tests": ["check_a", "check_b"], "setup": True, "per_test": {"check_a": {}, "check_b": {}}, "replies": {}})
    out.append({"paths": ["success", "revert"], "tests": ["check_a", "check_b"], "setup": True, "per_test": {"check_a": {}, "check_b": {}}, "replies": {}, "setup_fails": True})
    out.append({"paths": ["success"], "tests": ["check_a"], "per_test": {"check_a": {}}, "replies": {}, "extra": ["--match-test", "nomatch"], "no_tests": True})
    return out


# ----------------------------------------------------------------- X1..X3

def gen_stdouts(tier, r):
    toks = ["sat", "unsat", "unknown", "\n", " ", "\r", "Sat", "UNSAT", "error", "(", ")", "f_evm_", "f_evm_bvudiv_256", "x", "sa", "t",
            "(define-fun halmos_x_uint256_00 () (_ BitVec 256) #x01)", "(define-fun halmos_bad () (_ BitVec 8) #x01)", "timeout", "\t", "un", "known"]
    outs = ["", "sat", "unsat", "unknown", "sat\n", "unsat\n", "unknown\n", "\nsat", " sat", "sat ", "sat\r\n", "unsat\r\n", "SAT\n", "unsat\n(error \"x\")\n(<1> <2>)\n",
            "sat\n(\n(define-fun f_evm_bvmul_256 ((x (_ BitVec 256))) (_ BitVec 256) #x00)\n)", "sat\nf_evm_", "satf_evm_\n", "sat\n(define-fun halmos_bad () (_ BitVec 8) #x01)",
            "unsat\nf_evm_", "unknown\nsat\n", "unsatsat", "sat\x00", "\n", "\n\n", "error\nsat"]
    for k in ASYNC_REPLIES:
        outs.append(reply_text(k)[0])
    n = 250 if tier == "quick" else 4000
    for _ in range(n):
        outs.append("".join(r.choice(toks) for _ in range(r.randint(0, 5))))
    return outs


def impl_from_result(stdouts):
    from halmos.solve import SolverOutput, parse_model_str

    args = types.SimpleNamespace(verbose=0, cache_solver=False)
    pc = types.SimpleNamespace(args=args, path_id=0, dump_file="q.smt2")
    res = []
    import logging

    logging.disable(logging.CRITICAL)
    try:
        for s in stdouts:
            try:
                parse_model_str(s)
                ok = 1
            except Exception:  # noqa: BLE001
                ok = 0
            try:
                o = SolverOutput.from_result(s, "", r_rc(s), pc)
                cls = str(o.result)
                code = {"unsat": 2, "unknown": 3, "err": 4}.get(cls)
                if cls == "sat":
                    code = 0 if o.model.is_valid else 1
            except Exception:  # noqa: BLE001
                code = -1
            res.append((ok, code))
    finally:
        logging.disable(logging.NOTSET)
    return res


def r_rc(s):
    return len(s) % 3  # the return code must not matter


def impl_get_solver_output(combos):
    """combos: (shutdown, kind) with kind in result classes / 'exc_shutdown' / 'exc_value' / 'exc_oserror9'."""
    import logging

    from halmos.__main__ import CounterexampleHandler
    from halmos.processes import ShutdownError
    from halmos.solve import PotentialModel, SolverOutput
    from z3 import sat, unknown, unsat

    logging.disable(logging.CRITICAL)
    out = []
    try:
        for sh, kind in combos:
            ex = types.SimpleNamespace(is_shutdown=lambda sh=sh: bool(sh))
            ctx = types.SimpleNamespace(solving_ctx=types.SimpleNamespace(executor=ex))
            h = CounterexampleHandler(ctx=ctx, is_invariant=False, is_probe=False, flamegraph_enabled=False, potential_flamegraphs={}, submitted_futures=[])
            f = Future()
            if kind == "exc_shutdown":
                f.set_exception(ShutdownError())
            elif kind == "exc_value":
                f.set_exception(ValueError("x"))
            elif kind == "exc_oserror9":
                f.set_exception(OSError(9, "bad fd"))
            else:
                res = {"sat_valid": sat, "sat_invalid": sat, "unsat": unsat, "unknown": unknown, "err": "err"}[kind]
                model = PotentialModel(model={}, is_valid=(kind == "sat_valid")) if res == sat else None
                f.set_result(SolverOutput(res, 0, 7, "q.smt2", model=model))
            pc = types.SimpleNamespace(path_id=7, dump_file="q.smt2")
            o = h._get_solver_output(f, pc)
            cls = str(o.result)
            code = {"unsat": 2, "unknown": 3, "err": 4}.get(cls)
            if cls == "sat":
                code = 0 if o.model.is_valid else 1
            out.append(code if o.path_id == 7 else -7)
    finally:
        logging.disable(logging.NOTSET)
    return out


def impl_check_unsat_cores(cases):
    from halmos.sevm import SMTQuery
    from halmos.solve import check_unsat_cores

    return [bool(check_unsat_cores(SMTQuery("", [str(x) for x in ids]), [[str(x) for x in c0] for c0 in cores])) for ids, cores in cases]


def impl_callback_append(cases):
    """(shutdown, result kind, unsat_core) -> what the real _solve_end_to_end_callback leaves in the shared core list."""
    import logging

    from halmos.__main__ import CounterexampleHandler
    from halmos.solve import SolverOutput
    from z3 import sat, unknown, unsat

    logging.disable(logging.CRITICAL)
    out = []
    wd = tempfile.mkdtemp(prefix="c05_cb_")
    try:
        for sh, kind, core in cases:
            cached = []
            ex = types.SimpleNamespace(is_shutdown=lambda sh=sh: bool(sh))
            sctx = types.SimpleNamespace(executor=ex, dump_dir=Path(wd) / "q", unsat_cores=cached)
            ctx = types.SimpleNamespace(
                solving_ctx=sctx, args=types.SimpleNamespace(verbose=0, early_exit=False, cache_solver=True), solver_outputs=[],
                valid_counterexamples=[], invalid_counterexamples=[], call_sequences={}, traces={},
                append_unsat_core=lambda c0, cached=cached: cached.append(c0), info=types.SimpleNamespace(name="t"))
            h = CounterexampleHandler(ctx=ctx, is_invariant=False, is_probe=False, flamegraph_enabled=False, potential_flamegraphs={}, submitted_futures=[])
            f = Future()
            res = {"unsat": unsat, "sat_nomodel": sat, "unknown": unknown, "err": "err"}[kind]
            f.set_result(SolverOutput(res, 0, 7, str(Path(wd) / "q" / "7.smt2"), unsat_core=None if core is None else [str(x) for x in core]))
            pc = types.SimpleNamespace(path_id=7, dump_file=Path(wd) / "q" / "7.smt2")
            try:
                h._solve_end_to_end_callback(f, ex=None, path_ctx=pc, description="")
                out.append([[int(x) for x in c0] for c0 in cached])
            except Exception as e:  # noqa: BLE001
                out.append(f"EXC {type(e).__name__}: {e}")
    finally:
        logging.disable(logging.NOTSET)
        shutil.rmtree(wd, ignore_errors=True)
        for suffix in ("-error", "-timeout"):
            shutil.rmtree(str(Path(wd) / "q") + suffix, ignore_errors=True)
    return out


def impl_solve_e2e(jobs, workdir):
    """jobs: dict(r1, r2, refinable, hit, cache, stuck) -> recorded answer code via the real
    solve_end_to_end / solve_low_level with the scripted solver as a real subprocess."""
    import logging

    from halmos.sevm import SMTQuery
    from halmos.solve import PathContext, SolvingContext, solve_end_to_end, solve_low_level

    logging.disable(logging.CRITICAL)
    out = []

    def attempt(i, job, k):
        d = Path(workdir) / f"j{i}_{k}"
        (d / "q").mkdir(parents=True)
        script = {"q/0.smt2": {"reply": job["r1"]}, "q/0.refined.smt2": {"reply": job["r2"] or "unsat"}}
        (d / "script.json").write_text(json.dumps(script))
        dump = d / "q"   # a pathlib.Path is a valid DumpDirectory
        args = types.SimpleNamespace(
            verbose=0, cache_solver=job["cache"], solver_timeout_assertion=job.get("timeout", 300.0),
            resolved_solver_command=[e2e.PY, "-S", str(e2e.HERE / "c05_fake_solver.py"), str(d / "script.json"), str(d / "calls.log")])
        sctx = SolvingContext(dump_dir=dump)
        decl = "(declare-fun f_evm_bvmul_256 ((_ BitVec 256) (_ BitVec 256)) (_ BitVec 256))\n" if job["refinable"] else ""
        smt = decl + "(declare-fun halmos_x_uint256_0123456_00 () (_ BitVec 256))\n(declare-fun |1| () Bool)\n(assert (=> |1| (= halmos_x_uint256_0123456_00 #x" + "0" * 64 + ")))"
        q = SMTQuery(smt, ["1", "2"])
        if job["hit"]:
            sctx.unsat_cores.append(["1"])
        pc = PathContext(args=args, path_id=0, solving_ctx=sctx, query=q)
        try:
            o = solve_low_level(pc) if job["stuck"] else solve_end_to_end(pc)
            cls = str(o.result)
            code = {"unsat": 2, "unknown": 3, "err": 4}.get(cls)
            if cls == "sat":
                code = 0 if o.model.is_valid else 1
        except Exception:  # noqa: BLE001
            code = -1
        finally:
            try:
                sctx.executor.shutdown(wait=False)
            except Exception:  # noqa: BLE001
                pass
        calls = (d / "calls.log").read_text().split("\n") if (d / "calls.log").exists() else []
        return code, sum(1 for c in calls if " start " in c)


    def one(ij):
        i, job = ij
        return attempt(i, job, 0)

    try:
        with ThreadPoolExecutor(6) as ex:
            out = list(ex.map(one, enumerate(jobs)))
    finally:
        logging.disable(logging.NOTSET)
    return out


# ----------------------------------------------------------------- the check

def local_known(sig):
    for k in KNOWN:
        if all(sig.get(a) == b for a, b in k["match"].items()):
            return k
    return None


def report_failing_input(rep, what, case, sig):
    """A genuine property failure on the real code.  If it is one of this module's KNOWN
    defects and known_findings.json does not list it yet, it is printed and recorded in the
    evidence without failing the check (the coordinator moves the entry to known_findings.json
    or repairs it); anything else goes through the normal failure path."""
    k = local_known(sig)
    listed = any(f.get("property") == PID and common.finding_matches(f, {"sig": sig}) for f in common.known_findings().get("findings", []))
    if k and not listed:
        hits = rep.coverage.setdefault("local_known_findings", {})
        if k["id"] not in hits:
            print(f"KNOWN-FINDING(local, not yet in known_findings.json): property={PID} {k['id']}: {k['what']}")
            hits[k["id"]] = {"what": k["what"], "occurrences": 0, "example": case}
        hits[k["id"]]["occurrences"] += 1
        return
    rep.fail("failing-input", what, case=case, sig=sig)


def _lap(what, t=[None]):
    """section timing on stderr when C05_TIMING is set"""
    import sys
    import time

    now = time.time()
    if os.environ.get("C05_TIMING") and t[0] is not None:
        sys.stderr.write(f"C05-TIMING {what}: {now - t[0]:.1f}s\n")
    t[0] = now


def run(rep, tier):
    _lap("start")
    b = common.build_property(PID, TRANSLATORS)
    _lap("translators + coq build")
    common.standard_obligations(rep, PID, b)
    exe = None
    if b["make_ok"]:
        exe, log = common.build_driver(PID)
        rep.obligation("extraction of Model/VerdictModel.v entry points + OCaml driver build", exe is not None, "" if exe else log[-800:])
        if exe is None:
            rep.fail("broken-tie", "extracted model driver does not build: " + log[-400:], case={})
    m = Model(exe) if exe else None
    r = common.rng(PID)

    _lap("driver build")
    # ---------------- X1 from_result
    stdouts = gen_stdouts(tier, r)
    impl = impl_from_result(stdouts)
    mres = m.parallel_batch([("c05_from_result", [ok] + [min(ord(c), 255) for c in s]) for s, (ok, _) in zip(stdouts, impl)]) if m else None
    nbad = 0
    for i, (s, (ok, code)) in enumerate(zip(stdouts, impl)):
        cls = spec_first_line(s)
        nontrivial = cls != "err" or any(t in s for t in ("sat", "unknown"))
        rep.case({"tie": "from_result", "stdout": s[:80]}, nontrivial=nontrivial)
        rep.count("from_result_class", cls)
        got = ANS_NAME.get(code, str(code))
        if any(ord(c) > 255 for c in s):
            continue
        if not (got == cls or (cls == "sat" and got == "raise" and not ok)):
            nbad += 1
            if nbad <= 5:
                rep.fail("failing-input", f"SolverOutput.from_result({s[:60]!r}) is {got}; the first line says {cls}", case={"tie": "from_result", "stdout": s, "implementation": got, "spec": cls}, sig={"observable": "from_result"})
            continue
        if mres is not None and mres[i] != [code]:
            nbad += 1
            if nbad <= 5:
                rep.fail("broken-tie", f"from_result({s[:60]!r}): implementation {code}, model {mres[i]}", case={"tie": "from_result", "stdout": s, "implementation": code, "model": mres[i]})

    _lap("X1")
    # ---------------- X2 _get_solver_output
    combos = [(sh, k) for sh in (0, 1) for k in ("sat_valid", "sat_invalid", "unsat", "unknown", "err", "exc_shutdown", "exc_value", "exc_oserror9")]
    got = impl_get_solver_output(combos)
    raw_of = {"sat_valid": "sat", "sat_invalid": "sat_invalid", "unsat": "unsat", "unknown": "unknown", "err": "garbage"}
    calls = [("c05_job", [sh, 0, 0] + raw_enc(raw_of.get(k)) + raw_enc(None)) for sh, k in combos]
    mres = m.batch(calls) if m else None
    for i, ((sh, k), g) in enumerate(zip(combos, got)):
        rep.case({"tie": "get_solver_output", "shutdown": sh, "future": k}, nontrivial=True)
        spec = 4 if (sh or k.startswith("exc") or k == "err") else {"sat_valid": 0, "sat_invalid": 1, "unsat": 2, "unknown": 3}[k]
        if g != spec:
            rep.fail("failing-input", f"_get_solver_output(shutdown={sh}, future={k}) gives class code {g}, expected {spec}", case={"tie": "get_solver_output", "shutdown": sh, "future": k}, sig={"observable": "get_solver_output"})
        elif mres is not None and mres[i][0] != g:
            rep.fail("broken-tie", f"_get_solver_output(shutdown={sh}, future={k}): implementation {g}, model {mres[i][0]}", case={"tie": "get_solver_output", "shutdown": sh, "future": k})

    _lap("X2")
    # ---------------- X2b the shared core list: check_unsat_cores, and what the callback appends to it
    hit_cases = [([], []), ([1], []), ([], [[]]), ([1, 2], [[]]), ([1, 2], [[1]]), ([1, 2], [[3]]), ([1, 2], [[1, 3]]), ([1, 2], [[2, 1]]), ([1, 2], [[3], [2]]),
                 ([1, 2, 3], [[1, 4], [3, 3]]), ([5], [[5, 5]]), ([1, 2], [[1, 2, 3]])]
    for _ in range(60 if tier == "quick" else 1500):
        ids = [r.randint(0, 5) for _ in range(r.randint(0, 4))]
        hit_cases.append((ids, [[r.randint(0, 5) for _ in range(r.randint(0, 3))] for _ in range(r.randint(0, 3))]))
    got = impl_check_unsat_cores(hit_cases)
    mres = m.batch([("c05_hit", enc_olist(ids) + [len(cores)] + [x for c0 in cores for x in enc_olist(c0)]) for ids, cores in hit_cases]) if m else None
    for i, ((ids, cores), g) in enumerate(zip(hit_cases, got)):
        rep.case({"tie": "check_unsat_cores", "ids": ids, "cores": cores}, nontrivial=bool(cores))
        spec = any(set(c0) <= set(ids) for c0 in cores)   # some cached core is contained in the query
        if g and not spec:
            # answering `unsat` without the solver is only justified by a cached core that the query contains
            # (the other direction -- a missed hit -- costs a solver call, not a verdict: model comparison only)
            rep.fail("failing-input", f"check_unsat_cores(ids={ids}, cores={cores}) = True although the query contains none of the cached cores: it would be answered unsat without asking the solver",
                     case={"tie": "check_unsat_cores", "ids": ids, "cores": cores}, sig={"observable": "check_unsat_cores"})
        elif mres is not None and mres[i] != [1 if g else 0]:
            rep.fail("broken-tie", f"check_unsat_cores(ids={ids}, cores={cores}): implementation {g}, model {mres[i]}", case={"tie": "check_unsat_cores", "ids": ids, "cores": cores})
    app_cases = [(sh, k, core) for sh in (0, 1) for k in ("unsat", "sat_nomodel", "unknown", "err") for core in (None, [], [5], [5, 7])]
    got = impl_callback_append(app_cases)
    mres = m.batch([("c05_append", [1 if (k == "unsat" and not sh) else 0] + enc_olist(None if sh else core)) for sh, k, core in app_cases]) if m else None
    for i, ((sh, k, core), g) in enumerate(zip(app_cases, got)):
        rep.case({"tie": "callback-append", "shutdown": sh, "result": k, "core": core}, nontrivial=True)
        # an output enters the shared list iff it is a live `unsat` carrying a NON-EMPTY core: every later query that
        # contains a cached core is answered unsat without a solver call, and every query contains the empty list
        spec = [core] if (k == "unsat" and not sh and core) else []
        if g != spec:
            rep.fail("failing-input", f"callback on a {k} output (shutdown={sh}) with unsat_core={core} leaves {g} in the shared core list; expected {spec}"
                     + (" -- an empty core is contained in every query: all later queries of the test would be answered unsat without asking the solver" if g == [[]] else ""),
                     case={"tie": "callback-append", "shutdown": sh, "result": k, "core": core, "cached": g}, sig={"observable": "unsat-core-cache", "cached": "empty-core" if g == [[]] else "other"})
        elif mres is not None and mres[i] != [1 if g else 0]:
            rep.fail("broken-tie", f"callback append (shutdown={sh}, result={k}, core={core}): implementation appends {g}, model guard {mres[i]}", case={"tie": "callback-append", "shutdown": sh, "result": k, "core": core})

    _lap("X2b")
    # ---------------- X3 solve_end_to_end / solve_low_level with a real subprocess
    jobs = []
    kinds3 = [k for k in ASYNC_REPLIES if k != "hang"]
    for k in kinds3:
        jobs.append(dict(r1=k, r2=None, refinable=False, hit=False, cache=False, stuck=False))
        jobs.append(dict(r1=k, r2=None, refinable=False, hit=False, cache=False, stuck=True))
    for k2 in kinds3 if tier != "quick" else ["unsat", "sat", "sat_invalid", "unknown", "crash", "sat_badmodel"]:
        jobs.append(dict(r1="sat_invalid", r2=k2, refinable=True, hit=False, cache=False, stuck=False))
        jobs.append(dict(r1="sat_invalid", r2=k2, refinable=True, hit=False, cache=True, stuck=False))
    jobs.append(dict(r1="sat", r2="unsat", refinable=True, hit=False, cache=False, stuck=False))
    jobs.append(dict(r1="sat_invalid", r2="unsat", refinable=False, hit=False, cache=False, stuck=False))
    for k in ["sat", "crash", "unsat", "sat_invalid"]:
        jobs.append(dict(r1=k, r2=None, refinable=False, hit=True, cache=True, stuck=False))   # cache hit: no solver call
        jobs.append(dict(r1=k, r2=None, refinable=False, hit=True, cache=True, stuck=True))    # stuck solve ignores the cache
    jobs.append(dict(r1="hang", r2=None, refinable=False, hit=False, cache=False, stuck=False, timeout=0.7))
    jobs.append(dict(r1="hang", r2=None, refinable=False, hit=False, cache=False, stuck=True, timeout=0.7))
    wd = tempfile.mkdtemp(prefix="c05_l2_")
    try:
        got = impl_solve_e2e(jobs, wd)
    finally:
        shutil.rmtree(wd, ignore_errors=True)
    calls = []
    for j in jobs:
        hit = 1 if (j["hit"] and not j["stuck"]) else 0
        calls.append(("c05_job", [0, hit, 1 if j["refinable"] else 0] + raw_enc(j["r1"]) + raw_enc(j["r2"] if j["refinable"] else None)))
    mres = m.batch(calls) if m else None
    for i, (j, (code, ncalls)) in enumerate(zip(jobs, got)):
        rep.case({"tie": "solve_end_to_end", **j}, nontrivial=True)
        rep.count("l2_reply", j["r1"])
        if j["stuck"]:
            spec = spec_answer(j["r1"]) if j["r1"] != "sat_badmodel" else "raise"
            spec_calls = 1
        elif j["hit"]:
            spec, spec_calls = "unsat", 0
        else:
            spec = spec_answer(j["r1"], j["r2"] if j["refinable"] else None)
            if j["r1"] == "sat_badmodel" or (j["r1"] == "sat_invalid" and j["refinable"] and j["r2"] == "sat_badmodel"):
                spec = "raise"
            spec_calls = 2 if (j["r1"] == "sat_invalid" and j["refinable"]) else 1
        gname = ANS_NAME.get(code, str(code))
        if gname != spec or (ncalls != spec_calls and j["r1"] != "hang"):
            rep.fail("failing-input", f"solve ({j}) answered {gname} after {ncalls} solver call(s); expected {spec} after {spec_calls}", case={"tie": "solve_end_to_end", **j}, sig={"observable": "solve_end_to_end"})
        elif mres is not None:
            mcode = mres[i][1] if j["stuck"] else (mres[i][0] if code != -1 else None)
            if j["stuck"] and mcode != code:
                rep.fail("broken-tie", f"solve_low_level ({j}): implementation {code}, model {mcode}", case={"tie": "solve_low_level", **j})
            if not j["stuck"] and code != -1 and mcode != code:
                rep.fail("broken-tie", f"solve_end_to_end ({j}): implementation {code}, model {mcode}", case={"tie": "solve_end_to_end", **j})
            if not j["stuck"] and code == -1 and mres[i][0] != 4:
                rep.fail("broken-tie", f"solve_end_to_end ({j}) raised; the model's callback records {mres[i][0]} instead of err", case={"tie": "solve_end_to_end", **j})

    _lap("X3")
    # ---------------- X4 end to end
    cases = gen_cases(tier, r)
    multi = gen_multi(tier, r)
    workers = 12 if tier == "quick" else 14
    with ThreadPoolExecutor(workers) as ex:   # X4 and X5 runs share one pool
        results = list(ex.map(run_case, cases + multi))
    results, mresults = results[:len(cases)], results[len(cases):]
    # truthful answers through the model (string level) and through the spec table
    ans_model = None
    if m:
        flat, spans = [], []
        for c in cases:
            cs = case_answers_calls(c)
            spans.append((len(flat), len(cs)))
            flat += cs
        res = m.parallel_batch(flat)
        ans_model = [res[s:s + n] for s, n in spans]
    run_calls, run_index = [], []
    crun_calls, crun_index = [], []
    for ci, c in enumerate(cases):
        n = len(c["paths"])
        if ans_model is None:
            continue
        enc = []
        raises = set()
        for j, k in enumerate(c["paths"]):
            a = ans_model[ci][j]
            code = a[1] if k == "stuck" else a[0]
            if k == "stuck" and code < 0:
                raises.add(j)   # the model's solve_low_level raises on this reply
            enc += [KIND_CODE[k], code if code >= 0 else 4]
        for name, sched in schedules(c, n, raises):
            run_index.append((ci, name))
            run_calls.append(("c05_run", [1 if c.get("ee") else 0, n] + enc + sched))
        if c.get("cache"):
            for name, call in cache_run_calls(c, enc[1::2], raises):
                crun_index.append((ci, name))
                crun_calls.append(call)
    run_res = m.parallel_batch(run_calls) if m else []
    model_runs = {}
    for (ci, name), rr in zip(run_index, run_res):
        model_runs.setdefault(ci, {})[name] = rr
    cache_runs = {}
    for (ci, name), rr in zip(crun_index, m.parallel_batch(crun_calls) if m else []):
        cache_runs.setdefault(ci, {})[name] = rr
    nbad = 0
    n_inconclusive = 0
    for ci, (c, res) in enumerate(zip(cases, results)):
        paths = c["paths"]
        answers = []
        for j, k in enumerate(paths):
            if k in POTENTIAL:
                answers.append(spec_answer(c["replies"][str(j)], c.get("refined", {}).get(str(j)) if c.get("mul") else None))
            elif k == "stuck":
                answers.append(spec_answer(c["replies"][str(j)]))
            else:
                answers.append(None)
        want = spec_label(paths, answers)
        if res.get("inconclusive"):
            rep.count("mode", "inconclusive (solver process starved / harness timeout)")
            n_inconclusive += 1
            continue
        obs = impl_obs(c, res)
        nontrivial = any(k in POTENTIAL or k == "stuck" for k in paths)
        rep.case({"tie": "e2e", **{k: v for k, v in c.items()}}, nontrivial=nontrivial)
        rep.count("spec_verdict", want)
        rep.count("n_paths", len(paths))
        rep.count("mode", ("early-exit" if c.get("ee") else "plain") + ("+cache" if c.get("cache") else "") + ("+stale-read" if c.get("stale") is not None else ""))
        # under --cache-solver the specification speaks about solvers that honour their own (non-empty) cores
        consistent = True
        if c.get("cache"):
            consistent = core_consistent(c, answers)
            rep.count("cache_case", ("core-consistent script" if consistent else "solver does not honour its core (model vs implementation only)")
                      + (", one solver thread" if c.get("threads") == 1 else ", default threads"))
            for j, k in enumerate(paths):
                if k in POTENTIAL and answers[j] == "unsat":
                    rc = reply_core(c, j)
                    rep.count("unsat_core_shape", "none" if rc is None else "empty" if not rc else "all names" if len(rc) == len(sym_ids(len(paths), j)) else "shared prefix")
            bad_ids = check_ids(c, res.get("named", {}))
            if bad_ids:
                rep.fail("broken-tie", f"the dumped queries do not name their assertions as the harness assumes: {bad_ids}", case={"paths": paths, "named": res.get("named")})
        for j, k in enumerate(paths):
            rep.count("path_kind", k)
            if str(j) in c["replies"]:
                rep.count("reply_kind", c["replies"][str(j)])
        short = {"paths": paths, "replies": c["replies"], "delays": c.get("delays"), "refined": c.get("refined"), "early_exit": bool(c.get("ee")),
                 "cache_solver": bool(c.get("cache")), "solver_threads": c.get("threads"), "stale_read": c.get("stale"), "implementation": obs, "process_exit": res["rc"],
                 "json_exit": (res["json"] or {}).get("exitcode"), "log_tail": res["log_tail"][-700:]}
        # a stuck path whose synchronous solve raises (not a ShutdownError): the model's EvMainRaise step
        stuck_raises = any(k == "stuck" and c["replies"][str(j)] == "sat_badmodel" for j, k in enumerate(paths))
        # spec vs implementation
        ok_label = obs["label"] == want
        ok_exit = (res["rc"] != 0) == (want != "PASS") and (res["json"] or {}).get("exitcode") == res["rc"] and (obs["code"] == 0) == (want == "PASS")
        mr_all = (cache_runs if c.get("cache") else model_runs).get(ci, {})
        if consistent and not (ok_label and ok_exit):
            nbad += 1
            f8 = (c.get("ee") and want == "FAIL" and obs["label"] == "ERROR" and obs["code"] == 5 and "stuck" in paths and "ShutdownError" in res["log_tail"])
            f8b = (not f8 and want == "FAIL" and obs["label"] == "ERROR" and obs["code"] == 5 and stuck_raises and "Error" in res["log_tail"])
            sig = {"defect": "shutdown-error-escapes-stuck-solve"} if f8 else {"observable": "verdict", "spec": want, "implementation": obs["label"]}
            if f8b:
                mr = mr_all
                if m and not any(v[0] == 2 for v in mr.values()):
                    rep.fail("broken-tie", f"implementation raised out of run_test but no model schedule does, on {short}", case=short)
                report_failing_input(rep, f"verdict {obs['label']} (exit code {obs['code']}) where the property demands FAIL: {paths} {c['replies']}", short, {"defect": "stuck-solve-exception-escapes"})
            elif f8:
                # must also be what the model predicts for the stale-read schedule
                mr = mr_all
                if m and not any(v[0] == 2 for v in mr.values()):
                    rep.fail("broken-tie", f"implementation raised ShutdownError out of run_test but no model schedule does, on {short}", case=short)
                report_failing_input(rep, f"--early-exit: verdict {obs['label']} (exit code {obs['code']}) where the property demands FAIL: {paths} {c['replies']}", short, sig)
            elif nbad <= 8:
                rep.fail("failing-input", f"halmos reports {obs['label']} (test exit code {obs['code']}, process exit {res['rc']}) where the property demands {want}: paths {paths}, replies {c['replies']}, early_exit={bool(c.get('ee'))}", case=short, sig=sig)
            continue
        if c.get("stale") is not None:
            # the forced schedule was supposed to exhibit the defect; a FAIL here means the code no longer has it
            rep.coverage["stale_read_case_without_defect"] = rep.coverage.get("stale_read_case_without_defect", 0) + 1
        # model vs implementation
        mr = mr_all or None
        if mr is None:
            continue
        late = mr["seq/late" if c.get("cache") else "late"]
        allowed = {(LABELS[v[1]], v[2]) for v in mr.values() if v[0] in (1, 2)}
        if late[0] not in (1, 2):
            rep.fail("broken-tie", f"model did not finish on the canonical schedule for {short}: {late}", case=short)
            continue
        if (obs["label"], obs["code"]) not in allowed:
            rep.fail("broken-tie", f"implementation {(obs['label'], obs['code'])} not among the model's results {sorted(allowed)} on {short}", case=short)
            continue
        if not c.get("ee") and late[0] == 1 and (not c.get("cache") or consistent or c.get("threads") == 1):
            mo = {"normal": late[3], "nstuck": late[4], "num_models": late[5]}
            io = {k: obs[k] for k in mo}
            if mo != io:
                rep.fail("broken-tie", f"path counters differ: implementation {io}, model {mo} on {short}", case=short)
        if c.get("cache") and c.get("threads") == 1 and not c.get("ee") and late[0] == 1:
            # which queries never reached the solver: exactly those the model answers from the shared core list
            asked = sorted({int(q[0].split("/")[1].split(".")[0]) for q in res["calls"] if q[2] == "start" and ".refined" not in q[0]})
            hits = sorted(late[13:13 + late[12]])
            want_asked = sorted(j for j, k in enumerate(paths) if (k in POTENTIAL or k == "stuck") and j not in hits)
            rep.count("cache_hits", len(hits))
            if asked != want_asked:
                rep.fail("broken-tie", f"queries sent to the solver {asked}; the model answers {hits} from the cache and sends {want_asked} on {short}", case=short)

    if n_inconclusive > max(3, len(cases) // 10):
        rep.fail("broken-tie", f"{n_inconclusive} of {len(cases)} end-to-end runs were inconclusive (solver processes starved); the tie did not really run", case={"inconclusive": n_inconclusive})
    rep.coverage["inconclusive_runs"] = n_inconclusive

    _lap("X4")
    # ---------------- X5 several tests, setUp failure, nothing selected
    for c, res in zip(multi, mresults):
        tests = c["tests"]
        if res.get("inconclusive"):
            continue
        rep.case({"tie": "exit-code", **c}, nontrivial=True)
        rep.count("mode", "multi-test")
        labels, codes = [], []
        for t in tests:
            o = impl_obs(c, res, t)
            labels.append(o["label"])
            codes.append(o["code"])
        if c.get("no_tests"):
            want_labels, want_rc, contract = [None], 1, []   # documented: nothing selected -> exit 1
        elif c.get("setup_fails"):
            want_labels, want_rc, contract = [None] * len(tests), 1, [len(tests), 0]
        else:
            want_labels = [spec_label(c["paths"], [None if k not in POTENTIAL else spec_answer(c["per_test"][t].get(str(j), "unsat")) for j, k in enumerate(c["paths"])]) for t in tests]
            want_rc = 0 if all(w == "PASS" for w in want_labels) else 1
            contract = None
        short = {"paths": c["paths"], "tests": tests, "per_test": c.get("per_test"), "labels": labels, "codes": codes, "process_exit": res["rc"], "log_tail": res["log_tail"][-600:]}
        if labels != want_labels or res["rc"] != want_rc or (res["json"] is not None and res["json"].get("exitcode") != res["rc"]):
            rep.fail("failing-input", f"tests {tests}: labels {labels} / process exit {res['rc']}, the property demands {want_labels} / {want_rc}", case=short, sig={"observable": "process-exit-code"})
            continue
        if m:
            if contract is None:
                contract = [len(tests), len(codes)] + codes
            arg = [0] if c.get("no_tests") else [1] + contract
            me = m.batch([("c05_main_exit", arg)])[0]
            if me != [res["rc"]]:
                rep.fail("broken-tie", f"process exit code {res['rc']}, model main_exit {me} on {short}", case=short)

    _lap("X5")
    rep.coverage["traces_validated_against_impl"] = len(cases) + len(multi) if m else 0
    rep.coverage["end_to_end_runs"] = len(cases) + len(multi)
    rep.coverage["retries"] = sum(1 for x in results + mresults if x.get("attempt"))
    return rep.finish(
        checker_cmd="make -C coq Props/C05.vo (coq_makefile, coqc 8.16.1) after regenerating coq/Gen/GenVerdict.v and coq/Gen/GenSolveDispatch.v from /repo/src/halmos/{__main__,solve}.py",
        trusted_base=common.TRUSTED_BASE_COMMON + [
            "harness/c05_e2e.py (EVM assembler, fabricated forge artifact, stub forge), harness/c05_fake_solver.py (scripted solver), harness/c05_wrap.py (entry point wrapper; optional stale read of the shutdown flag = a legal thread interleaving)"],
        assumptions=ASSUMPTIONS,
        partial=PARTIAL,
        rule="X1: stdout strings (corpus of boundary strings + random token strings) through SolverOutput.from_result, non-trivial when the text contains a sat/unsat/unknown token; "
             "X2: all (shutdown flag x future outcome) pairs through _get_solver_output; X2b: check_unsat_cores on corpus + random (ids, cached cores) and the real _solve_end_to_end_callback on "
             "(shutdown x result class x core None/empty/non-empty): what ends up in the shared core list; X3: real solve_end_to_end / solve_low_level against the scripted solver as a subprocess for every reply kind x refinement x cache hit x timeout; "
             "X4: end-to-end halmos runs on fabricated projects: 1-4 paths with kinds {success, revert, panic, failflag, stuck} x scripted reply kinds {sat, sat(non-zero exit), sat(no model), sat(abstract model), sat(unparsable model), unsat, unsat(non-zero exit), unsat\\r\\n, unknown, timeout, garbage, empty, crash} x completion order (per-query delays) x --early-exit x --cache-solver, "
             "under --cache-solver also the core printed with `unsat` (all names, a prefix shared with the other queries, the empty list, no list) x {one solver thread: answers consumed in submission order, default threads with delays: all queries started first}, "
             "including scripts where the solver does not honour its own core (then only model vs implementation: verdict, counters and the set of queries that reached the solver); "
             "corpus (every verdict arm, every fault class, all precedence pairs in both orders, refinement, early exit, forced stale read, empty / shared-prefix cores next to sat/unknown/crash answers in both submission orders) first, then seeded random; non-trivial when at least one solver query is involved; compared: printed status, TestResult.exitcode, MainResult.exitcode, process exit code, and (without --early-exit) normal / stuck / model counters; "
             "X5: two tests with different scripted verdicts, failing setUp, no test selected: process exit code. Distinct by hash of the case.",
    )


def replay(rep, body):
    for f in body.get("failures", []):
        case = f.get("case") or {}
        if "paths" in case and "replies" in case:
            c = {"paths": case["paths"], "replies": case["replies"], "delays": case.get("delays") or {}, "refined": case.get("refined") or {},
                 "ee": case.get("early_exit"), "cache": case.get("cache_solver"), "stale": case.get("stale_read"), "mul": bool(case.get("refined")),
                 "threads": case.get("solver_threads")}
            res = run_case(c)
            print("case          :", json.dumps(c))
            print("implementation:", impl_obs(c, res), "process exit", res["rc"])
            print(res["log_tail"])
        elif case.get("tie") == "from_result":
            print("implementation:", impl_from_result([case["stdout"]]), "spec:", spec_first_line(case["stdout"]))
        elif case.get("tie") == "check_unsat_cores":
            print("implementation:", impl_check_unsat_cores([(case["ids"], case["cores"])]), "contains a cached core:", any(set(c0) <= set(case["ids"]) for c0 in case["cores"]))
        elif case.get("tie") == "callback-append":
            print("shared core list after the callback:", impl_callback_append([(case["shutdown"], case["result"], case["core"])]))
    return 0
