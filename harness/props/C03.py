"""C03 — PASS means no admissible input violates the test (end to end).

Obligations: translators T-panic (CallOutput.is_panic_of), T-runtest (run_test / setup /
run_target_function decision logic), T-copies (what Path.branch & co copy) and T-refine (the rules of
solve.refine), Props/C03.vo (theorems over the regenerated Gen files), lint.
Ties:
  L1  real CallOutput.is_panic_of / is_global_fail_set / CallContext.is_stuck vs the extracted model
      vs an independent python rendering of the spec (byte strings around the Panic encoding,
      symbolic bytes at every position, call trees);
  L3  `python -m halmos` on fabricated forge projects: test contracts from a grammar of guarded
      assertion failures; oracle = candidates (z3 on the guard + boundary set) executed on the
      extracted reference interpreter from the post-setUp state.  A clean [PASS] with a violating
      admissible input is a failing input.  The extracted run_test model, fed with the leaves
      predicted from the test description, must give halmos' exit code.
"""
import json
import random

from harness import c03_lib as L
from harness import c03_row as R
from harness import c03_tie as T
from harness import common, l3, pool
from harness.common import Model

PID = "C03"
TRANSLATORS = ["T-panic", "T-runtest", "T-copies", "T-refine", "T-dynroom", "T-arithrw", "T-selectrow"]

# Genuine defects of halmos w.r.t. C03 shown by this check on the unchanged tree (see final report).
KNOWN = common.known_for("C03")  # entries live in /verif/known_findings.json

ASSUMPTIONS = [
    "composition theorem C03_pass_sound: per-transaction completeness and soundness of exploration (C01/C02), query = path constraints (C11), truthful external solver, sound unsat-core cache (C16) and exact refinement (C04/C11) are Section hypotheses visible in the statement; 36-byte revert data concrete (documented caveat, shown necessary by C03_pass_sound_symbolic_code_refuted)",
    "C03_sibling_paths_do_not_share_mutable_state and C03_refinement_is_the_evm_operation restate theorems proved for C20 / C11 (Proofs/IsolationProofs.v, Proofs/SmtTextProofs.v) over Gen/GenCopies.v and Gen/GenRefine.v; their need tables / operation semantics are the specifications of those properties",
    "every submitted assertion query has its answer in ctx.solver_outputs when the verdict is computed (thread pool semantics: C05/C17)",
    "no stuck-path solve was interrupted by the executor shutdown (hypothesis `forall q, solve_low q <> S_SHUTDOWN` of C03_pass_sound): ShutdownError ends the path loop, and is raised only by the early exit after a valid counterexample",
    "the reference interpreter (coq/Spec/Evm.v, extracted) is the EVM oracle; concrete executions use the canonical ABI encoding of the arguments",
    "the extracted model and driver are faithful to the Coq definitions (extraction is trusted)",
]


def fail_or_known(rep, kind, what, case=None, sig=None):
    """failing inputs that match an entry of KNOWN are printed as KNOWN-FINDING and recorded, not failed"""
    if kind == "failing-input":
        for k in KNOWN:
            if common.finding_matches(k, {"sig": sig or {}}):
                hits = rep.coverage.setdefault("known_local", {})
                if k["id"] not in hits:
                    print(f"KNOWN-FINDING: property={rep.pid} {k['id']}: {k['what'][:300]}")
                    hits[k["id"]] = {"what": k["what"], "example": case}
                return
    rep.fail(kind, what, case=case, sig=sig)


# ----------------------------------------------------------------------------- L1: is_panic_of / is_global_fail_set / is_stuck

PANIC = bytes.fromhex("4e487b71")
ERR_NAMES = {0: None, 1: "Revert", 2: "InvalidOpcode", 3: "FailCheatcode", 4: "HalmosException"}


def spec_is_panic(err, segs, codes):
    """independent rendering of the spec on CONCRETE data: True / False; None when not concrete"""
    if err != 1:
        return False
    if segs is None or any(k == "s" for k, _ in segs):
        return None
    d = b"".join(bytes(p) for _, p in segs)
    if len(d) != 36 or d[:4] != PANIC:
        return False
    return (not codes) or int.from_bytes(d[4:], "big") in codes


def mk_error(err):
    from halmos import exceptions as E

    return {0: None, 1: E.Revert(), 2: E.InvalidOpcode("fe"), 3: E.FailCheatcode("x"), 4: E.HalmosException("internal")}[err]


def impl_is_panic(err, segs, codes):
    import z3

    from halmos.bytevec import ByteVec
    from halmos.sevm import CallOutput

    if segs is None:
        data = None
    else:
        data = ByteVec()
        for n, (k, p) in enumerate(segs):
            if k == "c":
                if p:
                    data.append(bytes(p))
            else:
                data.append(z3.BitVec(f"s{n}", 8 * p))
    try:
        r = CallOutput(data=data, error=mk_error(err)).is_panic_of(set(codes))
        return 1 if r is True else 0 if r is False else f"non-bool {r!r}"
    except Exception:  # noqa: BLE001
        return 2


def model_panic_call(err, segs, codes):
    flat = []
    for k, p in (segs or []):
        flat += list(p) if k == "c" else [-1] * p
    return ("c03_is_panic_of", [err, 0 if segs is None else 1, len(codes), *codes, *flat])


def gen_panic_cases(r, tier):
    cases = []
    code_sets = [[1], [], [0x11, 0x12], [1, 0x32, 0x41], [0], [(1 << 256) - 1], [1 << 255, 7]]
    ks = [0, 1, 2, 0x11, 0x12, 0x32, 0x41, 255, 256, 1 << 8, 1 << 64, 1 << 255, (1 << 256) - 1, (1 << 256) - 2]
    for codes in code_sets:
        for k in ks:
            enc = PANIC + k.to_bytes(32, "big")
            cases.append((1, [("c", list(enc))], codes))
    enc1 = PANIC + (1).to_bytes(32, "big")
    for codes in ([1], [], [0x11]):
        for n in list(range(0, 41)) + [64, 68, 100]:
            cases.append((1, [("c", list((enc1 + b"\0" * 80)[:n]))], codes))
        for i in range(4):           # selector one bit / one byte off
            for d in (1, 0x80, 0xFF):
                b = bytearray(enc1)
                b[i] ^= d
                cases.append((1, [("c", list(b))], codes))
        for err in (0, 2, 3, 4):
            cases.append((err, [("c", list(enc1))], codes))
        cases.append((1, None, codes))
        cases.append((4, None, codes))
        cases.append((0, [("c", [])], codes))
        # symbolic bytes: every split position of a 36-byte Panic(1), and short/long totals
        for lo in range(0, 36):
            for n in (1, 2, 4, 32):
                if lo + n <= 36:
                    segs = [("c", list(enc1[:lo])), ("s", n), ("c", list(enc1[lo + n:]))]
                    cases.append((1, [s for s in segs if (len(s[1]) if s[0] == "c" else s[1])], codes))
        cases.append((1, [("s", 36)], codes))
        cases.append((1, [("s", 35)], codes))
        cases.append((1, [("c", list(enc1)), ("s", 1)], codes))
        cases.append((1, [("c", list(PANIC)), ("s", 32)], codes))
        cases.append((2, [("s", 36)], codes))
    n = 300 if tier == "quick" else 6000
    for _ in range(n):
        codes = r.choice(code_sets)
        ln = r.choice([36, 36, 36, 35, 37, 4, 0, 68, r.randint(0, 80)])
        b = bytearray(r.getrandbits(8) for _ in range(ln))
        if ln >= 4 and r.random() < 0.8:
            b[:4] = PANIC
        if ln == 36 and r.random() < 0.7:
            k = r.choice(ks + (codes or [5]))
            b[4:] = k.to_bytes(32, "big")
        cases.append((r.choice([1, 1, 1, 1, 0, 2, 3, 4]), [("c", list(b))], codes))
    return cases


def tree_gen(r, depth=0):
    err = r.choice([0, 0, 0, 1, 1, 2, 3, 4] if depth else [0, 1, 1, 2, 3, 4])
    n = 0 if depth >= 4 else r.choice([0, 0, 1, 2, 3])
    return [err, [tree_gen(r, depth + 1) for _ in range(n)]]


def tree_flat(t):
    out = [t[0], len(t[1])]
    for s in t[1]:
        out += tree_flat(s)
    return out


def tree_spec(t):
    return t[0] == 3 or any(tree_spec(s) for s in t[1])


def impl_tree(t):
    from halmos.__main__ import is_global_fail_set
    from halmos.bytevec import ByteVec
    from halmos.sevm import CallContext, CallOutput, EventLog, Message

    def build(t, depth):
        msg = Message(target=0xAA, caller=0xBB, origin=0xBB, value=0, data=ByteVec(), call_scheme=0xF1)
        ctx = CallContext(message=msg, output=CallOutput(data=ByteVec(), error=mk_error(t[0])), depth=depth)
        for s in t[1]:
            ctx.trace.append(EventLog(0xAA, [], ByteVec()))   # non-call trace elements are skipped by subcalls()
            ctx.trace.append(build(s, depth + 1))
        return ctx

    return 1 if is_global_fail_set(build(t, 1)) else 0


def impl_is_stuck(err, has_data):
    from halmos.bytevec import ByteVec
    from halmos.sevm import CallContext, CallOutput, Message

    msg = Message(target=0xAA, caller=0xBB, origin=0xBB, value=0, data=ByteVec(), call_scheme=0xF1)
    return CallContext(message=msg, output=CallOutput(data=ByteVec() if has_data else None, error=mk_error(err))).is_stuck()


def l1_tie(rep, m, tier, r):
    cases = gen_panic_cases(r, tier)
    impl = [impl_is_panic(*c) for c in cases]
    model = m.parallel_batch([model_panic_call(*c) for c in cases]) if m else None
    nbad = 0
    for i, (err, segs, codes) in enumerate(cases):
        sp = spec_is_panic(err, segs, codes)
        conc = sp is not None
        rep.count("l1_is_panic_of", ("concrete" if conc else "symbolic/None") + ":" + str(impl[i]))
        case = {"l1": "is_panic_of", "error": ERR_NAMES[err], "data": segs, "codes": codes}
        rep.case(case, nontrivial=True)
        if conc and impl[i] != (1 if sp else 0):
            nbad += 1
            if nbad <= 5:
                # a missed Panic is the violating direction; a spurious one only over-reports
                kind = "failing-input" if sp and impl[i] == 0 else "broken-tie"
                rep.fail(kind, f"CallOutput.is_panic_of({codes}) on {ERR_NAMES[err]} data {segs}: implementation {impl[i]}, Panic(uint256) encoding spec {sp}",
                         case={**case, "implementation": impl[i], "spec": sp}, sig={"kind": "l1-is-panic-of", "spec": sp, "impl": impl[i]})
            continue
        if model is not None and (model[i] is None or model[i][0] != impl[i]):
            nbad += 1
            if nbad <= 5:
                rep.fail("broken-tie", f"is_panic_of: model {model[i]} vs implementation {impl[i]} on {case}", case={**case, "implementation": impl[i], "model": model[i]})
    # call trees
    trees = [tree_gen(r) for _ in range(400 if tier == "quick" else 5000)]
    trees += [[3, []], [0, []], [0, [[0, [[0, [[3, []]]]]]]], [1, [[1, []], [2, [[3, []]]]]]]
    impl_t = [impl_tree(t) for t in trees]
    model_t = m.parallel_batch([("c03_global_fail", tree_flat(t)) for t in trees]) if m else None
    for i, t in enumerate(trees):
        rep.case({"l1": "global_fail", "tree": t}, nontrivial=bool(t[1]))
        rep.count("l1_global_fail", impl_t[i])
        if impl_t[i] != (1 if tree_spec(t) else 0):
            kind = "failing-input" if tree_spec(t) else "broken-tie"
            rep.fail(kind, f"is_global_fail_set on call tree {t}: implementation {impl_t[i]}, spec {tree_spec(t)}", case={"tree": t}, sig={"kind": "l1-global-fail"})
        elif model_t is not None and model_t[i] != [impl_t[i]]:
            rep.fail("broken-tie", f"is_global_fail_set: model {model_t[i]} vs implementation {impl_t[i]} on {t}", case={"tree": t})
    # is_stuck (the model's definition of a stuck leaf)
    for err in range(5):
        for hd in (0, 1):
            want = (not hd) or err == 4
            got = impl_is_stuck(err, hd)
            if bool(got) != want:
                rep.fail("broken-tie", f"CallContext.is_stuck(error={ERR_NAMES[err]}, data={'present' if hd else None}) = {got}, model {want}", case={"err": err, "has_data": hd})
    return len(cases) + len(trees)


# ----------------------------------------------------------------------------- L1: solve.solve_end_to_end

def impl_solve_e2e(ch, r0, v0, chg, r1, isr):
    """the REAL solve_end_to_end (with the real check_unsat_cores, PathContext.refine and refine) over a stubbed
    solve_low_level: first invocation answers (r0, model valid = v0), a second one (r1, valid) -> (answer code, #invocations)"""
    import types

    import z3

    from halmos import solve as S
    from halmos.sevm import SMTQuery

    res = {0: z3.unsat, 1: z3.sat, 2: z3.unknown, 3: "err"}
    code = {str(v): k for k, v in res.items()}
    decl = ("(declare-fun f_evm_bvmul_256 ((_ BitVec 256) (_ BitVec 256)) (_ BitVec 256))" if chg else "(declare-fun f_other_256 ((_ BitVec 256) (_ BitVec 256)) (_ BitVec 256))")
    q = SMTQuery(decl + "\n(assert true)\n", ["a1", "a2", "a3"])
    sctx = S.SolvingContext(dump_dir=__import__("pathlib").Path("/nonexistent/verif-c03"), executor=None, unsat_cores=[["a9"], ["a1", "a3"]] if ch else [["a9"], ["a1", "a4"]])
    ctx = S.PathContext(args=types.SimpleNamespace(verbose=0), path_id=7, solving_ctx=sctx, query=q, is_refined=bool(isr))
    calls = []

    def fake(c):
        calls.append(c)
        r, v = (r0, v0) if len(calls) == 1 else (r1, 1)
        model = S.PotentialModel(model={}, is_valid=bool(v)) if r == 1 else None
        return S.SolverOutput(res[r], 0, c.path_id, "f", model=model)

    saved = S.solve_low_level
    S.solve_low_level = fake
    try:
        out = S.solve_end_to_end(ctx)
    finally:
        S.solve_low_level = saved
    if len(calls) == 2 and not (calls[1].is_refined and calls[1].query.smtlib != q.smtlib):
        return ("second invocation not on a changed refined query", len(calls))
    return code[str(out.result)], len(calls)


def l1_solve_tie(rep, m):
    """exhaustive: unsat-core hit x first answer x model validity x does refinement change the query x second answer x is_refined"""
    import itertools

    cases = [list(c) for c in itertools.product((0, 1), (0, 1, 2, 3), (0, 1), (0, 1), (0, 1, 2, 3), (0, 1))]
    model = m.parallel_batch([("c03_solve_e2e", c) for c in cases]) if m else None
    for i, c in enumerate(cases):
        ch, r0, v0, chg, r1, isr = c
        got, n = impl_solve_e2e(*c)
        # spec: the answer is unsat only if a core is contained or the solver said unsat on (a refinement of) the query
        truthful_unsat = bool(ch) or r0 == 0 or (r0 == 1 and not v0 and not isr and chg and r1 == 0)
        case = {"l1": "solve_end_to_end", "core_hit": ch, "first": r0, "valid": v0, "refine_changes": chg, "second": r1, "is_refined": isr}
        rep.case(case, nontrivial=True)
        rep.count("l1_solve_e2e", f"answer={got}/invocations={n}")
        if got == 0 and not truthful_unsat:
            rep.fail("failing-input", f"solve_end_to_end answers unsat although no unsat core is contained and no solver invocation answered unsat: {case}", case=case, sig={"kind": "l1-solve-e2e-unsat"})
        elif model is not None and (model[i] is None or model[i] != [got]):
            rep.fail("broken-tie", f"solve_end_to_end: model {model[i]} vs implementation {got} on {case}", case={**case, "implementation": got, "model": model[i]})
    return len(cases)


# ----------------------------------------------------------------------------- L3

def special_contracts():
    """hand-made contracts (outside the grammar's safe zone)"""
    out = []
    # 1. symbolic panic code
    out.append(({"cname": "T", "setup": [], "tests": [
        {"name": "check_symcode", "params": ["uint256"], "clauses": [[["eq", ["arg", 0], ["const", 1]], ["panic_sym", 0]]]},
        {"name": "check_symcode_any", "params": ["uint256", "uint256"], "clauses": [[["gt", ["arg", 1], ["const", 5]], ["panic_sym", 0]]]},
    ]}, None, "symbolic-panic-code"))
    out.append(({"cname": "T", "setup": [], "tests": [
        {"name": "check_symcode", "params": ["uint256"], "clauses": [[["eq", ["arg", 0], ["const", 0x11]], ["panic_sym", 0]]]},
    ]}, "0x11,0x12", "symbolic-panic-code"))
    out.append(({"cname": "T", "setup": [], "tests": [
        {"name": "check_symcode", "params": ["uint256"], "clauses": [[["eq", ["arg", 0], ["const", 77]], ["panic_sym", 0]]]},
    ]}, "*", "symbolic-panic-code-star"))
    # 1b. symbolic selector: is_panic_of raises, run_tests prints [ERROR] (never PASS)
    sel_word = l3.PANIC_SELECTOR << 224
    out.append(({"cname": "T", "setup": [], "tests": [
        {"name": "check_symsel", "params": ["uint256", "uint256"],
         "clauses": [[["cor", ["gt", ["arg", 1], ["const", 5]], ["eq", ["arg", 0], ["const", sel_word + 1]]], ["revert_word", 0]]]},
    ]}, "*", "symbolic-selector"))
    # 2. msg.data.length of a shorter admissible argument
    out.append(({"cname": "T", "setup": [], "tests": [
        {"name": "check_cdsize", "params": ["bytes"], "clauses": [[["eq", ["cdsize"], ["const", 68]], ["panic", 1]]]},
        {"name": "check_cdsize_arr", "params": ["uint256[]"], "clauses": [[["eq", ["cdsize"], ["const", 4 + 64 + 32]], ["panic", 1]]]},
        {"name": "check_cdsize_max", "params": ["bytes"], "clauses": [[["eq", ["cdsize"], ["const", 4 + 64 + 1024]], ["panic", 1]]]},
    ]}, None, "calldatasize"))
    return out


def gen_l3_tasks(r, tier):
    tasks = []
    n = 14 if tier == "quick" else 260
    for i in range(n):
        co = L.CODE_OPTIONS[i % len(L.CODE_OPTIONS)]
        d = L.gen_contract(r, 4 if tier == "quick" else 5, co)
        opts = (["--panic-error-codes", co] if co else [])
        opts += [[], ["--solver", "z3"], ["--storage-layout", "generic"], ["--solver", "z3", "--storage-layout", "generic"]][(i // 2) % 4]
        opts += ["--solver-timeout-assertion", "15s"]   # a [TIMEOUT] verdict is not a PASS; keeps hard mul/div queries bounded
        tasks.append({"desc": d, "options": opts, "code_opt": co, "seed": r.getrandbits(32), "family": "grammar", "limit": 100 if tier == "quick" else 200, "timeout": 200})
    # directed families (c03_lib): a word re-read after a sibling branch pinned it, combinations of lengths of several
    # dynamic parameters, special-case points of arithmetic operations reached through symbolic operands
    grid = [(i, j, (i + j) % 3) for i in range(3) for j in range(3)]
    # length candidates as configured: the defaults, descending lists, an unsorted per-parameter list
    desc = {"array": [2, 1, 0], "bytes": [65, 33, 0], "by_name": {}}
    mixed = {"array": [0, 1, 2], "bytes": [0, 65, 1024], "by_name": {"a0": [1, 3, 2]}}
    if tier == "quick":
        plans = [(None, [], [(1, 2, 1), (0, 1, 2)], ["mod", "sdiv", "mul"], L.DEFAULT_LENS, [("array", 1), ("bytes", 1)], [0, 3, 6], [("static", "unnamed"), ("bytes", "unnamed")]),
                 ("0x01", ["--solver", "z3"], [(1, 1, 0), grid[r.randrange(9)]], ["smod", "div"], desc, [("array", 0), ("bytes", 0), ("bytes", 1)], [], [("array", "same"), ("static", "same")]),
                 (None, [], [(2, 0, 1)], [], mixed, [("array", 1), ("array", 2), ("bytes", 2)], [1, 4, 2, 7], [("static", "distinct")])]
    else:
        plans = [(L.CODE_OPTIONS[k % len(L.CODE_OPTIONS)], [[], ["--solver", "z3"], ["--storage-layout", "generic"]][k % 3], grid[3 * (k % 3):3 * (k % 3) + 3],
                  ["div", "mod", "sdiv", "smod", "mul", None], [L.DEFAULT_LENS, desc, mixed, {"array": [3, 0, 1], "bytes": [32, 64, 1], "by_name": {"a1": [2, 1]}}][k % 4],
                  [(a, b) for a in ("array", "bytes") for b in range(3)], list(range(8)),
                  [(kd, nm) for kd in ("static", "array", "bytes") for nm in ("unnamed", "same", "distinct")]) for k in range(9)]
    for co, extra, combos, ops, lens, picks, idents, twins in plans:
        d = L.gen_directed_contract(r, co, n_each=2 if tier == "quick" else 4, combos=combos, ops=ops, lens=lens, picks=picks, idents=idents, twins=twins)
        tasks.append({"desc": d, "options": (["--panic-error-codes", co] if co else []) + extra + L.lens_options(lens) + ["--solver-timeout-assertion", "15s"], "code_opt": co, "lens": lens, "z3_ms": 800, "feas_ms": 1200,   # search aids only; the boundary candidates carry these families
                      "seed": r.getrandbits(32), "family": "directed", "limit": 100 if tier == "quick" else 200, "timeout": 200})
    # read-over-write (Exec.select): mapping reads at symbolic keys after writes by setUp / by the test itself, run with a
    # branching solver that gives up (harness/c03_inject.py: `unknown` injected into Path.check -- a legal answer) and as is
    if tier == "quick":
        row_plans = [(None, [], ["nonunsat", 1]), ("0x01", ["--storage-layout", "generic"], ["nonunsat", 2]),
                     (None, ["--solver", "z3"], ["half", r.getrandbits(16)]), (None, [], None)]
    else:
        row_plans = [(L.CODE_OPTIONS[k % len(L.CODE_OPTIONS)], [[], ["--storage-layout", "generic"], ["--solver", "z3"], ["--solver", "z3", "--storage-layout", "generic"]][k % 4],
                      [["nonunsat", k], ["half", r.getrandbits(16)], ["all", k], None, ["half", r.getrandbits(16)]][k % 5]) for k in range(20)]
    for co, extra, inj in row_plans:
        d = L.gen_rowmap_contract(r, co, n_tests=6)
        tasks.append({"desc": d, "options": (["--panic-error-codes", co] if co else []) + extra + ["--solver-timeout-assertion", "15s"], "code_opt": co, "inject": inj,
                      "seed": r.getrandbits(32), "family": "rowmap", "limit": 150, "timeout": 200})
    # the grammar again under a branching solver that never finds a model (every non-unsat answer is `unknown`)
    for i in range(2 if tier == "quick" else 30):
        co = L.CODE_OPTIONS[i % len(L.CODE_OPTIONS)]
        d = L.gen_contract(r, 3 if tier == "quick" else 5, co)
        tasks.append({"desc": d, "options": (["--panic-error-codes", co] if co else []) + [[], ["--storage-layout", "generic"]][i % 2] + ["--solver-timeout-assertion", "15s"], "code_opt": co,
                      "inject": [["nonunsat", "half", "all"][i % 3], r.getrandbits(16)], "seed": r.getrandbits(32), "family": "grammar-unknown", "limit": 100, "timeout": 200})
    for d, co, fam in special_contracts():
        for extra in ([], ["--solver", "z3"]) if tier != "quick" else ([],):
            tasks.append({"desc": d, "options": (["--panic-error-codes", co] if co else []) + extra, "code_opt": co, "seed": 1, "family": fam, "limit": 60})
    return tasks


def predicted_model_call(test, feas, codes, width=0):
    """leaves predicted from the description -> c03_run_test arguments (None if undecided / symbolic)"""
    if feas is None or any(f == "unknown" for f in feas):
        return None
    leaves = []
    acts = [a for _, a in test["clauses"]] + [["stop"]]
    for f, a in zip(feas, acts):
        if f != "sat":
            continue
        err, data = L.action_leaf(a)
        if data == "sym":
            return None
        # call tree: root with the action's error; `fail` = a subcall-free FailCheatcode at the root
        leaves += [err, 0, 1, len(data), *data, 1, 1]   # feasible path: both solvers answer sat
    cs = sorted(codes)
    return ("c03_run_test", [width, 0, 0, len(cs), *cs, sum(1 for f in feas if f == "sat"), *leaves])


def l3_tie(rep, m, tier, r):
    from harness import refevm

    refevm.driver()
    tasks = gen_l3_tasks(r, tier)
    # hand-made contracts first; every task runs to completion (per-task hard timeout); the total
    # timeout only bounds a pathologically loaded machine (unfinished tasks are counted, not failed)
    tasks.sort(key=lambda t: (t["family"] == "grammar", t["family"] != "rowmap"))
    res = l3.run_pool(T.l3_worker, tasks, timeout=240, total_timeout=420 if tier == "quick" else 1100)
    items, keep = [], []
    rep.coverage["l3_tasks"] = [[t["family"], " ".join(t["options"]) + (f" [branching solver: {t['inject'][0]}]" if t.get("inject") else ""), st, (val or {}).get("seconds") if st == "ok" else None] for t, (st, val) in zip(tasks, res)]
    for task, (st, val) in zip(tasks, res):
        if st != "ok":
            rep.count("l3_run", st)
            if st == "exc":
                rep.fail("broken-tie", f"L3 worker crashed: {str(val)[-600:]}", case={"desc": task["desc"], "options": task["options"]})
            continue
        rep.count("l3_run", "ok")
        items.append((task["desc"], bytes.fromhex(val["runtime"]), val["cands"], L.parse_codes(task["code_opt"])))
        keep.append((task, val))
    orcs = T.run_oracle(items)
    calls, where = [], []
    n_eval = 0
    for (task, val), orc in zip(keep, orcs):
        codes = L.parse_codes(task["code_opt"])
        for t in task["desc"]["tests"]:
            sig = L.sig_of(t)
            h = val["brief"]["tests"].get(sig)
            rec = val["brief"]["records"].get(sig) or {}
            o = orc[sig]
            flags = val["flags"][sig]
            status = h["status"] if h else None
            case = {"test": t, "setup": task["desc"].get("setup", []), "msetup": task["desc"].get("msetup", []), "inject": task.get("inject"), "options": task["options"], "runtime": val["runtime"],
                    "halmos": {"status": status, "flags": flags, "exitcode": rec.get("exitcode"), "bounds": (h or {}).get("bounds")}}
            n_eval += 1
            rep.case({k: case[k] for k in ("test", "setup", "msetup", "inject", "options")}, nontrivial=o["n"] > 0)
            if task.get("inject"):
                rep.count("l3_branching_solver", f"{task['family']}:{task['inject'][0]}")
            rep.count("l3_family", task["family"])
            rep.count("l3_status", f"{status}/{'violating-input' if o['violating'] else 'none-found'}" + ("/flagged" if flags else ""))
            rep.count("l3_options", " ".join(task["options"]) or "(default)")
            for _, a in t["clauses"]:
                rep.count("l3_action", a[0])
            if status is None and "HARNESS-TIMEOUT" in val["err"]:
                rep.count("l3_status", "no verdict within the harness timeout (solver still running)")
                continue
            if status is None:
                rep.fail("broken-tie", f"halmos printed no verdict for {sig} (options {task['options']}): {val['out'][-300:]} {val['err'][-300:]}", case=case)
                continue
            if status == "PASS" and not flags and o["violating"]:
                v = o["violating"][0]
                fam = task["family"]
                fail_or_known(rep, "failing-input",
                              f"halmos {' '.join(task['options'])}{' (branching solver answers: ' + task['inject'][0] + ' -> unknown)' if task.get('inject') else ''} reports a clean [PASS] for {sig}{' after setUp mapping writes ' + str(task['desc']['msetup']) if task['desc'].get('msetup') else ''} but arguments {v['args']} end the concrete execution (reference interpreter, from the post-setUp state) in {v['outcome']}",
                              case={**case, "violating_input": v, "calldata": (l3.selector(sig) + l3.abi_encode(t["params"], T.decode_input(t, v["args"]))).hex()},
                              sig={"kind": "clean-pass-with-violation", "family": fam, "outcome": v["outcome"].split(":")[0], "actions": sorted({a[0] for _, a in t["clauses"]})})
                continue
            # model side: the extracted run_test on the predicted leaves must give halmos' exit code
            if m is not None and status != "TIMEOUT" and "exitcode" in rec and task["family"] in ("grammar", "directed", "rowmap", "grammar-unknown"):
                mc = predicted_model_call(t, val["cands"][sig].get("feas"), codes)
                if mc is not None:
                    calls.append(mc)
                    where.append((case, rec["exitcode"], sig))
    if calls:
        out = m.parallel_batch(calls)
        for (case, real, sig), mo in zip(where, out):
            rep.count("l3_model_exit", f"model={mo[0] if mo else None}/halmos={real}")
            if mo is None or mo[0] != real:
                rep.fail("broken-tie", f"run_test model predicts exit code {mo[0] if mo else None} for {sig}, halmos returned {real} ({case['halmos']})", case=case)
    rep.coverage["l3_model_exit_compared"] = len(calls)
    return n_eval


def run(rep, tier):
    b = common.build_property(PID, TRANSLATORS)
    common.standard_obligations(rep, PID, b)
    m = None
    if b["make_ok"]:
        exe, log = common.build_driver(PID)
        rep.obligation("extraction of Model/RunnerModel.v entry points + OCaml driver build", exe is not None, "" if exe else log[-800:])
        if exe is None:
            rep.fail("broken-tie", "extracted model driver does not build: " + log[-400:], case={})
        else:
            m = Model(exe)
    r = common.rng(PID)
    n1 = l1_tie(rep, m, tier, r) + l1_solve_tie(rep, m) + R.l1_select_tie(rep, m, tier, r)
    n3 = l3_tie(rep, m, tier, r)
    rep.coverage["traces_validated_against_impl"] = n1 + n3
    rep.coverage["known_findings_declared"] = [k["id"] for k in KNOWN]
    return rep.finish(
        checker_cmd="make -C coq Props/C03.vo (coq_makefile, coqc 8.16.1) after regenerating coq/Gen/GenPanic.v, GenSelectRow.v and GenCopies.v from src/halmos/sevm.py, GenRunTest.v from src/halmos/__main__.py and GenRefine.v from src/halmos/solve.py",
        trusted_base=common.TRUSTED_BASE_COMMON + ["the fabricated forge artifacts + stub forge (harness/l3.py) and the extracted reference interpreter coq/Spec/Evm.v as EVM oracle"],
        assumptions=ASSUMPTIONS,
        rule="L1 cases = (error kind, revert data as concrete/symbolic segments, code set): every length 0..40 of the Panic(1) encoding, one-bit/one-byte selector damage, 14 codes x 7 code sets, a symbolic segment at every offset, random byte strings; random call trees for is_global_fail_set. "
             "L1 select: the real Exec.select on chains of 0..5 Stores under EVERY script of oracle answers {unsat, sat, unknown} to `key == key_i` / `key != key_i` for chains up to 2 and random scripts beyond, vs the extracted model and vs `every decision is justified by an unsat answer`. "
             "L3 family rowmap: mapping reads m[x] at a symbolic key after setUp wrote m[c] (and after the test's own m[x] = w), failure iff the value read is 0 / the written value / not the written value, run with `unknown` injected into the branching solver (every non-unsat answer, every answer, or half of them) and as is; the grammar again under such a solver. "
             "L3 cases = (test function description, setUp storage, halmos options): tests `if (g) action; ...; STOP` with g from {eq const, lt/gt, add/sub/mul/xor/and/or relations, mul/div/mod/sdiv/smod, shifts, signed compares, bit tests, storage written by setUp, dynamic length guards, element/word guards} over static and dynamic parameters, actions {Panic(k) inside/outside the configured set, 35/37/68-byte near-panics, other selectors, DSTest.fail, revert, INVALID}; options: panic code sets x solver {yices, z3} x storage layout; directed families: a calldata word / array element pinned by `== c` on a benign branch and read again on the sibling branch where the failure needs another value; tests with 2-3 dynamic parameters whose failure needs one combination of their lengths (all 9 index combinations in the thorough tier); a given length together with a given value of the last element / word existing at that length, under length candidates configured as the defaults, as descending lists (--default-array-lengths 2,1,0 --default-bytes-lengths 65,33,0) and as an unsorted per-parameter list (--array-lengths a0={1,3,2}); `if (!(identity)) fail` for identities of machine arithmetic that fail only at special points ((a*b)/b == a, (a/b)*b + a%b == a, a % b < b, ... on masked and unmasked operands, plus identities that hold everywhere as controls); two parameters of the same type with empty / equal / distinct ABI names whose values, lengths or elements must differ for the failure; failures at the special-case points of div / mod / sdiv / smod (zero divisor, MIN / -1) and of a wrapping mul, with symbolic operands; "
             "non-trivial = the oracle executed at least one candidate input on the reference interpreter; distinct by hash of (test, setUp, options)",
        partial="the theorem is a composition over named hypotheses (C01/C02/C11/C16/C04 are proved and tied by their own properties); the oracle can only exhibit violations among its candidates (z3 models of the guard + boundary set), it does not prove their absence",
    )


def replay(rep, body):
    for f in body.get("failures", []):
        case = f.get("case") or {}
        if "test" in case:
            desc = {"cname": "T", "setup": case.get("setup", []), "msetup": case.get("msetup", []), "tests": [case["test"]]}
            rt, c = L.compile_contract(desc)
            with R.InjProject([c]) as p:
                r = p.run(case.get("options", []), inject=case.get("inject"))
            print(r.out[-2000:])
            print("violating input:", json.dumps(case.get("violating_input")))
        elif case.get("l1") == "select":
            c = (case["symbolic"], case["stores"], case["answers(eq_i,ne_i; 0 unsat 1 sat 2 unknown)"])
            got = R.impl_select(c)
            print("Exec.select:", got, "--", R.spec_select_ok(c, got) or "justified by the oracle's proofs")
        elif case.get("l1") == "is_panic_of" or "data" in case:
            err = {v: k for k, v in ERR_NAMES.items()}[case.get("error")]
            print("implementation:", impl_is_panic(err, case.get("data"), case.get("codes")), "spec:", spec_is_panic(err, case.get("data"), case.get("codes")))
    return 0
