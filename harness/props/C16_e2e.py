"""C16, tie level L3: `python -m halmos` (in a child process, with monitors installed) on fabricated
multi-path tests, cache on vs cache off.

No forge/solc in the sandbox: the test contract is hand-assembled (decision trees over two uint256
arguments whose leaves STOP or revert with Panic(1)), the forge artifact is fabricated and a stub
`forge` is put first on PATH.  Conditions are drawn from a small pool so that the same z3 term
recurs on many paths; DIV/MUL on two symbolic operands are abstracted by halmos (f_evm_bvudiv_256 /
f_evm_bvmul_256), which makes paths that are feasible for the branching solver but unsatisfiable
after refinement -- these are the queries whose cores populate the cache.

Child mode:  python -m harness.props.C16_e2e --child <project> <0|1> <out.json>
"""
import json
import os
import subprocess
import sys
import tempfile
from concurrent.futures import ThreadPoolExecutor

M256 = (1 << 256) - 1

OPS = dict(STOP=0x00, ADD=0x01, MUL=0x02, DIV=0x04, LT=0x10, GT=0x11, EQ=0x14, ISZERO=0x15, AND=0x16, SHR=0x1C,
           CALLDATALOAD=0x35, CODECOPY=0x39, POP=0x50, MSTORE=0x52, JUMP=0x56, JUMPI=0x57, JUMPDEST=0x5B, PUSH0=0x5F,
           DUP1=0x80, RETURN=0xF3, REVERT=0xFD)


def asm(items):
    """two-pass assembler: ('label', n) -> JUMPDEST, ('ref', n) -> PUSH2 addr, ('push', nbytes, v), mnemonic"""
    pos, labels = 0, {}
    for it in items:
        if isinstance(it, tuple) and it[0] == "label":
            labels[it[1]] = pos
            pos += 1
        elif isinstance(it, tuple) and it[0] == "ref":
            pos += 3
        elif isinstance(it, tuple) and it[0] == "push":
            pos += 1 + it[1]
        else:
            pos += 1
    out = b""
    for it in items:
        if isinstance(it, tuple) and it[0] == "label":
            out += bytes([0x5B])
        elif isinstance(it, tuple) and it[0] == "ref":
            out += bytes([0x61]) + labels[it[1]].to_bytes(2, "big")
        elif isinstance(it, tuple) and it[0] == "push":
            out += bytes([0x5F + it[1]]) + it[2].to_bytes(it[1], "big")
        else:
            out += bytes([OPS[it]])
    return out


X = [("push", 1, 4), "CALLDATALOAD"]
Y = [("push", 1, 36), "CALLDATALOAD"]


def cond_code(c):
    """leaves the truth value of condition c on the stack"""
    k = c[0]
    if k == "ylt":
        return [("push", 1, c[1])] + Y + ["LT"]            # y < c  (not an equality: halmos does not concretise y)
    if k == "ygt":
        return [("push", 1, c[1])] + Y + ["GT"]            # y > c
    if k == "xeq":
        return [("push", 1, c[1])] + X + ["EQ"]
    if k == "xlt":
        return [("push", 1, c[1])] + X + ["LT"]            # x < c
    if k == "mask":
        return [("push", 1, c[2] & c[1]), ("push", 1, c[1])] + X + ["AND", "EQ"]
    if k == "diveq":
        return Y + X + ["DIV", ("push", 1, c[1]), "EQ"]      # x / y == c
    if k == "muleq":
        return Y + X + ["MUL", ("push", 1, c[1]), "EQ"]      # x * y == c
    if k == "mulodd":
        return [("push", 1, 1)] + Y + X + ["MUL", ("push", 1, 1), "AND", "EQ"]   # (x*y) & 1 == 1
    raise ValueError(k)


def cond_eval(c, x, y):
    k = c[0]
    if k == "ylt":
        return y < c[1]
    if k == "ygt":
        return y > c[1]
    if k == "xeq":
        return x == c[1]
    if k == "xlt":
        return x < c[1]
    if k == "mask":
        return (x & c[1]) == (c[2] & c[1])
    if k == "diveq":
        return (0 if y == 0 else x // y) == c[1]
    if k == "muleq":
        return (x * y) & M256 == c[1]
    if k == "mulodd":
        return (x * y) & 1 == 1
    raise ValueError(k)


def tree_code(tree, prefix):
    """tree = 'P' | 'S' | [cond, if_true, if_false]; returns items; leaf labels are numbered in order"""
    items = []
    leaves = []

    def go(t, path):
        if t in ("P", "S"):
            leaves.append((path, t))
            if t == "S":
                items.append("STOP")
            else:
                items.extend([("push", 32, 0x4E487B71 << 224), "PUSH0", "MSTORE", ("push", 1, 1), ("push", 1, 4), "MSTORE", ("push", 1, 0x24), "PUSH0", "REVERT"])
            return
        c, a, b = t
        lab = f"{prefix}_{len(items)}_{path}"
        items.extend(cond_code(tuple(c)) + [("ref", lab), "JUMPI"])
        go(b, path + "0")
        items.append(("label", lab))
        go(a, path + "1")

    go(tree, "")
    return items, leaves


def leaf_of(tree, x, y):
    path = ""
    t = tree
    while t not in ("P", "S"):
        c, a, b = t
        if cond_eval(tuple(c), x, y):
            t, path = a, path + "1"
        else:
            t, path = b, path + "0"
    return path, t


def make_project(root, trees):
    """trees: list of decision trees; function k is check_k(uint256 x, uint256 y)"""
    from eth_hash.auto import keccak

    os.makedirs(os.path.join(root, "out", "T.sol"), exist_ok=True)
    sigs = [f"check_{k}(uint256,uint256)" for k in range(len(trees))]
    sels = [keccak(s.encode())[:4] for s in sigs]
    items = ["PUSH0", "CALLDATALOAD", ("push", 1, 0xE0), "SHR"]
    for k, sel in enumerate(sels):
        items += ["DUP1", ("push", 4, int.from_bytes(sel, "big")), "EQ", ("ref", f"F{k}"), "JUMPI"]
    items += ["PUSH0", "PUSH0", "REVERT"]
    for k, t in enumerate(trees):
        items.append(("label", f"F{k}"))
        body, _ = tree_code(t, f"t{k}")
        items += body
    rt = asm(items)
    n = len(rt)
    cr = asm([("push", 2, n), ("push", 2, 13), "PUSH0", "CODECOPY", ("push", 2, n), "PUSH0", "RETURN"])
    assert len(cr) == 13
    cr += rt
    abi = [{"type": "function", "name": f"check_{k}", "inputs": [{"name": "x", "type": "uint256", "internalType": "uint256"}, {"name": "y", "type": "uint256", "internalType": "uint256"}], "outputs": [], "stateMutability": "nonpayable"} for k in range(len(trees))]
    art = {
        "abi": abi,
        "bytecode": {"object": "0x" + cr.hex(), "sourceMap": "", "linkReferences": {}},
        "deployedBytecode": {"object": "0x" + rt.hex(), "sourceMap": "", "linkReferences": {}},
        "methodIdentifiers": {s: sel.hex() for s, sel in zip(sigs, sels)},
        "metadata": {"compiler": {"version": "0.8.26"}, "output": {"devdoc": {"methods": {}}}},
        "ast": {"absolutePath": "test/T.sol", "id": 1, "nodeType": "SourceUnit", "nodes": [{"nodeType": "ContractDefinition", "name": "T", "contractKind": "contract", "abstract": False, "nodes": [], "id": 2}]},
        "id": 0,
    }
    with open(os.path.join(root, "out", "T.sol", "T.json"), "w") as f:
        json.dump(art, f)
    with open(os.path.join(root, "foundry.toml"), "w") as f:
        f.write("[profile.default]\n")
    bindir = os.path.join(root, "bin")
    os.makedirs(bindir, exist_ok=True)
    fg = os.path.join(bindir, "forge")
    with open(fg, "w") as f:
        f.write("#!/bin/sh\nexit 0\n")
    os.chmod(fg, 0o755)
    return bindir


# ----------------------------------------------------------------- child: halmos with monitors

def child(project, cache, outfile):
    import gc
    import threading

    import halmos.__main__ as hm
    import halmos.sevm as sevm
    import halmos.solve as solve

    state = {"fn": "setup", "ids": {}, "clashes": [], "hits": {}, "queries": {}, "results": []}
    lock = threading.Lock()
    orig_to_smt2 = sevm.Path.to_smt2

    def to_smt2(self, args):
        gc.collect()          # halmos disables the cyclic gc; force it so that freed terms really go
        q = orig_to_smt2(self, args)
        seen = state["ids"].setdefault(state["fn"], {})
        conds = list(self.conditions)
        if [str(t.get_id()) for t in conds] != list(q.assertions):
            state["clashes"].append({"kind": "ids-differ-from-conditions", "fn": state["fn"]})
        for t in conds:
            i, s = str(t.get_id()), t.sexpr()
            if seen.setdefault(i, s) != s:
                state["clashes"].append({"kind": "id-reused", "fn": state["fn"], "id": i, "first": seen[i][:300], "now": s[:300]})
        state["queries"][state["fn"]] = state["queries"].get(state["fn"], 0) + 1
        del conds
        return q

    sevm.Path.to_smt2 = to_smt2
    orig_check = solve.check_unsat_cores

    def check_unsat_cores(query, cores):
        r = orig_check(query, cores)
        if r:
            with lock:
                state["hits"][state["fn"]] = state["hits"].get(state["fn"], 0) + 1
        return r

    solve.check_unsat_cores = check_unsat_cores
    orig_run_test = hm.run_test

    def run_test(ctx):
        state["fn"] = ctx.info.name
        res = orig_run_test(ctx)
        gc.collect()

        def models(ms):
            out = []
            for pm in ms:
                d = {}
                for name, mv in (pm.model or {}).items():
                    d[getattr(mv, "variable_name", name)] = mv.value
                out.append(d)
            return out

        state["results"].append({
            "name": ctx.info.name, "exitcode": res.exitcode,
            "outputs": sorted(str(o.result) for o in ctx.solver_outputs),
            "valid": models(ctx.valid_counterexamples), "invalid": models(ctx.invalid_counterexamples),
            "cores": len(ctx.solving_ctx.unsat_cores),
        })
        state["fn"] = "between-tests"
        return res

    hm.run_test = run_test
    argv = ["--root", project, "--no-status", "--solver-timeout-assertion", "60000", "--solver-threads", "1"]
    if cache:
        argv.append("--cache-solver")
    rc = None
    try:
        r = hm._main(argv)
        rc = r.exitcode
    except SystemExit as e:
        rc = e.code
    out = {"rc": rc, "results": state["results"], "clashes": state["clashes"], "hits": state["hits"],
           "queries": state["queries"], "ids": {k: len(v) for k, v in state["ids"].items()}}
    with open(outfile, "w") as f:
        json.dump(out, f)


# ----------------------------------------------------------------- parent

POOL = [("ylt", 1), ("ylt", 2), ("ygt", 0), ("xeq", 3), ("xeq", 7), ("xlt", 9), ("mask", 3, 1), ("diveq", 5), ("diveq", 7), ("muleq", 6), ("mulodd",)]


def gen_tree(r, depth, pool):
    if depth == 0 or (depth <= 2 and r.random() < 0.2):
        return "P" if r.random() < 0.65 else "S"
    c = list(r.choice(pool))
    return [c, gen_tree(r, depth - 1, pool), gen_tree(r, depth - 1, pool)]


def corpus_trees():
    """hand-made: the same refined-only contradiction (y < 1 and x / y == 5) reached on several paths"""
    bad = lambda leaf: [["ylt", 1], [["diveq", 5], leaf, "S"], "S"]  # noqa: E731
    t0 = [["xlt", 9], [["xeq", 3], bad("P"), bad("P")], [["mask", 3, 1], bad("P"), [["xeq", 7], "P", "S"]]]
    t1 = [["ylt", 2], [["ygt", 0], [["xlt", 9], [["diveq", 5], "P", "S"], [["diveq", 5], "S", "P"]], [["diveq", 7], "P", [["diveq", 5], "P", "S"]]], [["mask", 1, 0], [["mulodd"], "P", "S"], [["mulodd"], "P", "S"]]]
    return [t0, t1]


def run_child(bindir, project, cache, timeout):
    fd, out = tempfile.mkstemp(suffix=".json")
    os.close(fd)
    env = dict(os.environ, PATH=bindir + os.pathsep + os.environ.get("PATH", ""))
    p = subprocess.run([sys.executable, "-m", "harness.props.C16_e2e", "--child", project, "1" if cache else "0", out],
                       capture_output=True, text=True, env=env, timeout=timeout, cwd=os.path.dirname(os.path.dirname(os.path.dirname(os.path.abspath(__file__)))))
    try:
        with open(out) as f:
            res = json.load(f)
    except Exception:  # noqa: BLE001
        res = {"error": (p.stdout[-1500:] + p.stderr[-1500:])}
    finally:
        os.unlink(out)
    return res


def run_e2e(rep, tier, r, fail):
    nproj = 2 if tier == "quick" else 6
    projects = []
    tmp = tempfile.mkdtemp(prefix="c16_e2e_")
    for k in range(nproj):
        if k == 0:
            trees = corpus_trees()
        else:
            pool = r.sample(POOL, r.randint(3, 5))
            if not any(c[0] in ("diveq", "muleq", "mulodd") for c in pool):
                pool.append(("diveq", 5))
            trees = [gen_tree(r, r.choice([3, 4, 4] if tier == "quick" else [4, 5, 5]), pool) for _ in range(2 if tier == "quick" else 3)]
        root = os.path.join(tmp, f"p{k}")
        bindir = make_project(root, trees)
        projects.append((root, bindir, trees))
    jobs = [(b, p, c) for p, b, _ in projects for c in (True, False)]
    with ThreadPoolExecutor(min(12, len(jobs))) as ex:
        outs = list(ex.map(lambda j: run_child(j[0], j[1], j[2], 280 if tier == "quick" else 900), jobs))
    tot_hits = tot_q = tot_ids = 0
    for k, (root, _, trees) in enumerate(projects):
        on, off = outs[2 * k], outs[2 * k + 1]
        hits = sum((on.get("hits") or {}).values())
        tot_hits += hits
        tot_q += sum((on.get("queries") or {}).values())
        tot_ids += sum((on.get("ids") or {}).values())
        rep.count("case_kind", "e2e")
        rep.count("e2e_hits", min(hits, 5))
        rep.case({"kind": "e2e", "trees": trees}, nontrivial=hits > 0)
        case = {"kind": "e2e", "trees": trees}
        if "error" in on or "error" in off:
            fail("broken-tie", f"halmos run on fabricated project {k} failed: {(on.get('error') or off.get('error'))[-600:]}", case)
            continue
        for mode, o in (("on", on), ("off", off)):
            for cl in o["clashes"]:
                fail("failing-input", f"H2 broken inside a real halmos run (cache {mode}): {cl}", dict(case, clash=cl), sig={"observable": "id-stability", "clash": cl["kind"]})
        if off.get("hits"):
            fail("failing-input", "cache hits although --cache-solver is off", case, sig={"observable": "cache-when-off"})
        ra = {x["name"]: x for x in on["results"]}
        rb = {x["name"]: x for x in off["results"]}
        if set(ra) != set(rb) or len(ra) != len(trees):
            fail("broken-tie", f"project {k}: tests run {sorted(ra)} vs {sorted(rb)}", case)
            continue
        for name in sorted(ra):
            t = trees[int(name.split("_")[1])]
            a, b_ = ra[name], rb[name]

            def leaves(res, name=name, t=t):
                out = set()
                for mdl in res["valid"] + res["invalid"]:
                    x, y = mdl.get("x", 0), mdl.get("y", 0)
                    out.add(leaf_of(t, x, y))
                return out

            la, lb = leaves(a), leaves(b_)
            for mode, ls in (("on", la), ("off", lb)):
                wrong = [l for l in ls if l[1] != "P"]
                if wrong:
                    fail("broken-tie", f"project {k} {name} (cache {mode}): a counterexample does not reach a Panic leaf: {wrong}", case)
            timeouts_off = b_["outputs"].count("unknown") + b_["outputs"].count("err")
            timeouts_on = a["outputs"].count("unknown") + a["outputs"].count("err")
            # the number of `unsat` outputs is not compared: halmos' 1 ms branching timeout makes the set of
            # explored infeasible paths vary from run to run (an extra infeasible path = an extra unsat output)
            nonunsat = lambda o: sorted(x for x in o if x != "unsat")  # noqa: E731
            if a["outputs"].count("unsat") != b_["outputs"].count("unsat"):
                rep.count("e2e_extra_infeasible_path", name)
            if a["exitcode"] != b_["exitcode"] or la != lb or nonunsat(a["outputs"]) != nonunsat(b_["outputs"]):
                if timeouts_off and a["outputs"].count("sat") == b_["outputs"].count("sat"):
                    rep.count("e2e_monotone_only", name)   # allowed by C16_monotone: solver failed without cache
                    continue
                if timeouts_on and la <= lb and a["outputs"].count("sat") + timeouts_on >= b_["outputs"].count("sat"):
                    # the solver gave up on the *instrumented* query (named assertions + produce-unsat-cores make
                    # the file different): outside the model, where the solver is one function of the constraints
                    rep.count("e2e_solver_gave_up_with_cache", name)
                    continue
                fail("failing-input", f"project {k} {name}: verdict/counterexamples differ: cache on exit={a['exitcode']} outputs={a['outputs']} leaves={sorted(la)}; cache off exit={b_['exitcode']} outputs={b_['outputs']} leaves={sorted(lb)}",
                     dict(case, test=name), sig={"observable": "on-vs-off-e2e"})
    rep.coverage["L3_queries"] = tot_q
    rep.coverage["L3_cache_hits"] = tot_hits
    rep.coverage["L3_ids_monitored"] = tot_ids
    if tot_hits == 0:
        fail("broken-tie", "no cache hit in any end-to-end run (generator does not exercise the cache)", {"kind": "e2e"})
    import shutil

    shutil.rmtree(tmp, ignore_errors=True)


if __name__ == "__main__":
    if len(sys.argv) >= 5 and sys.argv[1] == "--child":
        child(sys.argv[2], sys.argv[3] == "1", sys.argv[4])
