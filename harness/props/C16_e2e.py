"""C16, tie level L3: `python -m halmos` (in a child process, with monitors installed) on fabricated
multi-path tests, cache on vs cache off.

No forge/solc in the sandbox: the test contract is hand-assembled (decision trees over two uint256
arguments whose leaves STOP or revert with Panic(1)), the forge artifact is fabricated and a stub
`forge` is put first on PATH.  Conditions are drawn from a small pool so that the same z3 term
recurs on many paths; DIV/MUL on two symbolic operands are abstracted by halmos (f_evm_bvudiv_256 /
f_evm_bvmul_256), which makes paths that are feasible for the branching solver but unsatisfiable
after refinement -- these are the queries whose cores populate the cache.

A leaf may also be STUCK ('J': JUMP to a symbolic destination -> halmos cannot continue the path): run_test
then poses the path's feasibility query AS IS (un-refined) -- the consumer of Model/CacheTestModel.v that must
not be answered from the cache, because the cache holds cores that are unsat only after refinement.

In `sync` mode the child makes the solver answer every assertion query (and its callback run) before the engine
takes the next path -- one of the legal interleavings, the one in which the cache is as full as it can be when
a later path is looked up; the run is then a sequential history and is compared, consumer by consumer, with
the extracted test_run of the model (entry c16_test) fed with the solver replies the implementation saw.

Child mode:  python -m harness.props.C16_e2e --child <project> <0|1> <out.json> <sync 0|1>
"""
import json
import os
import subprocess
import sys
import tempfile
from concurrent.futures import ThreadPoolExecutor

M256 = (1 << 256) - 1
NPROBE = 3000      # fresh terms allocated per probe of z3's id free list

OPS = dict(STOP=0x00, ADD=0x01, MUL=0x02, DIV=0x04, LT=0x10, GT=0x11, EQ=0x14, ISZERO=0x15, AND=0x16, SHL=0x1B, SHR=0x1C,
           CALLDATALOAD=0x35, CODECOPY=0x39, POP=0x50, MLOAD=0x51, MSTORE=0x52, SLOAD=0x54, SSTORE=0x55, JUMP=0x56, JUMPI=0x57,
           GAS=0x5A, JUMPDEST=0x5B, PUSH0=0x5F, DUP1=0x80, CREATE=0xF0, RETURN=0xF3, STATICCALL=0xFA, REVERT=0xFD)


def asm(items):
    """two-pass assembler: ('label', n) -> JUMPDEST, ('ref', n) -> PUSH2 addr, ('push', nbytes, v), ('raw', bytes), mnemonic"""
    pos, labels = 0, {}
    for it in items:
        if isinstance(it, tuple) and it[0] == "label":
            labels[it[1]] = pos
            pos += 1
        elif isinstance(it, tuple) and it[0] == "ref":
            pos += 3
        elif isinstance(it, tuple) and it[0] == "push":
            pos += 1 + it[1]
        elif isinstance(it, tuple) and it[0] == "raw":
            pos += len(it[1])
        else:
            pos += 1
    out = b""
    for it in items:
        if isinstance(it, tuple) and it[0] == "label":
            out += bytes([0x5B])
        elif isinstance(it, tuple) and it[0] == "ref":
            out += bytes([0x61]) + labels[it[1]].to_bytes(2, "big")
        elif isinstance(it, tuple) and it[0] == "push":
            out += bytes([0x5F + it[1]]) + it[2].to_bytes(it[1], "big")
        elif isinstance(it, tuple) and it[0] == "raw":
            out += it[1]
        else:
            out += bytes([OPS[it]])
    return out


LEAVES = ("P", "S", "J")
X = [("push", 1, 4), "CALLDATALOAD"]
Y = [("push", 1, 36), "CALLDATALOAD"]
W = [("push", 1, 68), "CALLDATALOAD"]     # third argument: conditions on it never interact with those on x, y


def cond_code(c):
    """leaves the truth value of condition c on the stack"""
    k = c[0]
    if k == "ylt":
        return [("push", 1, c[1])] + Y + ["LT"]            # y < c  (not an equality: halmos does not concretise y)
    if k == "ygt":
        return [("push", 1, c[1])] + Y + ["GT"]            # y > c
    if k == "xeq":
        return [("push", 1, c[1])] + X + ["EQ"]
    if k == "xlt":
        return [("push", 1, c[1])] + X + ["LT"]            # x < c
    if k == "mask":
        return [("push", 1, c[2] & c[1]), ("push", 1, c[1])] + X + ["AND", "EQ"]
    if k == "diveq":
        return Y + X + ["DIV", ("push", 1, c[1]), "EQ"]      # x / y == c
    if k == "muleq":
        return Y + X + ["MUL", ("push", 1, c[1]), "EQ"]      # x * y == c
    if k == "mulodd":
        return [("push", 1, 1)] + Y + X + ["MUL", ("push", 1, 1), "AND", "EQ"]   # (x*y) & 1 == 1
    if k == "weq":
        return [("push", 1, c[1])] + W + ["EQ"]
    if k == "wlt":
        return [("push", 1, c[1])] + W + ["LT"]            # w < c
    if k == "wmask":
        return [("push", 1, c[2] & c[1]), ("push", 1, c[1])] + W + ["AND", "EQ"]
    if k == "mulcomm":
        return X + Y + ["MUL"] + Y + X + ["MUL", "EQ"]       # x*y == y*x: always true, not for the abstraction
    if k == "divle":
        return X + Y + X + ["DIV", "GT", "ISZERO"]           # not (x / y > x): always true, not for the abstraction
    raise ValueError(k)


def cond_eval(c, x, y, w=0):
    k = c[0]
    if k == "weq":
        return w == c[1]
    if k == "wlt":
        return w < c[1]
    if k == "wmask":
        return (w & c[1]) == (c[2] & c[1])
    if k == "ylt":
        return y < c[1]
    if k == "ygt":
        return y > c[1]
    if k == "xeq":
        return x == c[1]
    if k == "xlt":
        return x < c[1]
    if k == "mask":
        return (x & c[1]) == (c[2] & c[1])
    if k == "diveq":
        return (0 if y == 0 else x // y) == c[1]
    if k == "muleq":
        return (x * y) & M256 == c[1]
    if k == "mulodd":
        return (x * y) & 1 == 1
    if k in ("mulcomm", "divle"):
        return True
    raise ValueError(k)


def tree_code(tree, prefix):
    """tree = 'P' (panic) | 'S' (stop) | 'J' (stuck: jump to a symbolic destination) | [cond, if_true, if_false];
    returns items; leaf labels are numbered in order"""
    items = []
    leaves = []

    def go(t, path):
        if t in LEAVES:
            leaves.append((path, t))
            if t == "S":
                items.append("STOP")
            elif t == "J":
                items.extend(Y + X + ["ADD", "JUMP"])      # destination x + y: NotConcreteError, the path is stuck
            else:
                items.extend([("push", 32, 0x4E487B71 << 224), "PUSH0", "MSTORE", ("push", 1, 1), ("push", 1, 4), "MSTORE", ("push", 1, 0x24), "PUSH0", "REVERT"])
            return
        c, a, b = t
        lab = f"{prefix}_{len(items)}_{path}"
        items.extend(cond_code(tuple(c)) + [("ref", lab), "JUMPI"])
        go(b, path + "0")
        items.append(("label", lab))
        go(a, path + "1")

    go(tree, "")
    return items, leaves


def leaf_of(tree, x, y, w=0):
    path = ""
    t = tree
    while t not in LEAVES:
        c, a, b = t
        if cond_eval(tuple(c), x, y, w):
            t, path = a, path + "1"
        else:
            t, path = b, path + "0"
    return path, t


def make_project(root, trees):
    """trees: list of decision trees; function k is check_k(uint256 x, uint256 y)"""
    from eth_hash.auto import keccak

    os.makedirs(os.path.join(root, "out", "T.sol"), exist_ok=True)
    sigs = [f"check_{k}(uint256,uint256,uint256)" for k in range(len(trees))]
    sels = [keccak(s.encode())[:4] for s in sigs]
    items = ["PUSH0", "CALLDATALOAD", ("push", 1, 0xE0), "SHR"]
    for k, sel in enumerate(sels):
        items += ["DUP1", ("push", 4, int.from_bytes(sel, "big")), "EQ", ("ref", f"F{k}"), "JUMPI"]
    items += ["PUSH0", "PUSH0", "REVERT"]
    for k, t in enumerate(trees):
        items.append(("label", f"F{k}"))
        body, _ = tree_code(t, f"t{k}")
        items += body
    rt = asm(items)
    n = len(rt)
    cr = asm([("push", 2, n), ("push", 2, 13), "PUSH0", "CODECOPY", ("push", 2, n), "PUSH0", "RETURN"])
    assert len(cr) == 13
    cr += rt
    abi = [{"type": "function", "name": f"check_{k}", "inputs": [{"name": "x", "type": "uint256", "internalType": "uint256"}, {"name": "y", "type": "uint256", "internalType": "uint256"}, {"name": "w", "type": "uint256", "internalType": "uint256"}], "outputs": [], "stateMutability": "nonpayable"} for k in range(len(trees))]
    art = {
        "abi": abi,
        "bytecode": {"object": "0x" + cr.hex(), "sourceMap": "", "linkReferences": {}},
        "deployedBytecode": {"object": "0x" + rt.hex(), "sourceMap": "", "linkReferences": {}},
        "methodIdentifiers": {s: sel.hex() for s, sel in zip(sigs, sels)},
        "metadata": {"compiler": {"version": "0.8.26"}, "output": {"devdoc": {"methods": {}}}},
        "ast": {"absolutePath": "test/T.sol", "id": 1, "nodeType": "SourceUnit", "nodes": [{"nodeType": "ContractDefinition", "name": "T", "contractKind": "contract", "abstract": False, "nodes": [], "id": 2}]},
        "id": 0,
    }
    with open(os.path.join(root, "out", "T.sol", "T.json"), "w") as f:
        json.dump(art, f)
    with open(os.path.join(root, "foundry.toml"), "w") as f:
        f.write("[profile.default]\n")
    bindir = os.path.join(root, "bin")
    os.makedirs(bindir, exist_ok=True)
    fg = os.path.join(bindir, "forge")
    with open(fg, "w") as f:
        f.write("#!/bin/sh\nexit 0\n")
    os.chmod(fg, 0o755)
    return bindir


def subst_vars(items, V):
    """the loaders of x, y, w (calldata words) replaced by other item sequences"""
    out = []
    i = 0
    offs = {4: 0, 36: 1, 68: 2}
    while i < len(items):
        it = items[i]
        if isinstance(it, tuple) and it[0] == "push" and it[1] == 1 and it[2] in offs and i + 1 < len(items) and items[i + 1] == "CALLDATALOAD":
            out.extend(V[offs[it[2]]])
            i += 2
        else:
            out.append(it)
            i += 1
    return out


def _artifact(name, funcs, cr, rt, path):
    from eth_hash.auto import keccak

    return {
        "abi": [{"type": "function", "name": n, "inputs": [{"name": f"a{i}", "type": t, "internalType": t} for i, t in enumerate(ins)],
                 "outputs": [], "stateMutability": "nonpayable"} for n, ins in funcs],
        "bytecode": {"object": "0x" + cr.hex(), "sourceMap": "", "linkReferences": {}},
        "deployedBytecode": {"object": "0x" + rt.hex(), "sourceMap": "", "linkReferences": {}},
        "methodIdentifiers": {f"{n}({','.join(ins)})": keccak(f"{n}({','.join(ins)})".encode())[:4].hex() for n, ins in funcs},
        "metadata": {"compiler": {"version": "0.8.26"}, "output": {"devdoc": {"methods": {}}}},
        "ast": {"absolutePath": path, "id": 1, "nodeType": "SourceUnit", "nodes": [{"nodeType": "ContractDefinition", "name": name, "contractKind": "contract", "abstract": False, "nodes": [], "id": 2}]},
        "id": 0,
    }


def make_invariant_project(root, trees):
    """One FunctionContext fed by several independent runs (the case in which nothing but halmos' own
    bookkeeping keeps the conditions of a finished run -- and with them their z3 ids -- alive):

        contract C { uint flag, s1, s2, s3;
                     function set_k(uint a, uint b, uint c) { s1 = a; s2 = b; s3 = c; flag = k + 1; }    // one per tree
                     function get() returns (flag, s1, s2, s3) }
        contract T { C c;  function setUp() { c = new C(); }
                     function invariant_ok() { (flag, s1, s2, s3) = c.get(); if (flag == k + 1) tree_k(s1, s2, s3); } }

    With --invariant-depth 1 the invariant is run on the state after setUp and on the state after every set_k:
    run k explores tree k over the symbolic arguments of that call; all runs share the function's unsat cores."""
    from eth_hash.auto import keccak

    def sel(sig):
        return int.from_bytes(keccak(sig.encode())[:4], "big")

    def creation(rt):
        n = len(rt)
        cr = asm([("push", 2, n), ("push", 2, 13), "PUSH0", "CODECOPY", ("push", 2, n), "PUSH0", "RETURN"])
        assert len(cr) == 13
        return cr + rt

    def disp(funcs):
        items = ["PUSH0", "CALLDATALOAD", ("push", 1, 0xE0), "SHR"]
        for sig, lab in funcs:
            items += ["DUP1", ("push", 4, sel(sig)), "EQ", ("ref", lab), "JUMPI"]
        return items + ["PUSH0", "PUSH0", "REVERT"]

    n = len(trees)
    sets = [f"set_{k}(uint256,uint256,uint256)" for k in range(n)]
    c = disp([(s, f"S{k}") for k, s in enumerate(sets)] + [("get()", "GET")])
    for k in range(n):
        c += [("label", f"S{k}"), "POP"] + X + [("push", 1, 1), "SSTORE"] + Y + [("push", 1, 2), "SSTORE"] + W + [("push", 1, 3), "SSTORE", ("push", 1, k + 1), "PUSH0", "SSTORE", "STOP"]
    c += [("label", "GET"), "POP"]
    for slot in range(4):
        c += [("push", 1, slot), "SLOAD", ("push", 1, 0x20 * slot), "MSTORE"]
    c += [("push", 1, 0x80), "PUSH0", "RETURN"]
    c_rt = asm(c)
    c_cr = creation(c_rt)

    flag = [("push", 1, 0x20), "MLOAD"]
    V = ([("push", 1, 0x40), "MLOAD"], [("push", 1, 0x60), "MLOAD"], [("push", 1, 0x80), "MLOAD"])
    inv = [("label", "I"), "POP", ("push", 4, sel("get()")), ("push", 1, 0xE0), "SHL", "PUSH0", "MSTORE",
           ("push", 1, 0x80), ("push", 1, 0x20), ("push", 1, 4), "PUSH0", "PUSH0", "SLOAD", "GAS", "STATICCALL", "POP"]
    for k in range(n):
        inv += flag + [("push", 1, k + 1), "EQ", ("ref", f"T{k}"), "JUMPI"]
    inv += ["STOP"]
    for k, t in enumerate(trees):
        body, _ = tree_code(t, f"t{k}")
        inv += [("label", f"T{k}")] + subst_vars(body, V)

    def t_items(tail_off):
        return (disp([("setUp()", "S"), ("invariant_ok()", "I")])
                + [("label", "S"), "POP", ("push", 2, len(c_cr)), ("push", 2, tail_off), "PUSH0", "CODECOPY",
                   ("push", 2, len(c_cr)), "PUSH0", "PUSH0", "CREATE", "PUSH0", "SSTORE", "STOP"]
                + inv + [("raw", c_cr)])

    off = len(asm(t_items(0))) - len(c_cr)
    t_rt = asm(t_items(off))
    assert t_rt[off:] == c_cr
    os.makedirs(os.path.join(root, "out", "T.sol"), exist_ok=True)
    os.makedirs(os.path.join(root, "out", "C.sol"), exist_ok=True)
    with open(os.path.join(root, "out", "T.sol", "T.json"), "w") as f:
        json.dump(_artifact("T", [("setUp", []), ("invariant_ok", [])], creation(t_rt), t_rt, "test/T.sol"), f)
    with open(os.path.join(root, "out", "C.sol", "C.json"), "w") as f:
        json.dump(_artifact("C", [(f"set_{k}", ["uint256"] * 3) for k in range(n)] + [("get", [])], c_cr, c_rt, "src/C.sol"), f)
    with open(os.path.join(root, "foundry.toml"), "w") as f:
        f.write("[profile.default]\n")
    with open(os.path.join(root, "INVARIANT"), "w") as f:
        f.write("1\n")
    bindir = os.path.join(root, "bin")
    os.makedirs(bindir, exist_ok=True)
    fg = os.path.join(bindir, "forge")
    with open(fg, "w") as f:
        f.write("#!/bin/sh\nexit 0\n")
    os.chmod(fg, 0o755)
    return bindir


# ----------------------------------------------------------------- child: halmos with monitors

def child(project, cache, outfile, sync=False):
    import gc
    import threading
    import time

    import halmos.__main__ as hm
    import halmos.sevm as sevm
    import halmos.solve as solve

    state = {"fn": "setup", "ids": {}, "clashes": [], "hits": {}, "queries": {}, "results": [],
             "in_test": False, "in_assert": False, "consumers": [], "low": [], "cb_done": 0,
             "assert_ids": {}, "probe_n": 0, "freed_reported": set(), "live_cores": lambda: [], "events": [], "qpid": {}}
    lock = threading.Lock()

    # ---- the consumers of the solver, in the order run_test creates them (main thread)
    orig_pc = hm.PathContext

    # ---- the schedule: path taken (main thread) / look-up of the cache by a worker / callback of a worker, linearised by
    # one lock held around the look-up and around the whole callback (so the logged order IS the order of reads and appends)
    evlock = threading.RLock()

    def PathContext(**kw):
        pc = orig_pc(**kw)
        if state["in_test"]:
            q = kw["query"]
            with evlock:
                state["qpid"][id(q)] = (kw["path_id"], q)       # the query object is kept: its id() stays its own
                state["events"].append(["path", kw["path_id"]])
                state["consumers"].append({"pid": kw["path_id"], "kind": "assert" if state["in_assert"] else "stuck",
                                           "ids": [str(i) for i in q.assertions],
                                           "would_hit": bool(orig_check(q, [list(c) for c in kw["solving_ctx"].unsat_cores]))})
        return pc

    hm.PathContext = PathContext

    # ---- every solver invocation (any thread): what was asked (path, refined?) and what came back
    orig_low = solve.solve_low_level

    def solve_low_level(path_ctx):
        rec = {"pid": path_ctx.path_id, "refined": bool(path_ctx.is_refined)}
        try:
            out = orig_low(path_ctx)
        except BaseException as e:
            rec["exc"] = type(e).__name__
            with lock:
                state["low"].append(rec)
            raise
        res = str(out.result)
        rec.update(result=res if res in ("sat", "unsat", "unknown") else "err",
                   valid=(bool(out.model.is_valid) if out.model is not None else None),
                   core=(None if out.unsat_core is None else [str(i) for i in out.unsat_core]))
        with lock:
            state["low"].append(rec)
        return out

    solve.solve_low_level = solve_low_level
    hm.solve_low_level = solve_low_level

    # ---- sync mode: the answer to an assertion query (and its callback) arrives before the next path is taken
    orig_cb = hm.CounterexampleHandler._solve_end_to_end_callback

    def callback(self, *a, **kw):
        with evlock:
            try:
                return orig_cb(self, *a, **kw)
            finally:
                pc = kw.get("path_ctx")
                state["events"].append(["cb", pc.path_id if pc is not None else -1])
                with lock:
                    state["cb_done"] += 1

    hm.CounterexampleHandler._solve_end_to_end_callback = callback
    orig_hav = hm.CounterexampleHandler.handle_assertion_violation

    def handle_assertion_violation(self, *a, **kw):
        n0 = len(self.submitted_futures)
        state["in_assert"] = True
        try:
            orig_hav(self, *a, **kw)
        finally:
            state["in_assert"] = False
        if sync and len(self.submitted_futures) > n0:
            deadline = time.time() + 120
            while time.time() < deadline:
                with lock:
                    if state["cb_done"] >= len(self.submitted_futures):
                        break
                time.sleep(0.002)

    hm.CounterexampleHandler.handle_assertion_violation = handle_assertion_violation
    orig_to_smt2 = sevm.Path.to_smt2

    def probe_freed():
        """H2 at its root: z3 hands a released AST id out again (free list).  After a forced collection a batch of
        fresh terms is allocated: if one of them receives the id of a condition that was serialised for an assertion
        query of the function context still running (an id the cache may hold or be asked about), that condition has
        been released and its id now denotes something else."""
        import z3

        watched = state["assert_ids"].get(state["fn"])
        if not watched or not cache:     # without --cache-solver nobody ever compares ids
            return
        state["probe_n"] += 1
        ps = [z3.Int(f"c16_probe_{state['probe_n']}_{i}") for i in range(NPROBE)]
        got = {str(t.get_id()) for t in ps}
        del ps
        for i in sorted(got & watched.keys()):
            if (state["fn"], i) not in state["freed_reported"]:
                state["freed_reported"].add((state["fn"], i))
                cores = [c for c in state["live_cores"]() if i in c]
                state["clashes"].append({"kind": "id-released-and-recycled", "fn": state["fn"], "id": i, "was": watched[i][:300], "in_stored_core": bool(cores)})

    def to_smt2(self, args):
        gc.collect()          # halmos disables the cyclic gc; force it so that freed terms really go
        probe_freed()
        q = orig_to_smt2(self, args)
        seen = state["ids"].setdefault(state["fn"], {})
        if state["in_assert"]:
            wa = state["assert_ids"].setdefault(state["fn"], {})
            for t in self.conditions:
                wa.setdefault(str(t.get_id()), t.sexpr())
        conds = list(self.conditions)
        if [str(t.get_id()) for t in conds] != list(q.assertions):
            state["clashes"].append({"kind": "ids-differ-from-conditions", "fn": state["fn"]})
        for t in conds:
            i, s = str(t.get_id()), t.sexpr()
            if seen.setdefault(i, s) != s:
                state["clashes"].append({"kind": "id-reused", "fn": state["fn"], "id": i, "first": seen[i][:300], "now": s[:300]})
        state["queries"][state["fn"]] = state["queries"].get(state["fn"], 0) + 1
        del conds
        return q

    sevm.Path.to_smt2 = to_smt2
    orig_check = solve.check_unsat_cores

    def check_unsat_cores(query, cores):
        with evlock:
            r = orig_check(query, cores)
            known = state["qpid"].get(id(query))
            if known is not None and known[1] is query:
                state["events"].append(["start", known[0]])
        if r:
            with lock:
                state["hits"][state["fn"]] = state["hits"].get(state["fn"], 0) + 1
        return r

    solve.check_unsat_cores = check_unsat_cores
    orig_run_test = hm.run_test

    def run_test(ctx):
        state["fn"] = ctx.info.name
        state.update(in_test=True, consumers=[], low=[], cb_done=0, events=[], qpid={})
        state["live_cores"] = lambda: [[str(i) for i in c] for c in ctx.solving_ctx.unsat_cores]
        try:
            res = orig_run_test(ctx)
        finally:
            state["in_test"] = False
        gc.collect()
        # no probe here: what is released once the function context has done its last look-up cannot be asked about again

        def models(ms):
            out = []
            for pm in ms:
                d = {}
                for name, mv in (pm.model or {}).items():
                    d[getattr(mv, "variable_name", name)] = mv.value
                out.append(d)
            return out

        state["results"].append({
            "name": ctx.info.name, "exitcode": res.exitcode,
            "outputs": sorted(str(o.result) for o in ctx.solver_outputs),
            "valid": models(ctx.valid_counterexamples), "invalid": models(ctx.invalid_counterexamples),
            "cores": len(ctx.solving_ctx.unsat_cores),
            "num_paths": list(res.num_paths) if res.num_paths else None,
            "outs": [{"pid": o.path_id, "result": (str(o.result) if str(o.result) in ("sat", "unsat", "unknown") else "err"),
                      "valid": (bool(o.model.is_valid) if o.model is not None else None),
                      "core": (None if o.unsat_core is None else [str(i) for i in o.unsat_core])} for o in ctx.solver_outputs],
            "final_cores": [[str(i) for i in c] for c in ctx.solving_ctx.unsat_cores],
            "consumers": state["consumers"], "low": state["low"], "events": state["events"],
        })
        state["fn"] = "between-tests"
        return res

    hm.run_test = run_test
    argv = ["--root", project, "--no-status", "--solver-timeout-assertion", "60000", "--solver-threads", "1" if sync else "2"]
    if cache:
        argv.append("--cache-solver")
    if os.path.exists(os.path.join(project, "INVARIANT")):
        argv += ["--invariant-depth", "1"]
    rc = None
    try:
        r = hm._main(argv)
        rc = r.exitcode
    except SystemExit as e:
        rc = e.code
    out = {"rc": rc, "results": state["results"], "clashes": state["clashes"], "hits": state["hits"],
           "queries": state["queries"], "ids": {k: len(v) for k, v in state["ids"].items()}}
    with open(outfile, "w") as f:
        json.dump(out, f)


# ----------------------------------------------------------------- parent

POOL = [("ylt", 1), ("ylt", 2), ("ygt", 0), ("xeq", 3), ("xeq", 7), ("xlt", 9), ("mask", 3, 1), ("diveq", 5), ("diveq", 7), ("muleq", 6), ("mulodd",),
        ("mulcomm",), ("divle",)]
ABSTRACTED = ("diveq", "muleq", "mulodd", "mulcomm", "divle")


def gen_tree(r, depth, pool):
    if depth == 0 or (depth <= 2 and r.random() < 0.2):
        u = r.random()
        return "P" if u < 0.5 else ("J" if u < 0.75 else "S")
    c = list(r.choice(pool))
    return [c, gen_tree(r, depth - 1, pool), gen_tree(r, depth - 1, pool)]


# conjunctions that are contradictory under the real mul/div and satisfiable for halmos' uninterpreted abstraction:
# the branching solver lets the engine in, the refined assertion query is unsat, its core is what the cache stores
GADGETS = [
    [(("mulcomm",), False)],                              # x*y != y*x
    [(("divle",), False)],                                # x / y > x
    [(("ylt", 1), True), (("diveq", 5), True)],           # y == 0 and x / y == 5
    [(("mask", 1, 0), True), (("mulodd",), True)],        # x even and x*y odd
    [(("xlt", 4), True), (("diveq", 5), True)],           # x < 4 and x / y == 5
]
REGULAR = [("weq", 1), ("weq", 2), ("wlt", 5), ("wlt", 9), ("wmask", 3, 1), ("wmask", 6, 2), ("wmask", 8, 8)]


def gen_gadget_tree(r, depth):
    """a frame of ordinary conditions, one gadget, and below its contradictory side a subtree of ordinary
    conditions whose leaves panic, get stuck or stop: the same stored core is met again by later paths of
    every kind, in both exploration orders"""
    sub = gen_tree(r, depth, r.sample(REGULAR, 4))
    for cond, side in reversed(r.choice(GADGETS)):
        other = gen_tree(r, r.choice([0, 1]), REGULAR)
        sub = [list(cond), sub, other] if side else [list(cond), other, sub]
    for _ in range(r.choice([0, 0, 1])):
        other = gen_tree(r, r.choice([0, 1, 2]), POOL)
        c = list(r.choice([("xlt", 9), ("ylt", 2), ("mask", 6, 2), ("ygt", 0)]))
        sub = [c, sub, other] if r.random() < 0.5 else [c, other, sub]
    return sub


def without_stuck(tree, r):
    if tree in LEAVES:
        return r.choice(["P", "P", "S"]) if tree == "J" else tree
    return [tree[0], without_stuck(tree[1], r), without_stuck(tree[2], r)]


def invariant_corpus():
    """runs of an invariant: refined-only contradictions whose cores are stored, without and with stuck paths"""
    return [[["mulcomm"], "S", [["wlt", 9], "P", [["weq", 9], "P", "S"]]],
            [["ylt", 1], [["diveq", 5], [["wmask", 3, 1], "P", "P"], "S"], "S"],
            [["mulcomm"], "S", [["xlt", 9], "J", "P"]],
            [["divle"], "P", [["wlt", 5], "P", "P"]]]


def gen_project_trees(r, tier):
    pool = r.sample(POOL, r.randint(3, 5))
    if not any(c[0] in ABSTRACTED for c in pool):
        pool.append(r.choice([("diveq", 5), ("mulcomm",), ("divle",)]))
    trees = [gen_gadget_tree(r, r.choice([2, 3] if tier == "quick" else [3, 4])) for _ in range(2 if tier == "quick" else 3)]
    trees.append(gen_tree(r, r.choice([3, 4, 4] if tier == "quick" else [4, 5, 5]), pool))
    return trees


def corpus_trees():
    """hand-made: the same refined-only contradiction (y < 1 and x / y == 5) reached on several paths"""
    bad = lambda leaf: [["ylt", 1], [["diveq", 5], leaf, "S"], "S"]  # noqa: E731
    t0 = [["xlt", 9], [["xeq", 3], bad("P"), bad("P")], [["mask", 3, 1], bad("P"), [["xeq", 7], "P", "S"]]]
    t1 = [["ylt", 2], [["ygt", 0], [["xlt", 9], [["diveq", 5], "P", "S"], [["diveq", 5], "S", "P"]], [["diveq", 7], "P", [["diveq", 5], "P", "S"]]], [["mask", 1, 0], [["mulodd"], "P", "S"], [["mulodd"], "P", "S"]]]
    # stuck paths below a condition that is contradictory only after refinement, next to an assertion path with
    # the same condition (both exploration orders): the witness of C16_refined_core_not_abstract_refuted.  The
    # assertion query is unsat once refined and its core is stored; the stuck path contains that core and is
    # feasible as posed -- it must be reported ([ERROR] stuck) with and without the cache
    t2 = [["mulcomm"], "S", [["xlt", 9], "J", "P"]]
    t3 = [["mulcomm"], "S", [["xlt", 9], "P", "J"]]
    t4 = [["ylt", 1], [["diveq", 5], [["xeq", 3], "P", [["xeq", 7], "J", [["mask", 3, 1], "J", "P"]]], "S"], "S"]
    t5 = [["divle"], [["xlt", 9], "S", "J"], [["xlt", 9], [["xeq", 3], "J", "P"], "J"]]
    return [t0, t1, t2, t3, t4, t5]


def run_child(bindir, project, cache, timeout, sync=False):
    import time

    t0 = time.time()
    fd, out = tempfile.mkstemp(suffix=".json")
    os.close(fd)
    env = dict(os.environ, PATH=bindir + os.pathsep + os.environ.get("PATH", ""))
    p = subprocess.run([sys.executable, "-m", "harness.props.C16_e2e", "--child", project, "1" if cache else "0", out, "1" if sync else "0"],
                       capture_output=True, text=True, env=env, timeout=timeout, cwd=os.path.dirname(os.path.dirname(os.path.dirname(os.path.abspath(__file__)))))
    try:
        with open(out) as f:
            res = json.load(f)
    except Exception:  # noqa: BLE001
        res = {"error": (p.stdout[-1500:] + p.stderr[-1500:])}
    finally:
        os.unlink(out)
    res["wall"] = round(time.time() - t0, 1)
    return res


EXIT_OF_VERDICT = {0: 1, 1: 5, 2: 2, 3: 3, 4: 4, 5: 0}   # model verdict code -> halmos Exitcode (FAIL, EXCEPTION, TIMEOUT, STUCK, REVERT_ALL, PASS)


def reply_of_low(l):
    """a record of the child's solve_low_level log -> reply dict of the model encoding"""
    if l is None or "exc" in l or l["result"] == "err":
        return {"kind": "err"}
    if l["result"] == "sat":
        return {"kind": "sat", "valid": bool(l["valid"]), "m": 0}
    if l["result"] == "unsat":
        return {"kind": "unsat", "core": l["core"]}
    return {"kind": "unknown"}


def model_test_call(res, cache):
    """one finished test of a sync run -> the c16_test call and what the implementation showed"""
    from harness.props.C16 import enc_reply, enc_strlist

    lows = {}
    for l in res["low"]:
        lows.setdefault((l["pid"], l["refined"]), l)
    arg = []
    n = 0
    for c in res["consumers"]:
        la, lr = lows.get((c["pid"], False)), lows.get((c["pid"], True))
        arg += [0 if c["kind"] == "assert" else 1] + enc_strlist(c["ids"]) + enc_reply(reply_of_low(la)) + enc_reply(reply_of_low(lr)) + [1 if lr is not None else 0]
        n += 1
    for _ in range(res["num_paths"][1]):
        arg += [2] + enc_strlist([]) + [5, 5, 0]
        n += 1
    impl = {
        "exit": res["exitcode"], "stuck": res["num_paths"][2], "normal": res["num_paths"][1],
        "outs": [reply_of_low(o) for o in res["outs"]],
        "skipped": [not any(l["pid"] == c["pid"] for l in res["low"]) for c in res["consumers"]],
        "cores": res["final_cores"],
    }
    return ("c16_test", [1 if cache else 0, n] + arg), impl


def model_sched_call(res, cache):
    """one finished test of a racing run -> the c16_sched call (the schedule the implementation went through: paths
    taken, look-ups and callbacks in the order the child linearised them) and what the implementation showed"""
    (_, targ), impl = model_test_call(res, cache)
    index = {c["pid"]: i for i, c in enumerate(res["consumers"])}
    evs = []
    for kind, pid in res["events"]:
        if pid in index:
            evs += [{"path": 0, "start": 1, "cb": 2}[kind], index[pid]]
    for i in range(res["num_paths"][1]):
        evs += [0, len(res["consumers"]) + i]
    impl = {k: impl[k] for k in ("exit", "stuck", "normal", "outs", "cores")}
    impl["pending"] = 0
    return ("c16_sched", [targ[0], len(evs) // 2] + evs + targ[1:]), impl


def is_sequential(res):
    """did every assertion query get its answer and its callback before the next path was taken (what sync mode aims at;
    a solver slower than the child's patience leaves a racing schedule, which is replayed as such)"""
    kinds = {c["pid"]: c["kind"] for c in res["consumers"]}
    ev = [(k, p) for k, p in res["events"] if p in kinds]
    i = 0
    while i < len(ev):
        k, p = ev[i]
        if k != "path":
            return False
        if kinds[p] == "assert":
            if ev[i + 1:i + 3] != [("start", p), ("cb", p)]:
                return False
            i += 3
        else:
            i += 1
    return True


def decode_model_sched(v):
    from harness.props.C16 import dec_reply, dec_strs

    out = {"exit": EXIT_OF_VERDICT.get(v[0], -1), "stuck": v[1], "normal": v[2]}
    i = 4
    outs = []
    for _ in range(v[3]):
        rr, i = dec_reply(v, i)
        outs.append(rr)
    out["outs"] = outs
    out["pending"] = v[i]
    nc = v[i + 1]
    i += 2
    cores = []
    for _ in range(nc):
        c, i = dec_strs(v, i)
        cores.append(c)
    out["cores"] = cores
    return out


def decode_model_test(v):
    from harness.props.C16 import dec_reply, dec_strs

    out = {"exit": EXIT_OF_VERDICT[v[0]], "stuck": v[1], "normal": v[2]}
    i = 4
    outs = []
    for _ in range(v[3]):
        rr, i = dec_reply(v, i)
        outs.append(rr)
    out["outs"] = outs
    n = v[i]
    out["skipped"] = [bool(x) for x in v[i + 1:i + 1 + n]]
    i += 1 + n
    nc = v[i]
    i += 1
    cores = []
    for _ in range(nc):
        c, i = dec_strs(v, i)
        cores.append(c)
    out["cores"] = cores
    return out


def replay_case(case):
    """re-runs the fabricated project of an e2e failure with the cache on and off and prints what run_test reported"""
    tmp = tempfile.mkdtemp(prefix="c16_replay_")
    trees = case["trees"]
    bindir = (make_invariant_project if case.get("invariant") else make_project)(tmp, trees)
    for k, t in enumerate(trees):
        print(f"  tree {k}: {t}")
    for cache in (True, False):
        o = run_child(bindir, tmp, cache, 600, case.get("sync", True))
        if "error" in o:
            print("  cache", "on " if cache else "off", "halmos failed:", o["error"][-400:])
            continue
        print("  cache", "on " if cache else "off", "clashes:", o["clashes"][:4])
        for x in o["results"]:
            stuck = [c["pid"] for c in x["consumers"] if c["kind"] == "stuck"]
            asked = sorted({l["pid"] for l in x["low"]})
            print(f"    {x['name']}: exit {x['exitcode']} paths (total, normal, stuck) {x['num_paths']} outputs {x['outputs']} stored cores {x['final_cores']}"
                  f" stuck-path queries {stuck} solver asked for paths {asked}")


def run_e2e(rep, tier, r, fail, m=None):
    # quick: the corpus and a random project in sync mode, a random project with the solver racing the engine
    # + invariant projects (sync): one function context fed by several independent runs, the id free-list probe on
    nproj = 3 if tier == "quick" else 12
    ninv = 1 if tier == "quick" else 4
    projects = []
    tmp = tempfile.mkdtemp(prefix="c16_e2e_")
    for k in range(nproj + ninv):
        root = os.path.join(tmp, f"p{k}")
        if k >= nproj:
            # a stuck path is kept in run_test's `stuck` list (Exec, path, conditions) until the verdict: runs without
            # stuck leaves are the ones whose conditions nothing but halmos' memo tables keeps alive
            trees = (invariant_corpus() if k == nproj else []) + [without_stuck(gen_gadget_tree(r, r.choice([2, 3])), r) if j % 2 == 0 else gen_gadget_tree(r, r.choice([2, 3]))
                                                                   for j in range(2 if tier == "quick" else 4)]
            bindir = make_invariant_project(root, trees)
            projects.append((root, bindir, trees, True))
            continue
        if k == 0:
            trees = corpus_trees()
        else:
            trees = gen_project_trees(r, tier)
        bindir = make_project(root, trees)
        projects.append((root, bindir, trees, k % 3 != 2))
    jobs = [(b, p, c, sy) for p, b, _, sy in projects for c in (True, False)]
    with ThreadPoolExecutor(min(12, len(jobs))) as ex:
        outs = list(ex.map(lambda j: run_child(j[0], j[1], j[2], 280 if tier == "quick" else 900, j[3]), jobs))
    tot_hits = tot_q = tot_ids = tot_stuck = tot_model = 0
    scenario = False
    mcalls, mimpl, mwhere = [], [], []
    for k, (root, _, trees, sync) in enumerate(projects):
        on, off = outs[2 * k], outs[2 * k + 1]
        hits = sum((on.get("hits") or {}).values())
        tot_hits += hits
        tot_q += sum((on.get("queries") or {}).values())
        tot_ids += sum((on.get("ids") or {}).values())
        invariant = k >= nproj
        rep.count("case_kind", "e2e:" + ("invariant" if invariant else "sync" if sync else "racing"))
        rep.count("e2e_hits", min(hits, 5))
        rep.case({"kind": "e2e", "trees": trees, "sync": sync, "invariant": invariant}, nontrivial=hits > 0)
        case = {"kind": "e2e", "trees": trees, "sync": sync, "invariant": invariant}
        if "error" in on or "error" in off:
            fail("broken-tie", f"halmos run on fabricated project {k} failed: {(on.get('error') or off.get('error'))[-600:]}", case)
            continue
        for mode, o in (("on", on), ("off", off)):
            for cl in o["clashes"]:
                fail("failing-input", f"H2 broken inside a real halmos run (cache {mode}): {cl}", dict(case, clash=cl), sig={"observable": "id-stability", "clash": cl["kind"]})
        if off.get("hits"):
            fail("failing-input", "cache hits although --cache-solver is off", case, sig={"observable": "cache-when-off"})
        ra = {x["name"]: x for x in on["results"]}
        rb = {x["name"]: x for x in off["results"]}
        if set(ra) != set(rb) or len(ra) != (1 if invariant else len(trees)):
            fail("broken-tie", f"project {k}: tests run {sorted(ra)} vs {sorted(rb)}", case)
            continue
        for name in sorted(ra):
            t = trees if invariant else trees[int(name.split("_")[1])]
            a, b_ = ra[name], rb[name]
            tcase = dict(case, test=name, tree=t)

            def leaves(res, name=name, t=t):
                out = set()
                if invariant:      # the model of an invariant counterexample names the arguments of the call sequence
                    return {("n", "P")} if res["valid"] + res["invalid"] else set()
                for mdl in res["valid"] + res["invalid"]:
                    out.add(leaf_of(t, mdl.get("x", 0), mdl.get("y", 0), mdl.get("w", 0)))
                return out

            la, lb = leaves(a), leaves(b_)
            for mode, ls in (("on", la), ("off", lb)):
                wrong = [l for l in ls if l[1] != "P"]
                if wrong:
                    fail("broken-tie", f"project {k} {name} (cache {mode}): a counterexample does not reach a Panic leaf: {wrong}", tcase)
            # ---- the stuck paths: confirmed by the solver on the query as posed, with and without the cache
            stuck_a, stuck_b = a["num_paths"][2], b_["num_paths"][2]
            tot_stuck += stuck_b
            rep.count("e2e_stuck_paths", min(stuck_b, 4))

            def stuck_gave_up(res):
                pids = {c["pid"] for c in res["consumers"] if c["kind"] == "stuck"}
                return any(l["pid"] in pids and ("exc" in l or l["result"] in ("unknown", "err")) for l in res["low"])

            for c in a["consumers"]:
                if c["kind"] == "stuck" and c["would_hit"]:
                    rep.count("e2e_stuck_path_contains_stored_core", name)
                    if any(l["pid"] == c["pid"] and not l["refined"] and l.get("result") == "sat" for l in a["low"]):
                        scenario = True
            if stuck_a != stuck_b:
                if stuck_gave_up(a) or stuck_gave_up(b_):
                    rep.count("e2e_solver_gave_up_on_stuck_path", name)
                else:
                    dropped = [c for c in a["consumers"] if c["kind"] == "stuck" and not any(l["pid"] == c["pid"] for l in a["low"])]
                    fail("failing-input", f"project {k} {name}: {stuck_b} stuck path(s) reported without the cache (exit {b_['exitcode']}), {stuck_a} with it (exit {a['exitcode']})"
                         + (f"; with the cache the feasibility query of stuck path(s) {[c['pid'] for c in dropped]} never reached the solver (ids {[c['ids'] for c in dropped]}, cores {a['final_cores']})" if dropped else "")
                         + f"; tree {t}", tcase, sig={"observable": "on-vs-off-e2e", "what": "stuck-paths"})
                    continue
            timeouts_off = b_["outputs"].count("unknown") + b_["outputs"].count("err")
            timeouts_on = a["outputs"].count("unknown") + a["outputs"].count("err")
            # the number of `unsat` outputs is not compared: halmos' 1 ms branching timeout makes the set of
            # explored infeasible paths vary from run to run (an extra infeasible path = an extra unsat output)
            nonunsat = lambda o: sorted(x for x in o if x != "unsat")  # noqa: E731
            if a["outputs"].count("unsat") != b_["outputs"].count("unsat"):
                rep.count("e2e_extra_infeasible_path", name)
            if a["exitcode"] != b_["exitcode"] or la != lb or nonunsat(a["outputs"]) != nonunsat(b_["outputs"]):
                if timeouts_off and a["outputs"].count("sat") == b_["outputs"].count("sat"):
                    rep.count("e2e_monotone_only", name)   # allowed by C16_monotone: solver failed without cache
                    continue
                if timeouts_on and la <= lb and a["outputs"].count("sat") + timeouts_on >= b_["outputs"].count("sat"):
                    # the solver gave up on the *instrumented* query (named assertions + produce-unsat-cores make
                    # the file different): outside the model, where the solver is one function of the constraints
                    rep.count("e2e_solver_gave_up_with_cache", name)
                    continue
                fail("failing-input", f"project {k} {name}: verdict/counterexamples differ: cache on exit={a['exitcode']} outputs={a['outputs']} leaves={sorted(la)}; cache off exit={b_['exitcode']} outputs={b_['outputs']} leaves={sorted(lb)}",
                     tcase, sig={"observable": "on-vs-off-e2e"})
            # ---- sync runs are sequential histories: the model's test_run on the replies the implementation saw
            # racing runs (two workers): the schedule the child linearised, through the model's sched_run
            if m is not None:
                for cache, res in ((True, a), (False, b_)):
                    seq = sync and is_sequential(res)
                    if sync and not seq:
                        rep.count("e2e_sync_not_reached", name)
                    call, impl = model_test_call(res, cache) if seq else model_sched_call(res, cache)
                    mcalls.append(call)
                    mimpl.append(impl)
                    mwhere.append((k, name, cache, tcase))
    if mcalls:
        for (k, name, cache, tcase), impl, mv in zip(mwhere, mimpl, m.parallel_batch(mcalls)):
            tot_model += 1
            mo = (decode_model_test(mv) if "skipped" in impl else decode_model_sched(mv)) if mv else None
            if mo != impl:
                diff = sorted(key for key in impl if mo is None or mo.get(key) != impl[key])
                fail("broken-tie", f"project {k} {name} (cache {'on' if cache else 'off'}): run_test and the model's {'test_run' if 'skipped' in impl else 'sched_run'} differ in {diff}: implementation {impl}, model {mo}",
                     dict(tcase, cache=cache, implementation=impl, model=mo))
    rep.coverage["L3_child_seconds"] = [o.get("wall") for o in outs]
    rep.coverage["L3_queries"] = tot_q
    rep.coverage["L3_cache_hits"] = tot_hits
    rep.coverage["L3_ids_monitored"] = tot_ids
    rep.coverage["L3_stuck_paths_confirmed"] = tot_stuck
    rep.coverage["L3_tests_replayed_in_model"] = tot_model
    rep.coverage["refined_core_witness_replayed_on_implementation"] = scenario
    if tot_hits == 0:
        fail("broken-tie", "no cache hit in any end-to-end run (generator does not exercise the cache)", {"kind": "e2e"})
    if not scenario:
        fail("broken-tie", "the witness of C16_refined_core_not_abstract_refuted is not exercised: no stuck path that contains a stored (refined) core "
             "and is confirmed feasible by the solver in any end-to-end run", {"kind": "e2e", "trees": projects[0][2]})
    import shutil

    shutil.rmtree(tmp, ignore_errors=True)


if __name__ == "__main__":
    if len(sys.argv) >= 5 and sys.argv[1] == "--child":
        child(sys.argv[2], sys.argv[3] == "1", sys.argv[4], len(sys.argv) > 5 and sys.argv[5] == "1")
