"""C10 — Incomplete exploration is always reported.

Obligations: translators T-jumpi (decision part of SEVM.jumpi) and T-runtest (which logs/warnings
run_test, setup and run_target_function report), Props/C10.vo, lint.
Tie X-C10 at L3: generated counted-loop programs (concrete vs symbolic trip count) x --loop {1,2,4},
--depth, --width, in a regular test, in setUp(Symbolic) and inside an invariant target, run through
`python -m halmos` on fabricated forge projects.  Ground truth = the extracted reference interpreter:
whenever some input's concrete execution reaches the planted Panic(1) (i.e. an execution halmos must
have followed to its end) the output must contain [FAIL]/[ERROR]/[TIMEOUT] or a LOOP_BOUND /
'incomplete execution' warning; loops with a concrete condition must never be reported as cut.
"""
import json
import time

from harness import c10_lib as G
from harness import common, l3
from harness.common import Model

PID = "C10"
TRANSLATORS = ["T-jumpi", "T-runtest"]

KNOWN = common.known_for("C10")  # entries live in /verif/known_findings.json

ASSUMPTIONS = [
    "the decision-level theorems are about the function regenerated from SEVM.jumpi; that the interpreter loop applies it at every JUMPI and keeps the visit counters per path is covered by the L3 tie only",
    "the reference interpreter (coq/Spec/Evm.v, extracted) is the EVM oracle",
    "the extracted model and driver are faithful to the Coq definitions (extraction is trusted)",
]


def fail_or_known(rep, kind, what, case=None, sig=None):
    if kind == "failing-input":
        for k in KNOWN:
            if common.finding_matches(k, {"sig": sig or {}}):
                hits = rep.coverage.setdefault("known_local", {})
                if k["id"] not in hits:
                    print(f"KNOWN-FINDING: property={rep.pid} {k['id']}: {k['what'][:300]}")
                    hits[k["id"]] = {"what": k["what"], "example": case}
                return
    rep.fail(kind, what, case=case, sig=sig)


def worker(task):
    t0 = time.time()
    b = G.build(task)
    with l3.Project(b["contracts"], base=task.get("_base")) as p:
        r = p.run(task["options"], timeout=task.get("timeout", 120))
    return {"seconds": round(time.time() - t0, 1), "brief": r.brief(), "warnings": r.warnings, "out": r.out[-3000:], "err": r.err[-2500:]}


# ----------------------------------------------------------------------------- ground truth

def truth_of(case, b):
    """-> list of (scenario description, outcome of the last transaction) on the reference interpreter"""
    from harness import refevm

    t = b["contracts"][0]
    acc0 = l3.ref_accounts(t.runtime)
    out = []
    if b["truth"] == "invariant":
        K = b["K"]
        [s] = refevm.run_many([(acc0, l3.ref_msg(l3.selector("setUp()")), None, 0)], fuel=200000)
        if s.get("status") != "ok":
            return [("setUp", s.get("status"))]
        acc1 = l3.accounts_after(s, acc0)
        target = acc1[l3.FOUNDRY_TEST]["storage"].get(0, 0)
        for n in (0, 1, K, K + 1):
            data = l3.selector("bump(uint256)") + n.to_bytes(32, "big")
            [u] = refevm.run_many([(acc1, l3.ref_msg(data, this=target, caller=0xCAFE, origin=0xCAFE), None, s.get("ctr", 0))], fuel=400000)
            if u.get("status") != "ok":
                out.append((f"setUp; bump({n})", "target:" + str(u.get("status"))))
                continue
            acc2 = l3.accounts_after(u, acc1)
            [v] = refevm.run_many([(acc2, l3.ref_msg(l3.selector(b["test"])), None, u.get("ctr", 0))], fuel=200000)
            out.append((f"setUp; C.bump({n}); {b['test']}", l3.classify_ref(v, {1})))
        return out
    for scn in b["truth"]:
        acc, ctr, res = acc0, 0, None
        desc = []
        for to, data in scn:
            [res] = refevm.run_many([(acc, l3.ref_msg(bytes.fromhex(data), this=to), None, ctr)], fuel=400000)
            desc.append(data[:8] + "(" + data[8:][-6:] + ")")
            if res.get("status") != "ok":
                break
            acc, ctr = l3.accounts_after(res, acc), res.get("ctr", ctr)
        out.append(("; ".join(desc), l3.classify_ref(res, {1}) if len(desc) == len(scn) else "setup:" + str(res.get("status"))))
    return out


REPORTED = ("loop_bound", "incomplete_depth", "incomplete_width")


def run(rep, tier):
    b = common.build_property(PID, TRANSLATORS)
    common.standard_obligations(rep, PID, b)
    m = None
    if b["make_ok"]:
        exe, log = common.build_driver("C03")   # the runner model's entry points live in Extract/ExC03.v
        rep.obligation("extraction of Model/RunnerModel.v entry points + OCaml driver build", exe is not None, "" if exe else log[-800:])
        if exe is None:
            rep.fail("broken-tie", "extracted model driver does not build: " + log[-400:], case={})
        else:
            m = Model(exe)
    from harness import refevm

    refevm.driver()
    r = common.rng(PID)
    cases = G.gen_cases(r, tier)
    r.shuffle(cases)
    # invariant and setUp cases first (they carry the runner-level statements), then the rest within the budget
    cases.sort(key=lambda c: c["family"] not in ("invariant", "setup"))
    res = l3.run_pool(worker, cases, timeout=240, total_timeout=420 if tier == "quick" else 1100)
    rep.coverage["l3_tasks"] = [[c["family"], json.dumps(c["params"]), " ".join(c["options"]), st, (v or {}).get("seconds") if st == "ok" else None] for c, (st, v) in zip(cases, res)]
    model_calls, model_expect = [], []
    for case, (st, val) in zip(cases, res):
        rep.count("l3_run", st)
        if st != "ok":
            if st == "exc":
                rep.fail("broken-tie", f"L3 worker crashed: {str(val)[-600:]}", case=case)
            continue
        bb = G.build(case)
        truth = truth_of(case, bb)
        sig = bb["test"]
        tests = val["brief"]["tests"]
        status = (tests.get(sig) or {}).get("status")
        warns = val["warnings"]
        reaching = [d for d, o in truth if str(o).startswith("panic")]
        rec = val["brief"]["records"].get(sig) or {}
        full = {**case, "halmos": {"status": status, "warnings": warns, "record": rec}, "truth": truth,
                "runtime": [c.runtime.hex() for c in bb["contracts"]]}
        rep.case(case, nontrivial=bool(reaching) or bb["concrete_loop"])
        rep.count("family", case["family"])
        rep.count("options", " ".join(case["options"]))
        rep.count("outcome", f"{case['family']}:{status}:{'+'.join(w for w in warns if w in REPORTED) or 'no-incompleteness-warning'}:{'reachable' if reaching else 'unreachable'}")
        if status is None and case["family"] != "setup":
            rep.fail("broken-tie", f"halmos printed no verdict for {sig} with {case['options']}: {val['out'][-300:]} {val['err'][-300:]}", case=full)
            continue
        reported = any(w in warns for w in REPORTED)
        # (1) an execution that reaches the planted failure exists, halmos says PASS: it must have said why it did not see it
        if status == "PASS" and reaching and not reported:
            fail_or_known(rep, "failing-input",
                          f"{case['family']} {case['params']} with {' '.join(case['options'])}: [PASS] {sig} without LOOP_BOUND / incomplete-execution warning, but `{reaching[0]}` reaches Panic(1) on the reference interpreter",
                          case=full, sig={"kind": "incomplete-not-reported", "family": case["family"], "options": " ".join(case["options"])})
            continue
        # (2) loops with a concrete condition are never cut
        if bb["concrete_loop"] and "loop_bound" in warns:
            rep.fail("failing-input", f"{case['family']} {case['params']} with {' '.join(case['options'])}: a loop whose condition is concrete was reported as cut (LOOP_BOUND)",
                     case=full, sig={"kind": "concrete-loop-cut", "family": case["family"]})
            continue
        if bb["concrete_loop"] and case["family"] == "regular" and status != "FAIL" and not reported:
            rep.fail("failing-input", f"{case['family']} {case['params']} with {' '.join(case['options'])}: concrete-count loop, every input reaches Panic(1), halmos says {status} {warns}",
                     case=full, sig={"kind": "concrete-loop-not-followed", "family": case["family"]})
            continue
        # (3) the json record agrees with the printed warning (num_bounded_loops > 0 <-> LOOP_BOUND for the test transaction)
        if case["family"] in ("regular", "depth", "width") and rec.get("num_bounded_loops") is not None:
            if (rec["num_bounded_loops"] > 0) != ("loop_bound" in warns):
                rep.fail("broken-tie", f"num_bounded_loops = {rec['num_bounded_loops']} but LOOP_BOUND warning {'present' if 'loop_bound' in warns else 'absent'}", case=full)
            if m is not None:
                # runner model: flags of the test transaction -> warnings of the report
                model_calls.append(("c03_run_test", [0, 1 if rec["num_bounded_loops"] > 0 else 0, 1 if "incomplete_depth" in warns else 0, 0, 0]))
                model_expect.append((full, [1 if "loop_bound" in warns else 0, 1 if "incomplete_depth" in warns else 0]))
    if m is not None:
        # which bounded-loop logs reach the report (regenerated constants) vs what halmos printed per family
        outs = m.parallel_batch(model_calls) if model_calls else []
        for (full, want), mo in zip(model_expect, outs):
            if mo is None or mo[1:3] != want:
                rep.fail("broken-tie", f"runner model reports warnings {mo} for the observed flags, halmos printed {want}", case=full)
        inv = [(c, v) for c, (st, v) in zip(cases, res) if st == "ok" and c["family"] in ("invariant", "setup")]
        for c, v in inv:
            K, L = c["params"]["K"], int(c["options"][1])
            cut = True   # the trip count is an unbounded symbolic argument: the loop is always cut at --loop
            if (v["brief"]["tests"].get(G.build(c)["test"]) or {}).get("status") is None:
                continue   # setUp failed (e.g. two feasible success paths): no test was run
            if c["family"] == "invariant":
                call = ("c10_loop_warned", [0, 0, 1 if cut else 0])          # the target transaction hit the bound
            else:
                call = ("c10_loop_warned", [1 if cut else 0, 0])             # setUp hit the bound
            [mo] = m.batch([call])
            got = 1 if "loop_bound" in v["warnings"] else 0
            rep.count("runner_model", f"{c['family']}:cut={cut}:model={mo}:halmos={got}")
            if mo != [got]:
                rep.fail("broken-tie", f"{c['family']} K={K} --loop {L}: runner model says LOOP_BOUND warned = {mo}, halmos printed {got}", case={**c, "warnings": v["warnings"]})
    rep.coverage["traces_validated_against_impl"] = sum(1 for st, _ in res if st == "ok")
    rep.coverage["known_findings_declared"] = [k["id"] for k in KNOWN]
    return rep.finish(
        checker_cmd="make -C coq Props/C10.vo (coq_makefile, coqc 8.16.1) after regenerating coq/Gen/GenJumpi.v from src/halmos/sevm.py and coq/Gen/GenRunTest.v from src/halmos/__main__.py",
        trusted_base=common.TRUSTED_BASE_COMMON + ["the fabricated forge artifacts + stub forge (harness/l3.py) and the extracted reference interpreter coq/Spec/Evm.v as EVM oracle"],
        assumptions=ASSUMPTIONS,
        rule="cases = (family, parameters, halmos options): counted loops in three syntactic forms (while / negated exit test / count-down) with trip count const n, pinned by a require, the argument, arg & 7, arg % 6; planted Panic(1) when the counter equals K below/at/above --loop in {1,2,4}; a 20-iteration concrete loop under --depth; 2^k-path branch ladders under --width; setUpSymbolic with a loop; an invariant target with a loop; "
             "non-trivial = some concrete execution reaches the planted failure on the reference interpreter (or the loop is concrete); distinct by hash of the case",
        partial="the L3 tie observes incompleteness only through the planted failure; theorem C10_invariant_target_flags_refuted documents F7; --depth cuts inside setUp / targets are observed at L3 only",
    )


def replay(rep, body):
    for f in body.get("failures", []):
        case = f.get("case") or {}
        if "family" in case:
            out = worker({k: case[k] for k in ("family", "params", "options")})
            print(out["out"][-2000:], out["err"][-1000:])
            print("truth:", truth_of(case, G.build(case)))
    return 0
