"""C10 — Incomplete exploration is always reported.

Obligations: translators T-jumpi (decision part of SEVM.jumpi), T-runtest (which logs/warnings
run_test, setup and run_target_function report), T-cutwarn (the --depth cut of SEVM.run and the text of its
warning) and T-logfilter (the de-duplicating logger), Props/C10.vo, lint.
Tie X-C10 at L3: generated counted-loop programs (concrete vs symbolic trip count) x --loop {1,2,4},
--depth, --width, in a regular test, in setUp(Symbolic) and inside an invariant target, run through
`python -m halmos` on fabricated forge projects.  Ground truth = the extracted reference interpreter:
whenever some input's concrete execution reaches the planted Panic(1) (i.e. an execution halmos must
have followed to its end) the output must contain [FAIL]/[ERROR]/[TIMEOUT] or a LOOP_BOUND /
'incomplete execution' warning; loops with a concrete condition must never be reported as cut.
Runs with several tests (overloads, a second contract with the same signature) are judged PER TEST: a
report counts for a test when it names it or was printed while it was running (c10_lib.attribute).
Paths stopped by an unsupported feature (symbolic memory offset / size) in the test body, in a callee
(CALL / STATICCALL / DELEGATECALL) and in a constructor must give a non-PASS status.
Invariant testing: T-frontiercls regenerates the filters `_compute_frontier` applies to each result state of a target
transaction IN SOURCE ORDER (Gen/GenFrontierCls.v); tie X-C10-frontier: the real `_compute_frontier` is driven
(harness/c10_frontier.py) on fabricated result states built from the real CallContext / CallOutput classes -- the
exhaustive grid of (own error kind x sub-calls x output data x probe reported x visited x panic codes) and random
sequences -- and compared with the extracted model (which states get an ERROR line / reach the probe handler / join
the frontier / raise) and with the spec rule `a call that did not complete is named by an ERROR line`.  L3 family
inv_stuck: an invariant target whose function hits an unsupported feature in ITS OWN frame (or in a helper it calls)
on one side of a branch, --invariant-depth 1 and 2.
"""
import json
import re
import threading
import time

from harness import c10_frontier as FR
from harness import c10_lib as G
from harness import common, l3
from harness.common import Model

PID = "C10"
TRANSLATORS = ["T-jumpi", "T-runtest", "T-cutwarn", "T-logfilter", "T-frontiercls"]

KNOWN = common.known_for("C10")  # entries live in /verif/known_findings.json

ASSUMPTIONS = [
    "the decision-level theorems are about the function regenerated from SEVM.jumpi; that the interpreter loop applies it at every JUMPI and keeps the visit counters per path is covered by the L3 tie only",
    "the reference interpreter (coq/Spec/Evm.v, extracted) is the EVM oracle",
    "runs with several tests: a report line counts for a test when it names the test's full signature, or names no test of the contract and was printed between the previous result line of the contract and this test's result line (stdout and stderr merged, unbuffered)",
    "the report model abstracts message texts by the tuple of interpolated values (texts of different tests differ iff these differ); that SEVM.run emits the warning once per abandoned state and that one process runs all contracts is observed at L3",
    "the extracted model and driver are faithful to the Coq definitions (extraction is trusted)",
]


def fail_or_known(rep, kind, what, case=None, sig=None):
    if kind == "failing-input":
        for k in KNOWN:
            if common.finding_matches(k, {"sig": sig or {}}):
                hits = rep.coverage.setdefault("known_local", {})
                if k["id"] not in hits:
                    print(f"KNOWN-FINDING: property={rep.pid} {k['id']}: {k['what'][:300]}")
                    hits[k["id"]] = {"what": k["what"], "example": case}
                return
    rep.fail(kind, what, case=case, sig=sig)


def worker(task):
    t0 = time.time()
    b = G.build(task)
    with l3.Project(b["contracts"], base=task.get("_base")) as p:
        if "units" in b:
            r = G.run_merged(p, task["options"], timeout=task.get("timeout", 120))
            layout = {}
            for u in b["units"]:
                layout.setdefault(u["contract"], []).append(u["sig"])
            units = G.attribute(r.out, layout)
            order = [ln.strip() for ln in r.out.splitlines() if "Running " in ln or l3.STATUS_RE.match(ln.strip())]
        else:
            r = p.run(task["options"], timeout=task.get("timeout", 120))
            units, order = None, None
    squeeze = lambda t: "\n".join(x.rstrip() for x in t.splitlines() if x.strip())  # noqa: E731  (rich pads every log line to COLUMNS)
    return {"seconds": round(time.time() - t0, 1), "brief": r.brief(), "warnings": r.warnings, "out": squeeze(r.out)[-3000:],
            "err": squeeze(r.err)[-2500:], "units": units, "order": order}


# ----------------------------------------------------------------------------- ground truth

def truth_of(case, b, unit=None):
    """-> list of (scenario description, outcome of the last transaction) on the reference interpreter
    (unit: one test of a several-tests run: its own contract runtime and scenarios)"""
    from harness import refevm

    t = b["contracts"][0]
    acc0 = l3.ref_accounts(bytes.fromhex(unit["runtime"]) if unit else t.runtime)
    if unit:
        b = {**b, "truth": unit["truth"]}
    out = []
    if b["truth"] == "invariant":
        K = b["K"]
        [s] = refevm.run_many([(acc0, l3.ref_msg(l3.selector("setUp()")), None, 0)], fuel=200000)
        if s.get("status") != "ok":
            return [("setUp", s.get("status"))]
        acc1 = l3.accounts_after(s, acc0)
        target = acc1[l3.FOUNDRY_TEST]["storage"].get(0, 0)
        tsig = b.get("target_sig", "bump(uint256)")
        for n in (0, 1, K, K + 1):
            data = l3.selector(tsig) + n.to_bytes(32, "big")
            [u] = refevm.run_many([(acc1, l3.ref_msg(data, this=target, caller=0xCAFE, origin=0xCAFE), None, s.get("ctr", 0))], fuel=400000)
            if u.get("status") != "ok":
                out.append((f"setUp; {tsig.split('(')[0]}({n})", "target:" + str(u.get("status"))))
                continue
            acc2 = l3.accounts_after(u, acc1)
            [v] = refevm.run_many([(acc2, l3.ref_msg(l3.selector(b["test"])), None, u.get("ctr", 0))], fuel=200000)
            out.append((f"setUp; C.{tsig.split('(')[0]}({n}); {b['test']}", l3.classify_ref(v, {1})))
        return out
    for scn in b["truth"]:
        acc, ctr, res = acc0, 0, None
        desc = []
        for to, data in scn:
            [res] = refevm.run_many([(acc, l3.ref_msg(bytes.fromhex(data), this=to), None, ctr)], fuel=400000)
            desc.append(data[:8] + "(" + data[8:][-6:] + ")")
            if res.get("status") != "ok":
                break
            acc, ctr = l3.accounts_after(res, acc), res.get("ctr", ctr)
        out.append(("; ".join(desc), l3.classify_ref(res, {1}) if len(desc) == len(scn) else "setup:" + str(res.get("status"))))
    return out


REPORTED = ("loop_bound", "incomplete_depth", "incomplete_width")


def eval_units(rep, case, bb, val, depth_calls):
    """a run with several tests: each test is judged on its own (reports attributed by c10_lib.attribute)"""
    units = val["units"] or {}
    order = val.get("order") or []
    # execution order of the tests: [(contract, sig)] from the `Running ... :C` headers and the result lines
    seq, cur = [], None
    for ln in order:
        if "Running " in ln:
            cur = ln.rsplit(":", 1)[-1].strip()
        else:
            ms = l3.STATUS_RE.match(ln)
            if ms and cur:
                seq.append((cur, ms.group(2)))
    ids = {}
    runs = []
    for u in bb["units"]:
        key = f"{u['contract']}:{u['sig']}"
        got = units.get(key) or {}
        status, warns = got.get("status"), got.get("warnings") or []
        truth = truth_of(case, bb, unit=u)
        reaching = [d for d, o in truth if str(o).startswith("panic")]
        earlier = [c for c, s in seq[:seq.index((u["contract"], u["sig"]))] if s == u["sig"] and c != u["contract"]] if (u["contract"], u["sig"]) in seq else []
        variant = "same-signature-ran-earlier-in-another-contract" if earlier else "first-run-of-this-signature"
        full = {**case, "unit": key, "halmos": {"status": status, "paths": got.get("paths"), "warnings": warns, "execution_order": seq}, "truth": truth,
                "output": val["out"][-1500:], "runtime": u["runtime"]}
        rep.case({**case, "unit": key}, nontrivial=bool(reaching))
        rep.count("family", case["family"])
        rep.count("outcome", f"{case['family']}/{variant}:{status}:{'+'.join(w for w in warns if w in REPORTED) or 'no-incompleteness-warning'}:{'reachable' if reaching else 'unreachable'}")
        if status is None:
            rep.fail("broken-tie", f"halmos printed no verdict for {key} with {case['options']}: {val['out'][-400:]}", case=full)
            continue
        reported = any(w in warns for w in REPORTED)
        if status == "PASS" and reaching and not reported:
            fail_or_known(rep, "failing-input",
                          f"{case['family']} {case['params']} with {' '.join(case['options'])}: [PASS] {key} and no LOOP_BOUND / incomplete-execution report names this test or was printed while it ran ({variant}), but `{reaching[0]}` reaches Panic(1) on the reference interpreter",
                          case=full, sig={"kind": "incomplete-not-reported", "family": case["family"], "variant": variant, "options": " ".join(case["options"])})
    # model side: the session of --depth warnings through the de-duplicating logger, in execution order
    if case["family"] == "depth_multi" and seq and all(f"{c}:{s}" in units for c, s in seq):
        args, want = [int(case["options"][case["options"].index("--depth") + 1])], []
        for c, s in seq:
            got = units[f"{c}:{s}"]
            name = s.split("(")[0]
            cuts = max(0, 2 - (got.get("paths") or 0))   # every test of this family has 2 paths: those not completed were abandoned
            args += [ids.setdefault(("c", c), len(ids) + 1), ids.setdefault(("n", name), len(ids) + 1), ids.setdefault(("s", s), len(ids) + 1),
                     l3.sel_int(s), cuts]
            want.append(1 if "incomplete_depth" in got["warnings"] else 0)
        depth_calls.append((("c10_depth_session", args), want, {**case, "execution_order": seq, "units": units}))


def stuck_model_call(p):
    """leaves predicted for the `stuck` family -> c03_run_test arguments: one normal path (x == 77) and one path
    stopped by the internal error: at the top level the root carries the HalmosException; in a callee / constructor
    the root has no error, its sub-call has, and the output data is None"""
    normal = [0, 0, 1, 0, 1, 1]
    stuck = [4, 0, 0, 0, 1, 1] if p["where"] == "top" else [0, 1, 4, 0, 0, 0, 1, 1]
    return ("c03_run_test", [0, 0, 0, 1, 1, 2, *normal, *stuck])


def run(rep, tier):
    b = common.build_property(PID, TRANSLATORS)
    common.standard_obligations(rep, PID, b)
    m = None
    if b["make_ok"]:
        exe, log = common.build_driver("C03")   # the runner model's entry points live in Extract/ExC03.v
        rep.obligation("extraction of Model/RunnerModel.v entry points + OCaml driver build", exe is not None, "" if exe else log[-800:])
        if exe is None:
            rep.fail("broken-tie", "extracted model driver does not build: " + log[-400:], case={})
        else:
            m = Model(exe)
        exe2, log2 = common.build_driver("C10")  # the report model (Model/ReportModel.v): Extract/ExC10.v
        rep.obligation("extraction of Model/ReportModel.v entry points + OCaml driver build", exe2 is not None, "" if exe2 else log2[-800:])
        if exe2 is None:
            rep.fail("broken-tie", "extracted report model driver does not build: " + log2[-400:], case={})
        m2 = Model(exe2) if exe2 is not None else None
    else:
        m2 = None
    from harness import refevm

    refevm.driver()
    r = common.rng(PID)
    cases = G.gen_cases(r, tier)
    r.shuffle(cases)
    # invariant and setUp cases first (they carry the runner-level statements), then the rest within the budget
    cases.sort(key=lambda c: c["family"] not in ("inv_stuck", "invariant", "invariant_states", "setup", "depth_multi", "stuck", "stuck_setup"))
    # the L1 tie of the frontier filters runs (in its own process) while the L3 pool is busy
    fr_jobs = FR.gen_jobs(r, tier)
    fr_box = {}

    def fr_run():
        t0 = time.time()
        try:
            fr_box["res"] = FR.run_jobs(fr_jobs, timeout=400 if tier == "quick" else 1500)
        except Exception as e:  # noqa: BLE001
            fr_box["exc"] = f"{type(e).__name__}: {e}"
        rep.coverage["frontier_driver_seconds"] = round(time.time() - t0, 1)

    fr_thread = threading.Thread(target=fr_run, daemon=True)
    fr_thread.start()
    res = l3.run_pool(worker, cases, timeout=240, total_timeout=420 if tier == "quick" else 1100)
    rep.coverage["l3_tasks"] = [[c["family"], json.dumps(c["params"]), " ".join(c["options"]), st, (v or {}).get("seconds") if st == "ok" else None] for c, (st, v) in zip(cases, res)]
    model_calls, model_expect = [], []
    depth_calls, stuck_calls, setup_calls = [], [], []
    inv_stuck_runs = []
    for case, (st, val) in zip(cases, res):
        rep.count("l3_run", st)
        if st != "ok":
            if st == "exc":
                rep.fail("broken-tie", f"L3 worker crashed: {str(val)[-600:]}", case=case)
            continue
        bb = G.build(case)
        if "units" in bb:
            eval_units(rep, case, bb, val, depth_calls)
            continue
        truth = truth_of(case, bb)
        sig = bb["test"]
        tests = val["brief"]["tests"]
        status = (tests.get(sig) or {}).get("status")
        warns = val["warnings"]
        reaching = [d for d, o in truth if str(o).startswith("panic") or (case["family"] == "stuck" and str(o) == "unsupported")]
        rec = val["brief"]["records"].get(sig) or {}
        full = {**case, "halmos": {"status": status, "warnings": warns, "record": rec}, "truth": truth,
                "runtime": [c.runtime.hex() for c in bb["contracts"]]}
        rep.case(case, nontrivial=bool(reaching) or bb["concrete_loop"])
        rep.count("family", case["family"])
        rep.count("options", " ".join(case["options"]))
        rep.count("outcome", f"{case['family']}:{status}:{'+'.join(w for w in warns if w in REPORTED) or 'no-incompleteness-warning'}:{'reachable' if reaching else 'unreachable'}")
        if case["family"] == "stuck_setup":
            text = val["out"] + val["err"]
            seen = 0 if status is not None else 2 if "Multiple paths were found" in text else 1 if "No successful path found" in text else -1
            # setup_select on the single explored path: no error + stuck (sub-call) / error + stuck (top level)
            setup_calls.append((("c03_setup", [1, 2 if case["params"]["where"] == "call" else 3, 1]), seen, full))
            if status == "PASS" and reaching and "internal_error" not in warns:
                fail_or_known(rep, "failing-input",
                              f"stuck_setup {case['params']}: [PASS] {sig} without any internal-error report although the only path of setUpSymbolic was stopped by an unsupported feature ({case['params']['kind']} in {case['params']['where']}) and `{reaching[0]}` ends in Panic(1) on the reference interpreter",
                              case=full, sig={"kind": "stuck-path-pass", "family": "stuck_setup", "where": case["params"]["where"]})
            elif status is None and seen == -1:
                rep.fail("broken-tie", f"stuck_setup {case['params']}: no verdict and no setUp failure message: {text[-400:]}", case=full)
            continue
        if case["family"] == "inv_stuck":
            text = val["out"] + "\n" + val["err"]
            depths = sorted({int(x) for x in re.findall(r"ERROR\s+depth=(\d+):", text)})
            reaching = [d for d, o in truth if str(o).startswith("panic") or str(o) == "target:unsupported"]
            full["error_lines_at_depths"] = depths
            if status is None:
                rep.fail("broken-tie", f"halmos printed no verdict for {sig} with {case['options']}: {val['out'][-300:]} {val['err'][-300:]}", case=full)
                continue
            named = "error_log" in warns or "internal_error" in warns or any(w in warns for w in REPORTED)
            if status == "PASS" and reaching and not named:
                fail_or_known(rep, "failing-input",
                              f"inv_stuck {case['params']} with {' '.join(case['options'])}: [PASS] {sig} and NOTHING is reported (no ERROR / warning line), although the target transaction poke(x) was stopped on its x != 77 path by an unsupported feature ({case['params']['kind']}, hit in {'the frame of the target function itself' if case['params']['where'] == 'top' else 'a helper it calls'}) and `{reaching[0]}` {'breaks the invariant (Panic(1))' if 'panic' in str(dict(truth)[reaching[0]]) else 'reaches the instruction'} on the reference interpreter",
                              case=full, sig={"kind": "stuck-target-pass", "family": "inv_stuck", "where": case["params"]["where"]})
                continue
            inv_stuck_runs.append((case, depths, full))
            continue
        if status is None and case["family"] != "setup":
            rep.fail("broken-tie", f"halmos printed no verdict for {sig} with {case['options']}: {val['out'][-300:]} {val['err'][-300:]}", case=full)
            continue
        if case["family"] == "stuck":
            # a path that halmos could not continue: the verdict must not be PASS (whatever is printed besides)
            if status == "PASS" and reaching:
                fail_or_known(rep, "failing-input",
                              f"stuck {case['params']}: [PASS] {sig} although the path `{reaching[0]}` ({'reaches the instruction' if case['params']['kind'].startswith('op_') else 'Panic(1)'} on the reference interpreter) was stopped by an unsupported feature ({case['params']['kind']} in {case['params']['where']}); warnings printed: {warns}",
                              case=full, sig={"kind": "stuck-path-pass", "family": "stuck", "where": case["params"]["where"]})
                continue
            if rec.get("exitcode") is not None:
                stuck_calls.append((stuck_model_call(case["params"]), rec["exitcode"], full))
            continue
        reported = any(w in warns for w in REPORTED)
        # (1) an execution that reaches the planted failure exists, halmos says PASS: it must have said why it did not see it
        if status == "PASS" and reaching and not reported:
            fail_or_known(rep, "failing-input",
                          f"{case['family']} {case['params']} with {' '.join(case['options'])}: [PASS] {sig} without LOOP_BOUND / incomplete-execution warning, but `{reaching[0]}` reaches Panic(1) on the reference interpreter",
                          case=full, sig={"kind": "incomplete-not-reported", "family": case["family"], "options": " ".join(case["options"])})
            continue
        # (2) loops with a concrete condition are never cut
        if bb["concrete_loop"] and "loop_bound" in warns:
            rep.fail("failing-input", f"{case['family']} {case['params']} with {' '.join(case['options'])}: a loop whose condition is concrete was reported as cut (LOOP_BOUND)",
                     case=full, sig={"kind": "concrete-loop-cut", "family": case["family"]})
            continue
        if bb["concrete_loop"] and case["family"] == "regular" and status != "FAIL" and not reported:
            rep.fail("failing-input", f"{case['family']} {case['params']} with {' '.join(case['options'])}: concrete-count loop, every input reaches Panic(1), halmos says {status} {warns}",
                     case=full, sig={"kind": "concrete-loop-not-followed", "family": case["family"]})
            continue
        # (3) the json record agrees with the printed warning (num_bounded_loops > 0 <-> LOOP_BOUND for the test transaction)
        if case["family"] in ("regular", "depth", "width") and rec.get("num_bounded_loops") is not None:
            if (rec["num_bounded_loops"] > 0) != ("loop_bound" in warns):
                rep.fail("broken-tie", f"num_bounded_loops = {rec['num_bounded_loops']} but LOOP_BOUND warning {'present' if 'loop_bound' in warns else 'absent'}", case=full)
            if m is not None:
                # runner model: flags of the test transaction -> warnings of the report
                model_calls.append(("c03_run_test", [0, 1 if rec["num_bounded_loops"] > 0 else 0, 1 if "incomplete_depth" in warns else 0, 0, 0]))
                model_expect.append((full, [1 if "loop_bound" in warns else 0, 1 if "incomplete_depth" in warns else 0]))
    if m is not None:
        # which bounded-loop logs reach the report (regenerated constants) vs what halmos printed per family
        outs = m.parallel_batch(model_calls) if model_calls else []
        for (full, want), mo in zip(model_expect, outs):
            if mo is None or mo[1:3] != want:
                rep.fail("broken-tie", f"runner model reports warnings {mo} for the observed flags, halmos printed {want}", case=full)
        for c, (st, v) in zip(cases, res):
            if st != "ok" or c["family"] != "invariant_states" or m2 is None:
                continue
            # frontier states in execution order: post-setUp (nothing cut), then one state per state-changing target in
            # artifact order (depth 1); deeper levels repeat the pattern.  The invariant's loop is cut exactly on the
            # states reached through setN (symbolic trip count)
            depth = int(c["options"][c["options"].index("--invariant-depth") + 1])
            level, states = [0], [0]
            for _ in range(depth):
                level = [1 if sg.startswith("setN") else 0 for _prev in level for sg in c["params"]["order"]]
                states += level
            [mo] = m2.batch([("c10_inv_warned", [0, 0, *states])])
            got = 1 if "loop_bound" in v["warnings"] else 0
            rep.count("report_model", f"invariant_states:{c['params']['order'][0]}-first:depth={depth}:model={mo}:halmos={got}")
            if mo != [got]:
                rep.fail("broken-tie", f"invariant_states {c['params']} {c['options']}: report model (log accumulated over the frontier states {states}) says LOOP_BOUND warned = {mo}, halmos printed {got}", case={**c, "warnings": v["warnings"]})
        inv = [(c, v) for c, (st, v) in zip(cases, res) if st == "ok" and c["family"] in ("invariant", "setup")]
        for c, v in inv:
            K, L = c["params"]["K"], int(c["options"][1])
            cut = True   # the trip count is an unbounded symbolic argument: the loop is always cut at --loop
            ran = (v["brief"]["tests"].get(G.build(c)["test"]) or {}).get("status") is not None
            if c["family"] == "setup":
                # setup(): which path is handed to the tests.  Success paths of setUpSymbolic: `n > 100` returns; the loop
                # reaches i == K (and stores) only when --loop allows K iterations; the other paths revert.
                n_ok = 1 + (1 if L >= K else 0)
                errs = [0] * n_ok + [1, 1]
                [ms] = m.batch([("c03_setup", [len(errs), *errs, *([1] * len(errs))])])
                text = v["out"] + v["err"]
                seen = 0 if ran else 2 if "Multiple paths were found" in text else 1 if "No successful path found" in text else -1
                rep.count("runner_model", f"setup:success_paths={n_ok}:model={ms[0] if ms else None}:halmos={seen}")
                if ms is None or ms[0] != seen:
                    rep.fail("broken-tie", f"setup K={K} --loop {L}: setup_select model says {ms} (0 one path / 1 none / 2 multiple) for {n_ok} feasible success paths, halmos: {seen}", case={**c, "output": text[-800:]})
            if not ran:
                continue   # setUp failed (e.g. two feasible success paths): no test was run
            if c["family"] == "invariant":
                call = ("c10_loop_warned", [0, 0, 1 if cut else 0])          # the target transaction hit the bound
            else:
                call = ("c10_loop_warned", [1 if cut else 0, 0])             # setUp hit the bound
            [mo] = m.batch([call])
            got = 1 if "loop_bound" in v["warnings"] else 0
            rep.count("runner_model", f"{c['family']}:cut={cut}:model={mo}:halmos={got}")
            if mo != [got]:
                rep.fail("broken-tie", f"{c['family']} K={K} --loop {L}: runner model says LOOP_BOUND warned = {mo}, halmos printed {got}", case={**c, "warnings": v["warnings"]})
        # the run_test model on the leaves predicted for a path stopped by an internal error
        if stuck_calls:
            outs = m.batch([c for c, _, _ in stuck_calls])
            for (c, real, full), mo in zip(stuck_calls, outs):
                rep.count("runner_model", f"stuck:{full['params']['where']}:model_exit={mo[0] if mo else None}:halmos_exit={real}")
                if mo is None or mo[0] != real:
                    rep.fail("broken-tie", f"stuck {full['params']}: run_test model predicts exit code {mo[0] if mo else None} for [normal path; path stopped by an internal error], halmos returned {real}", case=full)
        if setup_calls:
            outs = m.batch([c for c, _, _ in setup_calls])
            for (c, seen, full), mo in zip(setup_calls, outs):
                rep.count("runner_model", f"stuck_setup:{full['params']['where']}:model={mo[0] if mo else None}:halmos={seen}")
                if mo is None or mo[0] != seen:
                    rep.fail("broken-tie", f"stuck_setup {full['params']}: setup_select model says {mo} (0 a path is selected / 1 none / 2 multiple), halmos: {seen}", case=full)
    # ---- invariant frontier: L3 runs against the extracted model of the filters
    if m2 is not None and inv_stuck_runs:
        # result states of the transactions explored from ONE frontier state, as the model sees them: poke(x == 77) completes
        # (new state), poke(x != 77) is cut -- in its own frame (error set, no output) or in the helper (no error of its own, no
        # output) --, flag() returns 32 bytes and changes nothing (state already visited)
        for case, depths, full in inv_stuck_runs:
            cut_leaf = [4, 0, 0, 0] if case["params"]["where"] == "top" else [0, 1, 4, 0, 0, 0]
            states = [[0, 0, 1, 0, 0, 0], cut_leaf + [0, 0], [0, 0, 1, 32, *([0] * 32), 0, 1]]
            [mo] = m2.batch([("c10_frontier_run", [1, 1, len(states), *[x for st in states for x in st]])])
            d = int(case["options"][case["options"].index("--invariant-depth") + 1])
            want = list(range(1, d + 1)) if mo and FR.dec_model(mo)["errors"] == [1] else []
            rep.count("frontier_model", f"inv_stuck:{case['params']['where']}:{case['params']['kind']}:depth={d}:model_depths={want}:halmos_depths={depths}")
            if mo is None or want != depths:
                rep.fail("broken-tie", f"inv_stuck {case['params']} {case['options']}: the frontier model (filters regenerated from _compute_frontier) says the cut target transaction is named by an ERROR line at depths {want}, halmos printed ERROR lines for depths {depths}", case=full)
    # ---- invariant frontier: the real _compute_frontier on fabricated result states (L1)
    fr_thread.join(timeout=500 if tier == "quick" else 1600)
    fr_res = fr_box.get("res")
    if fr_res is None:
        rep.fail("broken-tie", f"the in-process driver of _compute_frontier gave no result: {fr_box.get('exc', 'timeout')}", case={})
    else:
        mouts = m2.parallel_batch([FR.model_call(j) for j in fr_jobs]) if m2 is not None else [None] * len(fr_jobs)
        bad = []
        for job, real, mo in zip(fr_jobs, fr_res, mouts):
            cuts = [i for i, st in enumerate(job["states"]) if FR.spec_cut(st)]
            rep.case({"frontier_job": job}, nontrivial=bool(cuts))
            own = sum(1 for i in cuts if job["states"][i]["tree"][0] == 4)
            rep.count("frontier_tie", f"{'single' if len(job['states']) == 1 else 'sequence'}:cut_states={'0' if not cuts else '1+'}:own_frame_error={'0' if not own else '1+'}")
            if "harness_error" in real:
                rep.fail("broken-tie", f"the driver of _compute_frontier failed: {real['harness_error']}", case={"frontier_job": job})
                continue
            # SPEC vs implementation: a call that did not complete is named by an ERROR line (or an exception ended the
            # computation at / before it: the test then has no PASS)
            silent = [i for i in cuts if i not in real["errors"] and not (0 <= real["raised"] <= i)]
            joined = [i for i in cuts if i in real["next"] or i in real["frontier_cache"]]
            if silent or joined:
                bad.append((job, real, (silent or joined)[0], bool(silent)))
            if real["next"] != real["frontier_cache"] or real["next"] != real["marks"]:
                rep.fail("broken-tie", f"_compute_frontier: yielded states {real['next']}, cached frontier {real['frontier_cache']}, newly visited {real['marks']} differ", case={"frontier_job": job, "real": real})
            if m2 is None:
                continue
            want = FR.dec_model(mo) if mo else None
            got = {k: real[k] for k in ("raised", "errors", "probes", "next")}
            if want != got:
                rep.fail("broken-tie", f"frontier model (Gen/GenFrontierCls.v + Model/InvCutModel.v) says {want} for the result states, the real _compute_frontier did {got}", case={"frontier_job": job, "real": real})
        # the states halmos really produces first (a HalmosException ends the call without output; a call stuck in a
        # sub-call has no error of its own and no output), the smallest jobs first; at most three are listed
        realistic = lambda st: st["data"] is None and (st["tree"][0] == 4 or any(x[0] == 4 or any(y[0] == 4 for y in x[1]) for x in st["tree"][1]))  # noqa: E731
        bad.sort(key=lambda b: (not realistic(b[0]["states"][b[2]]), b[0]["states"][b[2]]["tree"][0] != 4, len(b[0]["states"])))
        rep.coverage["frontier_jobs"] = len(fr_jobs)
        rep.coverage["frontier_jobs_violating"] = len(bad)
        for job, real, i, silent in bad[:3]:
            st = job["states"][i]
            fail_or_known(rep, "failing-input",
                          f"_compute_frontier, result state #{i} of {len(job['states'])} (panic codes {job['codes']}): the target call "
                          f"{'ended with a HalmosException of its own frame (output.error set' if st['tree'][0] == 4 else 'has no output (internal error in a nested call'}"
                          f", data {'None' if st['data'] is None else 'present'}; own error kind {st['tree'][0]}; sub-calls {st['tree'][1]}; probe reported {st['probe_reported']}; visited {st['visited']}) but "
                          f"{'no ERROR line names it' if silent else 'it joined the next frontier'}: errors logged for states {real['errors']}, probes {real['probes']}, next frontier {real['next']}, raised at {real['raised']}"
                          f" ({len(bad)} of {len(fr_jobs)} jobs violate the rule)",
                          case={"frontier_job": job, "real": real, "state": i}, sig={"kind": "frontier-cut-not-reported", "own_frame": st["tree"][0] == 4})
    if m2 is not None and depth_calls:
        outs = m2.batch([c for c, _, _ in depth_calls])
        for (c, want, full), mo in zip(depth_calls, outs):
            rep.count("report_model", f"depth session: model={mo} halmos={want}")
            if mo != want:
                rep.fail("broken-tie", f"--depth warnings per test in execution order {full['execution_order']}: report model (de-duplicating logger, regenerated message key) says {mo}, halmos printed {want}", case=full)
    rep.coverage["traces_validated_against_impl"] = sum(1 for st, _ in res if st == "ok")
    rep.coverage["known_findings_declared"] = [k["id"] for k in KNOWN]
    return rep.finish(
        checker_cmd="make -C coq Props/C10.vo (coq_makefile, coqc 8.16.1) after regenerating coq/Gen/GenJumpi.v and GenCutWarn.v from src/halmos/sevm.py, GenRunTest.v and GenFrontierCls.v from src/halmos/__main__.py and GenLogFilter.v from src/halmos/logs.py",
        trusted_base=common.TRUSTED_BASE_COMMON + ["the fabricated forge artifacts + stub forge (harness/l3.py) and the extracted reference interpreter coq/Spec/Evm.v as EVM oracle"],
        assumptions=ASSUMPTIONS,
        rule="cases = (family, parameters, halmos options): counted loops in three syntactic forms (while / negated exit test / count-down) with trip count const n, pinned by a require, the argument, arg & 7, arg % 6; planted Panic(1) when the counter equals K below/at/above --loop in {1,2,4}; a 20-iteration concrete loop under --depth; 2^k-path branch ladders under --width; setUpSymbolic with a loop; an invariant target with a loop; several tests with the same two-path body under --depth in one run (overloads of one name, another name, the same signature in a second contract), judged per test; a path stopped by an unsupported feature (symbolic memory offset / keccak size) in the test body, in a CALL / STATICCALL / DELEGATECALL callee, in a constructor, and in setUp (body / callee); valid instructions halmos has no handler for (SELFDESTRUCT, BLOBHASH, BLOBBASEFEE; the reference interpreter confirms that the execution reaches them); an invariant whose own loop is cut on some frontier states only, in both orders of the frontier; an invariant target whose function is stopped by an unsupported feature (SELFDESTRUCT, symbolic memory offset, symbolic-size REVERT) in its own frame / in a helper it creates and calls, on one side of a branch, --invariant-depth 1 and 2; frontier jobs = the real _compute_frontier on fabricated result states: exhaustive grid own error kind {none, Revert, InvalidOpcode, FailCheatcode, HalmosException} x sub-calls {none, failed flag, internal error, ok, nested internal error} x output data {None, empty, Panic(1), Panic(0x11), Error(...)} x probe reported x visited x panic codes {[1], any, [1, 0x11]} (quick tier: the last two only for calls ended by a Revert or by an internal error of their own) as single states, then random sequences of 3-14 states (non-trivial = a state whose call did not complete); "
             "non-trivial = some concrete execution reaches the planted failure on the reference interpreter (or the loop is concrete); distinct by hash of the case",
        partial="the L3 tie observes incompleteness only through the planted failure; --depth cuts inside setUp / targets are observed at L3 only; the early exit (ShutdownError while a stuck path is being confirmed) is excluded by hypothesis in the runner theorems; the frontier theorems take `probe already reported` / `state already visited` as arbitrary inputs per result state and count an ERROR line of the frontier computation as the report (a later invariant test of the same contract reuses the cached frontier and does not repeat the line); setup(): a path with an error of its own is reported only when the failing opcode is neither REVERT nor INVALID (not modelled)",
    )


def replay(rep, body):
    for f in body.get("failures", []):
        case = f.get("case") or {}
        if "frontier_job" in case:
            [real] = FR.run_jobs([case["frontier_job"]])
            print("result states:", json.dumps(case["frontier_job"]))
            print("the real _compute_frontier:", json.dumps(real))
        if "family" in case:
            out = worker({k: case[k] for k in ("family", "params", "options")})
            print(out["out"][-2000:], out["err"][-1000:])
            print("truth:", truth_of(case, G.build(case)))
    return 0
