"""C07 — byte sequences behave as a flat zero-extended byte array.

Obligations: Props/C07.vo (theorems about Model/ByteVecModel.v + Model/ByteVecHeapModel.v + Model/MemOpsModel.v
against Spec/ByteVecSpec.v + Spec/MemSpec.v, re-checked against Gen/GenByteVecSugar.v, GenMemWire.v, GenCodeSlice.v
regenerated from bytevec.py / sevm.py / contract.py), lint.
Tie X-C07: operation sequences over a small store of real halmos.bytevec.ByteVec objects vs the extracted heap-level
model (after EVERY step, for EVERY live object: raised?, len, recursive chunk layout, flat content) vs an independent
Python flat-array reference (value semantics).
Tie X-C07-mem (harness/c07_mem.py): the real SEVM on hand-assembled programs of memory instructions, message calls and
a path fork vs the extracted MemOpsModel vs an independent Python rendering of the EVM memory semantics.
"""
import functools
import hashlib
import itertools
import os
from multiprocessing import Pool

from harness import c07_mem, c07_views, common
from harness.common import Model

PID = "C07"
# T-bvsugar: bounds of the __setitem__/__getitem__ slice sugar (bytevec.py); T-memwire: offset/size wiring of the memory
# instructions, State.mslice/set_mslice, calldata_slice, copy_returndata_to_memory (sevm.py); T-codeslice: Contract.slice
TRANSLATORS = ["T-bvsugar", "T-chunkview", "T-memwire", "T-codeslice"]
# Genuine defects found on the unchanged tree.  Until the coordinator moves an entry to
# known_findings.json (or repairs halmos), a failing input whose sig matches is printed as
# KNOWN-FINDING and recorded in the evidence instead of failing the run; any other
# violation of the property still fails.
KNOWN = common.known_for("C07")  # entries live in /verif/known_findings.json

PARTIAL = (
    "CPython aliasing outside the modelled object store (two Exec objects holding the same ByteVec by reference) "
    "is not expressible in the model; ByteVec.concretize, __eq__ (compared with the flat reference for concrete content and for copies only) and the int/bool conversions of set_word / unbox_int of "
    "get_word are exercised by the runs (value forms) but not modelled beyond the bytes they denote; z3's "
    "simplify/Concat/Extract are trusted to preserve denotation, and the kind (bytes vs BitVecRef) z3 gives a symbolic "
    "chunk whose bytes are all constant is not modelled (compared modulo that); the memory-instruction layer does not "
    "model the MAX_MEMORY_SIZE guards (OutOfGasError), symbolic offsets / sizes (NotConcreteError) and the "
    "symbolic-offset branch of CODECOPY; the SEVM runs observe the END state of every reported path plus the MLOAD / MSIZE results the program left on the stack between its writes, not every step"
)
ASSUMPTIONS = [
    "values handed to a mutator are never the receiver object itself (v.set_slice(a, b, v) iterates a dict it mutates)",
    "isolation theorem proviso: an object that some dict references as a nested chunk (stored whole by the aligned fast path of set_slice) is not mutated afterwards; shown necessary by C07_alias_refuted and reproduced on the real code by the alias probe; in sevm.py only copy_returndata_to_memory passes a ByteVec that something else still references (the callee's returndata, never mutated afterwards)",
    "the extracted model and driver are faithful to the Coq definitions (extraction is trusted)",
    "the three translators render the Python expressions they accept faithfully (translate/pyexpr.py; py_or / py_if_not_none in the generated header are Python's `x or d` / `x if x is not None else d` on int-or-None)",
]
ALIAS_NOTE = "aligned set_slice(a, b, w) with w a ByteVec stores w itself; a later w.set_byte shows through the holder and every copy() of it"

# observation steps (every public read of a ByteVec); they may stand anywhere in a history, also repeated between writes
QUERIES = ("get", "unwrap", "word", "len", "slice", "item", "eq", "eqcopy")

SYM_BASE = 1000  # code of byte j of symbol k = SYM_BASE * (k + 1) + j
NVAL = 2


def code(k, j):
    return SYM_BASE * (k + 1) + j


@functools.lru_cache(maxsize=None)
def _valblock(k, vi, blk):
    return hashlib.sha256(f"val:{k}:{vi}:{blk}".encode()).digest()


def valbyte(k, j, vi):
    return _valblock(k, vi, j // 32)[j % 32]


def valuate(c, vi):
    """value of a byte code under valuation vi"""
    if c < SYM_BASE:
        return c
    return valbyte(c // SYM_BASE - 1, c % SYM_BASE, vi)


def sym_value(k, n, vi):
    return bytes(valbyte(k, j, vi) for j in range(n))


# ----------------------------------------------------------------- independent spec (python): flat lists, value semantics

def fa_slice(l, a, b):
    return [(l[i] if i < len(l) else 0) for i in range(a, b)] if b > a else []


def fa_set_slice(l, a, b, data):
    """returns (new list, raised)"""
    if a == b:
        return l, False
    if b < a or len(data) != b - a:
        return l, True
    base = l + [0] * (a - len(l))
    return base[:a] + list(data) + l[b:], False


def spec_val(objs, val):
    if val[0] == "leaf":
        _, sym, data, start, ln, _form = val
        return list(data[start:start + ln])
    if val[0] == "slice":
        return fa_slice(objs[val[1]], val[2], val[3])
    return list(objs[val[1]])  # whole: value semantics


def spec_run(case):
    objs, out = [], []
    for st in case["steps"]:
        k = st[0]
        if k == "new":
            objs.append([])
            out.append(("step", False, [list(o) for o in objs]))
        elif k == "copy":
            objs.append(list(objs[st[1]]))
            out.append(("step", False, [list(o) for o in objs]))
        elif k == "sliceof":
            objs.append(fa_slice(objs[st[1]], st[2], st[3]))
            out.append(("step", False, [list(o) for o in objs]))
        elif k == "append":
            objs[st[1]] = objs[st[1]] + spec_val(objs, st[2])
            out.append(("step", False, [list(o) for o in objs]))
        elif k == "setbyte":
            r, off, c = st[1], st[2], st[3]
            l = objs[r] + [0] * (off + 1 - len(objs[r]))
            l[off] = c
            objs[r] = l
            out.append(("step", False, [list(o) for o in objs]))
        elif k in ("setslice", "setword"):
            r = st[1]
            a, b, val = (st[2], st[3], st[4]) if k == "setslice" else (st[2], st[2] + 32, st[3])
            if k == "setslice" and len(st) > 6:
                # slice assignment with omitted bounds: an omitted start is 0, an omitted stop the current length
                a = 0 if "start" in st[6] else a
                b = len(objs[r]) if "stop" in st[6] else b
            objs[r], raised = fa_set_slice(objs[r], a, b, spec_val(objs, val))
            out.append(("step", raised, [list(o) for o in objs]))
        elif k == "get":
            l = objs[st[1]]
            out.append(("q", [l[st[2]] if st[2] < len(l) else 0]))
        elif k == "unwrap":
            out.append(("q", list(objs[st[1]])))
        elif k == "word":
            out.append(("q", fa_slice(objs[st[1]], st[2], st[2] + 32)))
        elif k == "len":
            out.append(("q", [len(objs[st[1]])]))
        elif k == "slice":
            out.append(("q", fa_slice(objs[st[1]], st[2], st[3])))
        elif k == "item":
            l = objs[st[1]]
            out.append(("q", fa_slice(l, 0 if st[2] is None else st[2], len(l) if st[3] is None else st[3])))
        elif k in ("eq", "eqcopy"):
            a, b = (objs[st[1]], objs[st[2]]) if k == "eq" else (objs[st[1]], objs[st[1]])
            if k == "eqcopy":
                want = True        # same chunks: the same bytes, symbolic ones included
            elif all(c < SYM_BASE for c in a + b):
                want = a == b
            elif len(a) != len(b):
                want = False
            else:
                want = None        # symbolic content in differently cut chunks: whether __eq__ can tell is not specified
            out.append(("eq", want))
        else:
            raise ValueError(k)
    return out


# ----------------------------------------------------------------- implementation side

class CaseTimeout(Exception):
    pass


def _on_alarm(signum, frame):
    raise CaseTimeout()


CASE_TIMEOUT_S = 20.0  # CPU seconds of this process (ITIMER_VIRTUAL): independent of machine load; a case needs ~3 ms


def impl_run(case):
    """impl_run_inner under a watchdog: a ByteVec operation that does not return promptly (an
    implementation that loops, e.g. iterating a dict it is appending to) is an observation"""
    import signal

    old = signal.signal(signal.SIGVTALRM, _on_alarm)
    signal.setitimer(signal.ITIMER_VIRTUAL, CASE_TIMEOUT_S, 1.0)  # periodic: a firing swallowed inside a __del__ is repeated
    try:
        return impl_run_inner(case)
    except CaseTimeout:
        return [("exc", f"timeout: the steps did not finish within {CASE_TIMEOUT_S} CPU seconds")]
    finally:
        signal.setitimer(signal.ITIMER_VIRTUAL, 0)
        signal.signal(signal.SIGVTALRM, old)


def impl_run_inner(case):
    """Runs the steps on real ByteVec objects.  Output per step:
    ("step", raised: False | exception class name, [(len, layout, flat)] per live object)
    ("q", kind, content)   kind 0 = bytes/int, 1 = z3 term; content = codes or per-valuation values
    flat / content items: int code, or ("v", [value under valuation 0, 1, ..]) for bytes that
    are not syntactically a byte of a known symbol."""
    import z3

    from halmos.bitvec import HalmosBitVec as BV
    from halmos.bytevec import ByteVec, ConcreteChunk, SymbolicChunk

    syms = {}  # k -> (BitVecRef, nbytes)

    def sym(k, n):
        if k not in syms:
            syms[k] = (z3.BitVec(f"s{k}", 8 * n), n)
        return syms[k][0]

    def evalbv(e, vi):
        subs = [(s, z3.BitVecVal(int.from_bytes(sym_value(k, n, vi), "big"), 8 * n)) for k, (s, n) in syms.items()]
        r = z3.simplify(z3.substitute(e, *subs)) if subs else z3.simplify(e)
        if not z3.is_bv_value(r):
            raise RuntimeError(f"not closed: {r}")
        return list(int.to_bytes(r.as_long(), r.size() // 8, "big"))

    def bv_items(e):
        """z3 byte-vector term -> list of items (one per byte)"""
        if e.size() % 8:
            raise RuntimeError("bit size")
        vals = [evalbv(e, vi) for vi in range(NVAL)]
        return [("v", [vals[vi][i] for vi in range(NVAL)]) for i in range(e.size() // 8)]

    def known_symbol(d):
        if z3.is_const(d) and d.decl().kind() == z3.Z3_OP_UNINTERPRETED:
            name = d.decl().name()
            if name.startswith("s") and name[1:].isdigit() and int(name[1:]) in syms:
                return int(name[1:])
        return None

    def chunk_items(ch):
        if isinstance(ch, ConcreteChunk):
            return list(ch.data[ch.start:ch.start + ch.length])
        k = known_symbol(ch.data)
        if k is not None:
            return [code(k, ch.start + j) for j in range(ch.length)]
        return bv_items(ch.unwrap())

    def layout(bv):
        out, flat = [], []
        for key, ch in bv.chunks.items():
            if isinstance(ch, ByteVec):
                sub, subflat = layout(ch)
                out += [key, len(ch), 2, len(ch.chunks), 0] + sub
                flat += subflat
            elif isinstance(ch, ConcreteChunk):
                out += [key, ch.length, 0, ch.start, ch.data_byte_length]
                flat += chunk_items(ch)
            elif isinstance(ch, SymbolicChunk):
                out += [key, ch.length, 1, ch.start, ch.data_byte_length]
                flat += chunk_items(ch)
            else:
                out += [key, -1, 9, 0, 0]
        return out, flat

    def mkval(objs, val, ctx):
        if val[0] == "slice":
            return objs[val[1]].slice(val[2], val[3])
        if val[0] == "whole":
            return objs[val[1]]
        _, s, data, start, ln, form = val
        n = len(data)
        if s:
            k = data[0] // SYM_BASE - 1
            e = sym(k, n)
            if form == "chunk":
                return SymbolicChunk(e, start, ln)
            if form == "hbv":
                return BV(e, size=8 * n)
            return e
        bs = bytes(data)
        if form == "chunk":
            return ConcreteChunk(bs, start, ln)
        if form == "bvval":
            return z3.BitVecVal(int.from_bytes(bs, "big"), 8 * n)
        if form == "int":
            return int.from_bytes(bs, "big")
        if form == "hbv":
            return BV(int.from_bytes(bs, "big"), size=8 * n)
        return bs

    def result_items(x):
        """a read result (int, bytes, z3 term, HalmosBitVec) -> (kind, items)"""
        if isinstance(x, BV):
            x = x.unwrap()
        if isinstance(x, bytes):
            return 0, list(x)
        if isinstance(x, bool):
            raise RuntimeError("bool")
        if isinstance(x, int):
            return 0, x
        if z3.is_bv(x):
            if z3.is_bv_value(x):
                return 2, list(int.to_bytes(x.as_long(), x.size() // 8, "big"))
            return 1, bv_items(x)
        raise RuntimeError(f"unexpected result type {type(x).__name__}")

    objs, out = [], []
    for st in case["steps"]:
        k = st[0]
        try:
            if k in QUERIES:
                o = objs[st[1]]
                if k == "len":
                    out.append(("q", 0, [len(o)]))
                elif k == "slice":
                    kind, items = result_items(o.slice(st[2], st[3]).unwrap())
                    out.append(("q", kind, items))
                elif k == "item":
                    kind, items = result_items(o[slice(st[2], st[3])].unwrap())
                    out.append(("q", kind, items))
                elif k == "eq":
                    out.append(("eq", bool(o == objs[st[2]])))
                elif k == "eqcopy":
                    out.append(("eq", bool(o == o.copy())))
                elif k == "get":
                    kind, items = result_items(o[st[2]] if len(st) > 3 and st[3] == "item" else o.get_byte(st[2]))
                    if isinstance(items, int):
                        items = [items]
                    if kind == 1 and len(items) == 1:
                        # try the exact identity of the byte
                        out.append(("q", kind, items))
                    else:
                        out.append(("q", kind, items))
                elif k == "unwrap":
                    kind, items = result_items(o.unwrap())
                    out.append(("q", kind, items))
                else:
                    kind, items = result_items(o.get_word(st[2]))
                    if isinstance(items, int):
                        items = list(int.to_bytes(items, 32, "big"))
                    out.append(("q", kind, items))
                continue
            raised = False
            try:
                if k == "new":
                    objs.append(ByteVec())
                elif k == "copy":
                    if len(st) > 2 and st[2] == "state":
                        # the way a path fork copies memory: State.__deepcopy__
                        import copy as _copy

                        from halmos.sevm import State
                        objs.append(_copy.deepcopy(State(stack=[], memory=objs[st[1]])).memory)
                    else:
                        objs.append(objs[st[1]].copy())
                elif k == "sliceof":
                    if len(st) > 4 and st[4] == "state" and st[3] >= st[2]:
                        from halmos.sevm import State
                        objs.append(State(stack=[], memory=objs[st[1]]).mslice(st[2], st[3] - st[2]))
                    else:
                        objs.append(objs[st[1]].slice(st[2], st[3]))
                elif k == "append":
                    objs[st[1]].append(mkval(objs, st[2], k))
                elif k == "setbyte":
                    r, off, c, form = st[1], st[2], st[3], st[4]
                    if c >= SYM_BASE:
                        kk = c // SYM_BASE - 1
                        v = sym(kk, 1)
                        v = BV(v, size=8) if form == "hbv" else v
                    else:
                        v = {"int": c, "bytes": bytes([c]), "bvval": z3.BitVecVal(c, 8), "hbv": BV(c, size=8)}[form]
                    if st[5] == "setitem":
                        objs[r][off] = v
                    else:
                        objs[r].set_byte(off, v)
                elif k == "setslice":
                    if len(st) > 5 and st[5] == "setitem":
                        omit = st[6] if len(st) > 6 else ""
                        key = slice(None if "start" in omit else st[2], None if "stop" in omit else st[3])
                        objs[st[1]][key] = mkval(objs, st[4], k)
                    elif len(st) > 5 and st[5] == "state":
                        from halmos.sevm import State
                        State(stack=[], memory=objs[st[1]]).set_mslice(st[2], mkval(objs, st[4], k))
                    else:
                        objs[st[1]].set_slice(st[2], st[3], mkval(objs, st[4], k))
                elif k == "setword":
                    objs[st[1]].set_word(st[2], mkval(objs, st[3], k))
                else:
                    raise RuntimeError(k)
            except ValueError:
                raised = "ValueError"
            obs = []
            for o in objs:
                lay, flat = layout(o)
                obs.append((len(o), lay, flat))
            out.append(("step", raised, obs))
        except CaseTimeout:
            out.append(("exc", f"timeout: step {st} did not finish within {CASE_TIMEOUT_S} CPU seconds"[:200]))
            break
        except Exception as e:  # noqa: BLE001
            out.append(("exc", f"{type(e).__name__}: {e}"[:200]))
            break
    return out


# ----------------------------------------------------------------- model side

def enc_val(val):
    if val[0] == "leaf":
        _, s, data, start, ln, _form = val
        return [0, s, len(data)] + list(data) + [start, ln]
    if val[0] == "slice":
        return [1, val[1], val[2], val[3]]
    return [2, val[1]]


def enc_case(case):
    out = []
    for st in case["steps"]:
        k = st[0]
        if k == "new":
            out += [0]
        elif k == "copy":
            out += [1, st[1]]
        elif k == "sliceof":
            out += [2, st[1], st[2], st[3]]
        elif k == "append":
            out += [3, st[1]] + enc_val(st[2])
        elif k == "setbyte":
            out += [4, st[1], st[2], 1 if st[3] >= SYM_BASE else 0, st[3]]
        elif k == "setslice" and len(st) > 6:
            out += [10, st[1], 0 if "start" in st[6] else 1, st[2], 0 if "stop" in st[6] else 1, st[3]] + enc_val(st[4])
        elif k == "setslice":
            out += [5, st[1], st[2], st[3]] + enc_val(st[4])
        elif k == "setword":
            out += [6, st[1], st[2]] + enc_val(st[3])
        elif k == "get":
            out += [7, st[1], st[2]]
        elif k == "unwrap":
            out += [8, st[1]]
        elif k == "word":
            out += [9, st[1], st[2]]
        elif k == "len":
            out += [11, st[1]]
        elif k == "slice":
            out += [12, st[1], st[2], st[3]]
        elif k == "item":
            out += [13, st[1], 0 if st[2] is None else 1, st[2] or 0, 0 if st[3] is None else 1, st[3] or 0]
        # eq / eqcopy: compared with the flat reference only
    return out


def dec_model(case, res):
    """model output -> same shape as impl_run"""
    out = []
    if res is None:
        return [("exc", "model driver error")]
    it = iter(res)

    def take(n):
        return [next(it) for _ in range(n)]

    try:
        for st in case["steps"]:
            if st[0] in ("eq", "eqcopy"):
                out.append(("eq", None))
                continue
            n = next(it)
            body = take(n)
            if body == [-1]:
                out.append(("exc", "model: dangling or cyclic store"))
                break
            bi = iter(body)
            if st[0] in QUERIES:
                if st[0] in ("get", "len", "slice", "item"):
                    out.append(("q", None, body))
                else:
                    out.append(("q", body[0], body[2:2 + body[1]]))
                continue
            raised = next(bi)
            nobj = next(bi)
            obs = []
            for _ in range(nobj):
                ln = next(bi)
                nl = next(bi)
                lay = [next(bi) for _ in range(nl)]
                nf = next(bi)
                flat = [next(bi) for _ in range(nf)]
                obs.append((ln, lay, flat))
            out.append(("step", "ValueError" if raised else False, obs))
    except StopIteration:
        out.append(("exc", "model output truncated"))
    return out


# ----------------------------------------------------------------- comparison

def same_items(ref_codes, items):
    """ref_codes: byte codes; items: impl items (codes or per-valuation values)"""
    if len(ref_codes) != len(items):
        return False
    for c, x in zip(ref_codes, items):
        if isinstance(x, int):
            if x != c:
                return False
        else:
            if [valuate(c, vi) for vi in range(NVAL)] != list(x[1]):
                return False
    return True


def compare_model(case, impl, model):
    """full comparison: raised, number of objects, len, layout, flat, reads"""
    for i, st in enumerate(case["steps"]):
        if i >= len(impl) or i >= len(model):
            return {"step": i, "observable": "missing", "implementation": str(impl[-1:])[:300], "model": str(model[-1:])[:300]}
        a, m = impl[i], model[i]
        if a[0] == "exc" or m[0] == "exc":
            return {"step": i, "observable": "exception", "implementation": str(a)[:300], "model": str(m)[:300]}
        if a[0] == "eq" or m[0] == "eq":
            continue
        if a[0] == "q":
            kind_ok = True
            if st[0] in ("unwrap", "word"):
                kind_ok = (a[1] == 0) == (m[1] == 0)
            if not kind_ok or not same_items(m[2], a[2]):
                return {"step": i, "observable": st[0], "implementation": str(a)[:300], "model": str(m)[:300]}
            continue
        if a[1] != m[1]:
            return {"step": i, "observable": "raised", "implementation": a[1], "model": m[1]}
        if len(a[2]) != len(m[2]):
            return {"step": i, "observable": "objects", "implementation": len(a[2]), "model": len(m[2])}
        for r, (oa, om) in enumerate(zip(a[2], m[2])):
            if oa[0] != om[0]:
                return {"step": i, "object": r, "observable": "len", "implementation": oa[0], "model": om[0]}
            if oa[1] != om[1]:
                return {"step": i, "object": r, "observable": "layout", "implementation": oa[1], "model": om[1]}
            if not same_items(om[2], oa[2]):
                return {"step": i, "object": r, "observable": "flat", "implementation": str(oa[2])[:300], "model": str(om[2])[:300]}
    return None


def compare_spec(case, impl, spec):
    for i, st in enumerate(case["steps"]):
        if i >= len(impl):
            return {"step": i, "observable": "missing", "implementation": str(impl[-1:])[:300]}
        a, s = impl[i], spec[i]
        if a[0] == "exc":
            return {"step": i, "observable": "exception", "implementation": a[1]}
        if a[0] == "eq":
            if s[1] is not None and a[1] != s[1]:
                return {"step": i, "observable": st[0], "implementation": a[1], "spec": s[1]}
            continue
        if a[0] == "q":
            if not same_items(s[1], a[2]):
                return {"step": i, "observable": st[0], "implementation": str(a[2])[:300], "spec": str(s[1])[:300]}
            continue
        if bool(a[1]) != bool(s[1]):
            return {"step": i, "observable": "raised", "implementation": a[1], "spec": s[1]}
        for r, (oa, os_) in enumerate(zip(a[2], s[2])):
            if oa[0] != len(os_):
                return {"step": i, "object": r, "observable": "len", "implementation": oa[0], "spec": len(os_)}
            if not same_items(os_, oa[2]):
                return {"step": i, "object": r, "observable": "flat", "implementation": str(oa[2])[:300], "spec": str(os_)[:300]}
    return None


# ----------------------------------------------------------------- generators

class Gen:
    """Builds one case step by step, tracking the spec lengths and which objects are frozen
    (handed over whole as a value: never a receiver afterwards -- the proviso)."""

    def __init__(self, r, grid, lens):
        self.r = r
        self.grid = grid
        self.lens = lens
        self.steps = []
        self.len = []      # spec length per object
        self.frozen = set()
        self.nsym = 0

    def fresh(self):
        self.nsym += 1
        return self.nsym - 1

    def leaf(self, n, forms_c=("raw", "chunk", "bvval"), forms_s=("raw", "chunk")):
        r = self.r
        s = r.random() < 0.4
        if r.random() < 0.3:  # a chunk object that is a window into longer data
            pre, post = r.choice([0, 1, 3]), r.choice([0, 1, 2])
            form = "chunk"
        else:
            pre = post = 0
            form = r.choice(forms_s if s else forms_c)
        total = pre + n + post
        if total == 0:
            s, form = False, ("raw" if form == "bvval" else form)
        if s:
            k = self.fresh()
            data = [code(k, j) for j in range(total)]
        else:
            data = [r.choice([0, 0, 1, 0xFF, r.randrange(256)]) for _ in range(total)]
            if form == "bvval" and total == 0:
                form = "raw"
        return ["leaf", 1 if s else 0, data, pre, n, form]

    def value(self, n, recv):
        """a value of n bytes"""
        r = self.r
        x = r.random()
        live = list(range(len(self.len)))
        if x < 0.45 or not live:
            return self.leaf(n)
        if x < 0.8:
            src = r.choice(live) if r.random() < 0.5 else recv
            a = r.choice(self.grid + [max(0, self.len[src] - n), max(0, self.len[src] - 1)])
            return ["slice", src, a, a + n]
        # whole object of exactly n bytes, if there is one that is not the receiver
        cands = [o for o in live if o != recv and self.len[o] == n]
        if cands:
            o = r.choice(cands)
            self.frozen.add(o)
            return ["whole", o]
        return self.leaf(n)

    def receivers(self):
        return [o for o in range(len(self.len)) if o not in self.frozen]

    def step(self):
        r = self.r
        recv = self.receivers()
        x = r.random()
        if not recv or x < 0.06:
            self.steps.append(["new"])
            self.len.append(0)
            return
        o = r.choice(recv)
        if x < 0.12:
            src = r.choice(range(len(self.len)))
            self.steps.append(["copy", src, r.choice(["call", "state"])])
            self.len.append(self.len[src])
            if src in self.frozen:
                pass
            return
        if x < 0.2:
            src = r.choice(range(len(self.len)))
            a = r.choice(self.grid)
            b = r.choice(self.grid + [a + r.choice(self.lens)])
            self.steps.append(["sliceof", src, a, b, r.choice(["call", "state"])])
            self.len.append(max(0, b - a))
            return
        if x < 0.3:
            n = r.choice(self.lens + [0])
            v = self.value(n, o)
            if v[0] == "leaf":
                v[5] = r.choice(["raw", "chunk", "hbv"] if (v[5] != "chunk" and len(v[2]) > 0) else [v[5]])
            self.steps.append(["append", o, v])
            self.len[o] += n
            return
        if x < 0.45:
            off = r.choice(self.grid + [max(0, self.len[o] - 1), self.len[o]])
            if r.random() < 0.3:
                c, form = code(self.fresh(), 0), r.choice(["raw", "hbv"])
            else:
                c, form = r.choice([0, 1, 0xAB, 0xFF]), r.choice(["int", "bytes", "bvval", "hbv"])
            self.steps.append(["setbyte", o, off, c, form, r.choice(["call", "call", "setitem"])])
            self.len[o] = max(self.len[o], off + 1)
            return
        if x < 0.55:
            off = r.choice(self.grid + [max(0, self.len[o] - 32), self.len[o]])
            v = self.value(32, o)
            if v[0] == "leaf" and v[5] != "chunk":
                v[5] = r.choice(["raw", "hbv"] if v[1] else ["raw", "int", "bvval", "hbv"])
            self.steps.append(["setword", o, off, v])
            self.len[o] = max(self.len[o], off + 32)
            return
        # set_slice
        a = r.choice(self.grid + [self.len[o]])
        y = r.random()
        if y < 0.75:
            b = r.choice([g for g in self.grid if g > a] or [a + 1])
        elif y < 0.9:
            b = a + r.choice(self.lens)
        else:
            b = r.choice(self.grid)  # may be == a or < a
        n = max(0, b - a)
        if r.random() < 0.05:
            n = n + r.choice([1, -1]) if n > 0 else 1  # wrong length
        v = self.value(max(0, n), o)
        form = r.choice(["call", "call", "setitem"])
        if b >= a and n == b - a and v[0] != "leaf" and r.random() < 0.5:
            form = "state"  # State.set_mslice(loc, data)
        step = ["setslice", o, a, b, v, form]
        if form == "setitem":
            # bv[a:b] = v, bv[:b] = v, bv[a:] = v, bv[:] = v (a bound is omitted only where that means the same)
            omit = ("start" if a == 0 and r.random() < 0.5 else "") + ("stop" if b == self.len[o] and r.random() < 0.7 else "")
            if omit:
                step.append(omit)
        self.steps.append(step)
        if b > a and n == b - a:
            self.len[o] = max(self.len[o], b)

    def observe(self, o=None):
        """1..3 observations of one live object, standing between writes: each must show the flat array as it is now"""
        r = self.r
        if not self.len:
            return
        o = r.choice(range(len(self.len))) if o is None else o
        n = self.len[o]
        for _ in range(r.choice([1, 1, 2, 3])):
            x = r.random()
            off = r.choice(self.grid + [max(0, n - 1), n])
            if x < 0.4:
                self.steps.append(["unwrap", o])
            elif x < 0.5:
                self.steps.append(["len", o])
            elif x < 0.62:
                self.steps.append(["get", o, off] + (["item"] if r.random() < 0.3 else []))
            elif x < 0.72:
                self.steps.append(["word", o, off])
            elif x < 0.82:
                b = r.choice(self.grid + [n, n + 2])
                self.steps.append(["slice", o, off, b])
            elif x < 0.9:
                self.steps.append(["item", o, r.choice([None, 0, off]), r.choice([None, 0, n, r.choice(self.grid)])])
            elif x < 0.95:
                self.steps.append(["eqcopy", o])
            else:
                self.steps.append(["eq", o, r.choice(range(len(self.len)))])

    def reads(self):
        r = self.r
        for o in range(len(self.len)):
            n = self.len[o]
            offs = sorted(set(self.grid + [n - 1, n, n + 1]) - {-1})
            for off in offs if n <= 70 else r.sample(offs, min(len(offs), 8)):
                self.steps.append(["get", o, off])
            self.steps.append(["unwrap", o])
            for off in r.sample(offs, min(3, len(offs))):
                self.steps.append(["word", o, off])

    def case(self, tag):
        return {"tag": tag, "steps": self.steps}


MASTER_GRID = [0, 1, 2, 30, 31, 32, 33, 63, 64, 65]
MASTER_LENS = [1, 2, 31, 32, 33]


def gen_random(r, n, maxlen, tag):
    cases = []
    for _ in range(n):
        if r.random() < 0.6:
            grid = sorted(r.sample(MASTER_GRID, r.choice([3, 4, 5])))
            lens = [b - a for a in grid for b in grid if b > a] or [1]
        else:
            grid = sorted(r.sample(range(0, 9), r.choice([3, 4])))
            lens = [1, 2, 3]
        g = Gen(r, grid, lens)
        g.steps.append(["new"])
        g.len.append(0)
        for _ in range(r.randint(2, maxlen)):
            g.step()
            if r.random() < 0.45:
                # observe between writes: mostly the object just written, sometimes any other
                last = g.steps[-1]
                recv = last[1] if last[0] in ("append", "setbyte", "setslice", "setword") else None
                g.observe(recv if r.random() < 0.7 else None)
        g.reads()
        cases.append(g.case(tag))
    return cases


def exhaustive_alphabet(grid, with_sym=True):
    """operations on object 0 (object 1 = a frozen two-chunk ByteVec of length 2 used whole)"""
    ops = []
    for off in grid[:-1]:
        ops.append(lambda k, off=off: ["setbyte", 0, off, 0xB0 + k, "int", "call"])
    for a, b in itertools.combinations(grid, 2):
        n = b - a
        ops.append(lambda k, a=a, b=b, n=n: ["setslice", 0, a, b, ["leaf", 0, [0x10 * (k + 1) + j for j in range(n)], 0, n, "raw"], "call"])
        if with_sym:
            ops.append(lambda k, a=a, b=b, n=n: ["setslice", 0, a, b, ["leaf", 1, [code(k, j) for j in range(n + 1)], 1, n, "chunk"], "call"])
        ops.append(lambda k, a=a, b=b, n=n: ["setslice", 0, a, b, ["slice", 0, grid[1], grid[1] + n], "call"])
        if n == 2:
            ops.append(lambda k, a=a, b=b: ["setslice", 0, a, b, ["whole", 1], "call"])
    ops.append(lambda k: ["append", 0, ["leaf", 0, [0xA0 + k], 0, 1, "raw"]])
    ops.append(lambda k: ["append", 0, ["slice", 0, grid[0], grid[2]]])
    return ops


def gen_exhaustive(grid, depth, with_sym=True):
    ops = exhaustive_alphabet(grid, with_sym)
    prefix = [["new"], ["new"], ["append", 1, ["leaf", 0, [0xE1], 0, 1, "raw"]], ["append", 1, ["leaf", 1, [code(90, 0)], 0, 1, "raw"]]]
    cases = []
    for d in range(1, depth + 1):
        for seq in itertools.product(range(len(ops)), repeat=d):
            # the whole content and the length are observed after EVERY write (so that each write meets a sequence
            # that has just been observed), then everything at the end
            steps = list(prefix) + [["unwrap", 0]]
            for k, i in enumerate(seq):
                steps += [ops[i](k), ["unwrap", 0], ["len", 0], ["get", 0, grid[1], "item"]]
            n = max(grid) + 2
            steps += [["get", 0, off] for off in range(0, n + 1)] + [["unwrap", 0], ["word", 0, 0], ["copy", 0, "state"], ["sliceof", 0, grid[1], n, "state"]]
            cases.append({"tag": "exhaustive", "steps": steps})
    return cases, len(ops)


CORPUS = [
    # chunk splitting followed by an aligned overwrite with a nested sequence, then writes into / across it
    {"tag": "corpus", "steps": [
        ["new"], ["new"],
        ["append", 0, ["leaf", 0, list(range(1, 9)), 0, 8, "raw"]],
        ["append", 1, ["leaf", 0, [0xAA], 0, 1, "raw"]], ["append", 1, ["leaf", 1, [code(0, 0), code(0, 1)], 0, 2, "raw"]],
        ["setbyte", 0, 2, 0x77, "int", "call"], ["setbyte", 0, 6, 0x78, "int", "call"],
        ["setslice", 0, 3, 6, ["whole", 1], "call"],
        ["copy", 0],
        ["setbyte", 0, 4, 0x55, "int", "call"],
        ["setslice", 2, 2, 5, ["slice", 2, 3, 6], "call"],
        ["setslice", 2, 5, 12, ["slice", 0, 1, 8], "call"],
        ["get", 0, 3], ["get", 0, 4], ["get", 2, 4], ["unwrap", 0], ["unwrap", 2], ["word", 2, 1],
    ]},
    # overlapping self copies, both directions, and a write ending exactly on a chunk boundary
    {"tag": "corpus", "steps": [
        ["new"],
        ["append", 0, ["leaf", 0, [1, 2, 3, 4], 0, 4, "raw"]], ["append", 0, ["leaf", 1, [code(0, j) for j in range(4)], 0, 4, "raw"]],
        ["setslice", 0, 2, 6, ["slice", 0, 0, 4], "call"],
        ["setslice", 0, 0, 4, ["slice", 0, 2, 6], "call"],
        ["setslice", 0, 1, 8, ["slice", 0, 4, 11], "call"],
        ["setslice", 0, 6, 40, ["slice", 0, 0, 34], "setitem"],
        ["unwrap", 0], ["word", 0, 5], ["word", 0, 30],
    ]},
]

CORPUS += [
    # nesting of depth 2 (a ByteVec holding a ByteVec holding a ByteVec), then reads and writes through it;
    # a general-path write whose ByteVec value carries a nested chunk (the dict entry is copied as is)
    {"tag": "corpus", "steps": [
        ["new"], ["new"], ["new"], ["new"],
        ["append", 1, ["leaf", 0, [0x11, 0x12], 0, 2, "raw"]], ["append", 1, ["leaf", 1, [code(0, 0), code(0, 1)], 0, 2, "raw"]],
        ["append", 2, ["leaf", 0, [0x21, 0x22, 0x23, 0x24, 0x25, 0x26], 0, 6, "raw"]],
        ["setbyte", 2, 0, 0x20, "int", "call"], ["setbyte", 2, 5, 0x2F, "int", "call"],
        ["setslice", 2, 1, 5, ["whole", 1], "call"],            # aligned: 2 holds 1
        ["append", 0, ["leaf", 0, list(range(0x30, 0x3A)), 0, 10, "raw"]],
        ["setbyte", 0, 1, 0x3F, "int", "call"], ["setbyte", 0, 8, 0x3E, "int", "call"],
        ["setslice", 0, 2, 8, ["whole", 2], "call"],            # aligned: 0 holds 2 holds 1
        ["copy", 0, "state"],
        ["get", 0, 4], ["get", 0, 5], ["unwrap", 0], ["word", 0, 3],
        ["sliceof", 0, 3, 7, "state"],
        ["setbyte", 0, 5, 0x77, "int", "call"],                 # splits the depth-2 nesting
        ["setslice", 4, 4, 7, ["slice", 4, 2, 5], "call"],      # overlapping self copy across the nested chunk
        ["append", 3, ["leaf", 0, [1, 2, 3, 4, 5, 6, 7, 8], 0, 8, "raw"]],
        ["setslice", 3, 1, 7, ["slice", 2, 0, 6], "call"],
        ["get", 0, 5], ["get", 4, 5], ["unwrap", 0], ["unwrap", 4], ["unwrap", 3], ["word", 4, 0],
    ]},
    # observations between writes: a byte written, the whole read, the SAME byte overwritten (its chunk is exactly one byte
    # long: nothing is split, no fragment is stored), the whole read again, twice; then the other reads, a copy, and a write
    # through an aligned one-chunk set_slice / set_word / append after a read
    {"tag": "corpus", "steps": [
        ["new"], ["unwrap", 0], ["len", 0],
        ["setbyte", 0, 0, 0x11, "int", "call"], ["setslice", 0, 1, 4, ["leaf", 0, [0x61, 0x62, 0x63], 0, 3, "raw"], "call"],
        ["unwrap", 0], ["eqcopy", 0],
        ["setbyte", 0, 0, 0x22, "int", "call"], ["unwrap", 0], ["unwrap", 0], ["get", 0, 0], ["get", 0, 0, "item"], ["len", 0],
        ["slice", 0, 0, 2], ["item", 0, None, 2], ["word", 0, 0], ["eqcopy", 0],
        ["copy", 0], ["eq", 0, 1],
        ["setbyte", 0, 0, 0x33, "bytes", "setitem"], ["unwrap", 0], ["unwrap", 1], ["eq", 0, 1],
        ["setslice", 0, 1, 4, ["leaf", 1, [code(0, j) for j in range(3)], 0, 3, "raw"], "call"], ["unwrap", 0], ["eqcopy", 0],
        ["setslice", 0, 1, 4, ["leaf", 0, [1, 2, 3], 0, 3, "raw"], "setitem"], ["unwrap", 0],
        ["append", 0, ["leaf", 0, [9], 0, 1, "raw"]], ["unwrap", 0], ["len", 0],
        ["setword", 0, 4, ["leaf", 0, list(range(32)), 0, 32, "raw"]], ["unwrap", 0],
        ["setword", 0, 4, ["leaf", 0, list(range(32, 64)), 0, 32, "int"]], ["unwrap", 0], ["word", 0, 4], ["len", 0],
    ]},
    {"tag": "corpus", "steps": [
        ["new"], ["new"], ["new"],
        ["append", 1, ["leaf", 0, [0x11, 0x12], 0, 2, "raw"]],
        ["append", 2, ["leaf", 1, [code(0, j) for j in range(4)], 0, 4, "raw"]],
        ["setbyte", 2, 0, 0x20, "int", "call"], ["setbyte", 2, 3, 0x2F, "int", "call"],
        ["setslice", 2, 1, 3, ["whole", 1], "call"],            # 2 = [20][nested 1][2F]
        ["append", 0, ["leaf", 0, list(range(0x30, 0x38)), 0, 8, "raw"]],
        ["setslice", 0, 2, 6, ["whole", 2], "call"],            # general path: entries of 2 copied, nested ref kept
        ["setslice", 0, 10, 14, ["whole", 2], "state"],         # backfill + append (unpacked)
        ["copy", 0],
        ["setslice", 3, 3, 5, ["leaf", 0, [0xAA, 0xBB], 0, 2, "raw"], "call"],   # aligned on the nested chunk of the copy
        ["unwrap", 0], ["unwrap", 3], ["get", 0, 3], ["get", 3, 3], ["word", 0, 0],
    ]},
]

# the proviso witness: compared with the model only (the heap model predicts the aliasing);
# its deviation from value semantics is recorded, not reported as a violation
ALIAS_PROBE = {"tag": "alias-probe", "steps": [
    ["new"], ["new"],
    ["append", 0, ["leaf", 0, [1, 2], 0, 2, "raw"]],
    ["append", 1, ["leaf", 0, [3, 4], 0, 2, "raw"]],
    ["setslice", 0, 0, 2, ["whole", 1], "call"],     # aligned: stores object 1 itself
    ["copy", 0],                                     # object 2
    ["setbyte", 1, 0, 9, "int", "call"],             # mutate the nested object
    ["get", 0, 0], ["get", 2, 0],
    ["append", 1, ["leaf", 0, [7], 0, 1, "raw"]],    # change its length: holder becomes ill-formed
    ["unwrap", 0], ["unwrap", 2],
]}


def gen_cases(tier, r):
    cases = list(CORPUS)
    if tier == "quick":
        ex, nops = gen_exhaustive([0, 1, 2, 4], 2)
        cases += ex
        cases += gen_random(r, 1500, 12, "random")
        exh_note = f"all sequences of length <= 2 over {nops} operations on the offset grid [0,1,2,4] (set_byte, set_slice with concrete / symbolic window / self-slice / whole nested ByteVec values, append)"
    else:
        ex, nops = gen_exhaustive([0, 1, 2, 4], 3)
        cases += ex
        ex2, nops2 = gen_exhaustive([0, 1, 3], 4, with_sym=False)
        cases += ex2
        cases += gen_random(r, 20000, 12, "random")
        cases += gen_random(r, 3000, 40, "random-long")
        exh_note = f"all sequences of length <= 3 over {nops} operations on the grid [0,1,2,4] and of length <= 4 over {nops2} operations on the grid [0,1,3]"
    return cases, exh_note


def classify(case, impl):
    kinds = set()
    seen_obs = False
    for st in case["steps"]:
        if st[0] in QUERIES:
            seen_obs = True
            kinds.add("obs-" + st[0])
        elif seen_obs and st[0] in ("append", "setbyte", "setslice", "setword"):
            kinds.add("write-after-observation")
    prev = None
    for st, o in zip(case["steps"], impl):
        if o[0] != "step":
            continue
        if st[0] in ("setslice", "setword") and prev is not None and not o[1]:
            a, b = (st[2], st[3]) if st[0] == "setslice" else (st[2], st[2] + 32)
            ln, lay, _ = prev[st[1]]
            if st[0] == "setslice" and len(st) > 6:
                kinds.add("setitem-omitted-bound")
            top = top_chunks(lay)
            if a == b:
                kinds.add("noop")
            elif a >= ln:
                kinds.add("backfill")
            elif any(a == k and b == k + l for k, l, _ in top):
                kinds.add("aligned")
                if (st[4] if st[0] == "setslice" else st[3])[0] == "whole":
                    kinds.add("aligned-nested")
            else:
                kinds.add("general")
                if any(k < b < k + l for k, l, _ in top) and any(k < a < k + l for k, l, _ in top):
                    kinds.add("general-split-both")
                if any(knd == 2 and (k < a < k + l or k < b < k + l) for k, l, knd in top):
                    kinds.add("split-nested")
            v = st[4] if st[0] == "setslice" else st[3]
            if v[0] == "slice" and v[1] == st[1] and v[2] < b and a < v[3]:
                kinds.add("overlapping-self-copy")
        if o[1]:
            kinds.add("raises")
        if st[0] == "setbyte" and prev is not None:
            ln, lay, _ = prev[st[1]]
            if st[2] < ln:
                kinds.add("setbyte-inside")
                if any(knd == 2 and k <= st[2] < k + l for k, l, knd in top_chunks(lay)):
                    kinds.add("setbyte-in-nested")
        if st[0] == "copy":
            kinds.add("copy")
        for ln, lay, flat in o[2]:
            if any(not isinstance(x, int) or x >= SYM_BASE for x in flat):
                kinds.add("symbolic")
            if len(top_chunks(lay)) >= 3:
                kinds.add("3+chunks")
        prev = o[2]
    return kinds


def top_chunks(lay):
    """[(key, len, kind)] of the top-level entries of a recursive layout"""
    out, i = [], 0

    def skip(i):
        k, l, knd, n, _ = lay[i:i + 5]
        i += 5
        if knd == 2:
            for _ in range(n):
                i = skip(i)
        return i

    while i < len(lay):
        out.append((lay[i], lay[i + 1], lay[i + 2]))
        i = skip(i)
    return out


def setitem_probe(rep, exe):
    """bv[start:stop] = bytes over a grid of optional bounds (omitted, explicit 0, inside, at and beyond the end):
    implementation vs flat slice assignment with optional bounds (deviations are failing inputs) vs model."""
    from halmos.bytevec import ByteVec

    cases = []
    for init in ([], [1, 2, 3, 4]):
        for start in (None, 0, 1, 2, 4, 5):
            for stop in (None, 0, 1, 2, 4, 6):
                for n in range(0, 5):
                    cases.append((init, start, stop, [0x80 + i for i in range(n)]))
    calls = []
    for init, start, stop, val in cases:
        calls.append(("c07_setitem", [0 if start is None else 1, start or 0, 0 if stop is None else 1, stop or 0, len(init)] + init + [len(val)] + val))
    model = Model(exe).batch(calls) if exe is not None else None
    known_hits = {}
    nbad = 0
    for i, (init, start, stop, val) in enumerate(cases):
        case = {"tag": "setitem", "init": init, "start": start, "stop": stop, "value": val}
        bv = ByteVec(bytes(init)) if init else ByteVec()
        try:
            bv[slice(start, stop)] = bytes(val)
            raised = False
        except ValueError:
            raised = True
        except Exception as e:  # noqa: BLE001
            raised = f"{type(e).__name__}"
        u = bv.unwrap()
        got = (raised, list(u) if isinstance(u, bytes) else str(u))
        a = 0 if start is None else start
        b = len(init) if stop is None else stop
        sl, sr = fa_set_slice(list(init), a, b, val)
        want = (sr, sl)
        rep.case(case, nontrivial=bool(init) and a < b)
        rep.count("tag", "setitem")
        rep.count("setitem_bounds", ("start-omitted" if start is None else "start-0" if start == 0 else "start>0") + "/" + ("stop-omitted" if stop is None else "stop-0" if stop == 0 else "stop>0"))
        if got != want:
            nbad += 1
            sig = {"observable": "setitem", "op": "setitem", "start": "omitted" if start is None else start, "stop": "omitted" if stop is None else stop}
            k = next((k for k in KNOWN if common.finding_matches(k, {"sig": sig})), None)
            what = f"ByteVec({bytes(init)!r})[{start}:{stop}] = {bytes(val)!r}: implementation (raised, content) = {got}, flat slice assignment = {want}"
            if k is not None:
                known_hits.setdefault(k["id"], []).append(case)
            elif nbad <= 5:
                rep.fail("failing-input", what, case={"case": case, "implementation": got, "spec": want}, sig=sig)
            continue
        if model is not None:
            m = model[i]
            mgot = (bool(m[0]), m[2:2 + m[1]]) if m else None
            if mgot != (bool(got[0]), got[1]) or (got[0] not in (False, True)):
                nbad += 1
                if nbad <= 5:
                    rep.fail("broken-tie", f"model and implementation disagree on {case}: implementation {got}, model {mgot}", case={"case": case})
    # the read sugar bv[start:stop] on the same grid of bounds
    gcases = [(init, start, stop) for init in ([], [1, 2, 3, 4]) for start in (None, 0, 1, 2, 4, 5) for stop in (None, 0, 1, 2, 4, 6)]
    gmodel = Model(exe).batch([("c07_getitem", [0 if a is None else 1, a or 0, 0 if b is None else 1, b or 0, len(init)] + init)
                               for init, a, b in gcases]) if exe is not None else None
    for i, (init, start, stop) in enumerate(gcases):
        case = {"tag": "getitem", "init": init, "start": start, "stop": stop}
        bv = ByteVec(bytes(init)) if init else ByteVec()
        try:
            u = bv[slice(start, stop)].unwrap()
            got = list(u) if isinstance(u, bytes) else str(u)
        except Exception as e:  # noqa: BLE001
            got = f"{type(e).__name__}"
        want = fa_slice(list(init), 0 if start is None else start, len(init) if stop is None else stop)
        rep.case(case, nontrivial=bool(init))
        rep.count("tag", "getitem")
        if got != want:
            nbad += 1
            if nbad <= 5:
                rep.fail("failing-input", f"ByteVec({bytes(init)!r})[{start}:{stop}] = {got}, flat slice read = {want}",
                         case={"case": case, "implementation": got, "spec": want}, sig={"observable": "getitem", "op": "getitem"})
            continue
        if gmodel is not None:
            m = gmodel[i]
            if not m or m[1:1 + m[0]] != got:
                nbad += 1
                if nbad <= 5:
                    rep.fail("broken-tie", f"model and implementation disagree on {case}: implementation {got}, model {m}", case={"case": case})
    for kid, hits in known_hits.items():
        k = next(k for k in KNOWN if k["id"] == kid)
        print(f"KNOWN-FINDING: property={PID} {kid}: {k['what']}")
    rep.coverage["known_findings_in_module"] = {kid: {"hits": len(h), "example": h[0]} for kid, h in known_hits.items()}


def mem_layer(rep, exe, r, tier):
    """the real SEVM on programs of memory instructions and message calls vs the EVM semantics on flat arrays
    (failing inputs) vs the extracted Model/MemOpsModel.v (memory length, chunk layout, content, returndata, MSIZE)"""
    cases = c07_mem.gen_cases(r, 300 if tier == "quick" else 4000)
    built = [c07_mem.build(c) for c in cases]
    impl = [c07_mem.impl_run(c) for c in cases]
    model = None
    vs = [c07_mem.variants(c) for c in cases]
    if exe is not None:
        calls, owner = [], []
        for i, (c, (a, cc)) in enumerate(zip(cases, built)):
            for v in vs[i]:
                calls.append(("c07_mem", c07_mem.enc_case(c, a, cc, v)))
                owner.append(i)
        res = Model(exe).parallel_batch(calls)
        model = [[] for _ in cases]
        for i, x in zip(owner, res):
            model[i].append(c07_mem.dec_model(x))
        # the observations between the writes: the model run on the instructions before each of them
        ocalls, oown = [], []
        for i, (c, (a, cc)) in enumerate(zip(cases, built)):
            for j, v in enumerate(vs[i]):
                for e in c07_mem.enc_observations(c, a, cc, v):
                    ocalls.append(("c07_mem", e))
                    oown.append((i, j))
        ores = Model(exe).parallel_batch(ocalls) if ocalls else []
        per = {}
        for key, x in zip(oown, ores):
            per.setdefault(key, []).append(x)
        for i in range(len(cases)):
            for j, v in enumerate(vs[i]):
                if model[i][j][0] == "ok":
                    model[i][j] = model[i][j] + (c07_mem.dec_observations(v, per.get((i, j), [])),)
        # the code a creation deploys (only where the instruction sequence reaches the creation)
        cr_in = [(i, c07_mem.enc_created(c, a, cc)) for i, (c, (a, cc)) in enumerate(zip(cases, built))
                 if c07_mem.spec_created(c, a, cc) is not None]
        cr_res = Model(exe).batch([("c07_created", x) for _, x in cr_in]) if cr_in else []
        model_created = {i: c07_mem.dec_created(cases[i], m) for (i, _), m in zip(cr_in, cr_res)}
    nfi = nbt = 0
    for i, (c, (acc, cc)) in enumerate(zip(cases, built)):
        kinds = c07_mem.classify(c)
        for k in kinds:
            rep.count("mem_case_kind", k)
        rep.count("mem_outcome", "+".join(x[0] for x in impl[i]) if isinstance(impl[i], list) else impl[i][0])
        rep.count("tag", c["tag"])
        rep.case(c, nontrivial=(isinstance(impl[i], list) or impl[i][0] == "ok") and len(c["ops"]) >= 2)
        d = c07_mem.compare_spec(c, impl[i], [c07_mem.spec_run(c, acc, cc, v) for v in vs[i]])
        if d is None:
            d = c07_mem.compare_created(impl[i], c07_mem.spec_created(c, acc, cc), "spec")
        if d is not None:
            nfi += 1
            if nfi <= 6:
                rep.fail("failing-input", f"SEVM memory disagrees with the flat EVM memory after {c['ops']} (calldata {c['calldata']}, fork {c.get('fork')}): {d}",
                         case={"mem_case": c, **d}, sig={"observable": "mem-" + d["observable"], "op": "memops"})
            continue
        if model is not None:
            d = c07_mem.compare_model(c, impl[i], model[i])
            if d is None and i in model_created:
                d = c07_mem.compare_created(impl[i], model_created[i], "model") if model_created[i][0] != "exc" else {"observable": "deployed-code", "model": model_created[i][1]}
            if d is not None:
                nbt += 1
                if nbt <= 4:
                    rep.fail("broken-tie", f"MemOpsModel and SEVM disagree (flat reference agrees with SEVM) after {c['ops']}: {d}", case={"mem_case": c, **d})
    rep.coverage["mem_layer_cases"] = len(cases)


def short(case):
    s = case["steps"]
    return case if len(str(s)) < 1500 else {"tag": case["tag"], "steps": "long:" + common.case_hash(s)}


def run(rep, tier):
    b = common.build_property(PID, TRANSLATORS)
    common.standard_obligations(rep, PID, b)
    exe = None
    if b["make_ok"]:
        exe, log = common.build_driver(PID)
        rep.obligation("extraction of Model/ByteVecModel.v + ByteVecHeapModel.v entry points + OCaml driver build", exe is not None, "" if exe else log[-800:])
        if exe is None:
            rep.fail("broken-tie", "extracted model driver does not build: " + log[-400:], case={})
    r = common.rng(PID)
    cases, exh_note = gen_cases(tier, r)
    probe = ALIAS_PROBE
    allcases = cases + [probe]
    # import once in the parent: forked workers inherit the loaded modules
    import z3  # noqa: F401

    import halmos.bytevec  # noqa: F401
    import halmos.sevm  # noqa: F401

    if len(allcases) < 4000:
        impl = [impl_run(c) for c in allcases]
    else:
        import gc

        gc.freeze()  # the case list is large: keep the workers' collector from traversing it
        with Pool(min(16, os.cpu_count() or 4)) as pool:
            impl = pool.map(impl_run, allcases, chunksize=256)
        gc.unfreeze()
    model_res = None
    if exe is not None:
        res = Model(exe).parallel_batch([("c07_run", enc_case(c)) for c in allcases])
        model_res = [dec_model(c, x) for c, x in zip(allcases, res)]
    nfi = nbt = 0   # failing inputs and broken ties are capped separately: a flood of layout differences must not hide a failing input
    for i, c in enumerate(cases):
        kinds = classify(c, impl[i])
        for k in kinds or ["plain"]:
            rep.count("case_kind", k)
        rep.count("tag", c["tag"])
        rep.count("steps", min(len([s for s in c["steps"] if s[0] not in QUERIES]), 40) // 4 * 4)
        rep.case(short(c), nontrivial=bool(kinds & {"general", "aligned", "aligned-nested", "setbyte-inside", "overlapping-self-copy", "split-nested"}))
        d = compare_spec(c, impl[i], spec_run(c))
        if d is not None:
            nfi += 1
            if nfi <= 8:
                st = c["steps"][d["step"]] if d["step"] < len(c["steps"]) else None
                rep.fail("failing-input", f"ByteVec disagrees with the flat zero-extended array at step {d['step']} {st} of {str(c['steps'])[:400]}: {d}",
                         case={"case": c, **d}, sig={"observable": d["observable"], "op": st[0] if st else None})
            continue
        if model_res is not None:
            d = compare_model(c, impl[i], model_res[i])
            if d is not None:
                nbt += 1
                if nbt <= 5:
                    rep.fail("broken-tie", f"model and implementation disagree (flat reference agrees with implementation) at step {d['step']} of {str(c['steps'])[:400]}: {d}", case={"case": c, **d})
    setitem_probe(rep, exe)
    mem_layer(rep, exe, r, tier)
    c07_views.run_layer(rep, common.rng(PID + ":views"), tier)
    # alias probe: model must predict what the implementation does; deviation from value semantics recorded
    pi = len(cases)
    dspec = compare_spec(probe, impl[pi], spec_run(probe))
    rep.coverage["alias_probe"] = {
        "note": ALIAS_NOTE,
        "steps": probe["steps"],
        "implementation_deviates_from_value_semantics_at": dspec,
        "implementation": str([o for o in impl[pi] if o[0] != "step"])[:600],
    }
    if model_res is not None:
        d = compare_model(probe, impl[pi], model_res[pi])
        if d is not None:
            rep.fail("broken-tie", f"heap model and implementation disagree on the aliasing probe: {d}", case={"case": probe, **d})
        if dspec is None:
            rep.fail("broken-tie", "the aliasing witness of C07_alias_refuted no longer shows on the implementation (model is stale)", case={"case": probe})
    rep.coverage["traces_validated_against_impl"] = len(cases) + 1 if model_res is not None else 0
    rep.coverage["exhaustive"] = True
    rep.coverage["exhaustive_note"] = exh_note
    return rep.finish(
        checker_cmd="make -C coq Props/C07.vo (coq_makefile, coqc 8.16.1); Gen/GenByteVecSugar.v, GenChunkView.v, GenMemWire.v, GenCodeSlice.v regenerated from /repo first",
        trusted_base=common.TRUSTED_BASE_COMMON,
        assumptions=ASSUMPTIONS,
        partial=PARTIAL,
        rule="(1) ByteVec store: cases = sequences of steps over a store of ByteVec objects (new, copy, slice kept as object, append, set_byte, set_slice, set_word, and -- anywhere between the writes, also repeated -- observations of any live object by every public read: unwrap, len, get_byte, v[i], slice, v[a:b] with optional bounds, get_word, == with a copy / another object; in the exhaustive sequences the whole content and the length are observed after EVERY write; values = bytes / BitVecVal / int / HalmosBitVec / fresh z3 symbols / Chunk windows into longer data / slices of the receiver or of another object / a whole ByteVec object; plain calls, the __setitem__ sugar with explicit and omitted bounds, the State wrappers of sevm.py), followed by get_byte on a grid, unwrap and get_word of every object; corpus, exhaustive short sequences, then seeded random sequences over per-case sub-grids of [0,1,2,30,31,32,33,63,64,65] so that writes land exactly on existing chunk boundaries. After EVERY step EVERY live object is compared (raised?, len, recursive chunk layout [(key,len,kind,start,data_len)], flat content; symbolic bytes by identity, else under 2 valuations) with the extracted heap model and with the flat reference. Generated cases respect the isolation proviso (an object passed whole is never a receiver afterwards). Non-trivial = some write took the aligned or general path of set_slice, split a chunk with set_byte, or was an overlapping self copy. (2) slice sugar: bv[start:stop] = bytes and bv[start:stop] over a grid of optional bounds (omitted, explicit 0, inside, at and beyond the end). (3) memory instructions: programs assembled from 1..7 of MSTORE (PUSH32 or CALLDATALOAD value) / MSTORE8 / MLOAD+MSTORE / CALLDATACOPY / CODECOPY / EXTCODECOPY (account with code, with empty code, without account) / RETURNDATACOPY (in bounds, at the end, beyond) / MCOPY (overlapping) / MLOAD and MSIZE observations between the writes, left on the stack / message calls (STATICCALL, CALL, DELEGATECALL, CALLCODE; callee = 0..3 instructions then RETURN or REVERT of a window of its memory, possibly halting; output area smaller / equal / larger than the returned data) / at most one creation (CREATE, CREATE2: the init code = 0..3 instructions then RETURN or REVERT is first written to memory with MSTOREs; it reads its EMPTY calldata and its own code), optionally a JUMPI on the symbolic CALLVALUE forking the path (often on a still empty memory) and a final RETURN / REVERT; calldata = concrete bytes and z3 symbols; offsets and sizes from a grid around 0, 32, 64 and the current ends. The real SEVM runs the program; for every reported path the final memory (length, recursive chunk layout, content), the returndata buffer, MSIZE, the output data and the code of the account a creation deployed are compared with the flat EVM semantics (failing input) and with the extracted MemOpsModel (broken tie). Non-trivial = the path ran to its end through >= 2 instructions; distinct by hash of the case. (4) chunk views over LARGE leaves: one leaf (fresh z3 symbol / concrete bytes) of N bytes, N = every integer literal of bytevec.py (read from the source at run time) -1/+0/+1, sizes around 32 / 256 / 1024 / 2048 / 4096 and random sizes in 1025..5000; offset views of it made by a word / byte overwrite inside the leaf (post chunk), by copying a sub-range into an empty ByteVec, by slices of slices and by nested chunk windows c[a:b][x:y][..]; then get_word / get_byte / slice(o, o+k).unwrap() (k = 1, 2, 8, 31..33, 64 and every source literal -1/+0/+1) / small self copies / unwrap / len through these views, each compared with the flat array, the returned z3 terms being evaluated (substitute + simplify) under 2 random valuations of the leaf; all non-trivial",
    )


def replay(rep, body):
    for f in body.get("failures", []):
        vc = (f.get("case") or {}).get("view_case")
        if vc:
            c07_views.replay_case(vc)
            continue
        mc = (f.get("case") or {}).get("mem_case")
        if mc:
            acc, cc = c07_mem.build(mc)
            impl = c07_mem.impl_run(mc)
            spec = [c07_mem.spec_run(mc, acc, cc, v) for v in c07_mem.variants(mc)]
            print("memory case:", mc)
            print("program:", acc[c07_mem.THIS].hex())
            print("implementation:", str(impl)[:600])
            print("flat EVM memory:", str(spec)[:600])
            print("spec-vs-implementation:", c07_mem.compare_spec(mc, impl, spec))
            continue
        case = (f.get("case") or {}).get("case")
        if case:
            print("steps:", case["steps"])
            impl = impl_run(case)
            spec = spec_run(case)
            print("spec-vs-implementation:", compare_spec(case, impl, spec))
            for st, o in zip(case["steps"], impl):
                print(" ", st, "->", str(o)[:300])
    return 0
