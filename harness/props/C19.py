"""C19 — bytecode decoding and jump-destination validity.

Obligations: T-opcodes, Props/C19.vo (theorems about Model/CodeModel.v over the
regenerated Gen/GenOpcodes.v), lint.  Tie X-C19: real halmos.contract.Contract vs
the extracted model vs an independent Python rendering of the spec.
"""
import itertools
import os
from multiprocessing import Pool

from harness import common
from harness.common import Model

PID = "C19"
TRANSLATORS = ["T-opcodes"]
ALPHABET = [0x00, 0x5B, 0x60, 0x61, 0x7F, 0x5F, 0xFE, 0x56]

PARTIAL = None
ASSUMPTIONS = [
    "ByteVec reads behave as a flat zero-extended array (that is property C07; Contract.slice/getitem are modelled on top of it)",
    "the extracted model and driver are faithful to the Coq definitions (extraction is trusted)",
]


# ----------------------------------------------------------------- independent spec (python)

def spec_len(op):
    return op - 0x5F + 1 if 0x60 <= op <= 0x7F else 1


def spec_jumpdests(code):
    """code: list of int or None (symbolic)."""
    out, pc = [], 0
    while pc < len(code):
        op = code[pc]
        if op is None:
            break
        if op == 0x5B:
            out.append(pc)
        pc += spec_len(op)
    return out


def spec_byte(code, i):
    return code[i] if i < len(code) else 0


def spec_decode(code, pc):
    if pc >= len(code):
        return [0]
    op = code[pc]
    if op is None:
        return [1]
    n = spec_len(op)
    if n == 1:
        return [2, op, pc + 1, 0, 0]
    bs = [spec_byte(code, pc + 1 + i) for i in range(n - 1)]
    if any(b is None for b in bs):
        return [2, op, pc + n, 1, 0]
    v = 0
    for b in bs:
        v = v * 256 + b
    return [2, op, pc + n, 2, v]


# ----------------------------------------------------------------- implementation side

def impl_case(case):
    """case = list of segments: ('c', bytes-as-list) | ('s', nbytes).  Returns observations."""
    import z3

    from halmos.bytevec import ByteVec
    from halmos.contract import Contract, Instruction
    from halmos.exceptions import NotConcreteError

    segs = []
    flat = []
    for k, (kind, payload) in enumerate(case):
        if kind == "c":
            segs.append(bytes(payload))
            flat += list(payload)
        else:
            segs.append(z3.BitVec(f"sym{k}", 8 * payload))
            flat += [None] * payload
    c = Contract(ByteVec(segs))
    obs = {}
    try:
        obs["jumpdests"] = sorted(c.valid_jumpdests())
    except Exception as e:  # noqa: BLE001
        obs["jumpdests"] = f"EXC {type(e).__name__}"
    dec = []
    for pc in probes(len(flat))[0]:
        try:
            insn = c.decode_instruction(pc)
            if insn is Instruction.STOP:
                dec.append([0])
            else:
                if insn.pc != pc:
                    dec.append(["badpc", insn.pc])
                    continue
                opnd = insn.operand
                if opnd is None:
                    dec.append([2, insn.opcode, insn.next_pc, 0, 0])
                elif opnd.is_concrete:
                    dec.append([2, insn.opcode, insn.next_pc, 2, int(opnd.value)] if opnd.size == 256 else ["badsize", opnd.size])
                else:
                    dec.append([2, insn.opcode, insn.next_pc, 1, 0])
        except NotConcreteError:
            dec.append([1])
        except Exception as e:  # noqa: BLE001
            dec.append([f"EXC {type(e).__name__}"])
    obs["decode"] = dec

    def enc(b):
        if isinstance(b, int):
            return b
        try:
            from halmos.utils import unbox_int

            u = unbox_int(b.unwrap() if hasattr(b, "unwrap") else b)
            return u if isinstance(u, int) else -1
        except Exception:  # noqa: BLE001
            return -1

    obs["getitem"] = []
    for k in probes(len(flat))[1]:
        try:
            obs["getitem"].append(enc(c[k]))
        except Exception as e:  # noqa: BLE001
            obs["getitem"].append(f"EXC {type(e).__name__}")
    sl = []
    n = len(flat)
    grid = sorted({(s, z) for s in {0, 1, max(0, n - 2), n, n + 1} for z in {0, 1, 2, 3, n, n + 2}})
    for s, z in grid:
        try:
            bv = c.slice(s, z)
            if len(bv) != z:
                sl.append([s, z, f"badlen {len(bv)}"])
            else:
                sl.append([s, z, [enc(bv.get_byte(i)) for i in range(z)]])
        except Exception as e:  # noqa: BLE001
            sl.append([s, z, f"EXC {type(e).__name__}"])
    obs["slice"] = sl
    # far beyond the end (a CODECOPY offset is any 256-bit word): still `size` zero bytes
    far = []
    for s in FAR_STARTS:
        for z in (0, 1, 32):
            try:
                bv = c.slice(s, z)
                far.append([s, z, [enc(bv.get_byte(i)) for i in range(z)] if len(bv) == z else f"badlen {len(bv)}"])
            except Exception as e:  # noqa: BLE001
                far.append([s, z, f"EXC {type(e).__name__}"])
    obs["slice_far"] = far
    return obs


def probes(n):
    """pcs / indices probed for a code of length n: all when short, a fixed spread when long"""
    if n <= 64:
        return list(range(n + 3)), list(range(n + 2))
    import random as _r

    r = _r.Random(n)
    pcs = sorted(set([0, 1, 2, n - 34, n - 33, n - 2, n - 1, n, n + 1, n + 2] + [r.randrange(n) for _ in range(40)]))
    return pcs, pcs[:-1]


def flat_of(case):
    flat = []
    for kind, payload in case:
        flat += list(payload) if kind == "c" else [None] * payload
    return flat


def nfast_of(case):
    # Contract._fastcode = first chunk if concrete (empty segments are dropped by ByteVec.append)
    for kind, payload in case:
        n = len(payload) if kind == "c" else payload
        if n == 0:
            continue
        return n if kind == "c" else 0
    return 0


def spec_obs(case):
    flat = flat_of(case)
    n = len(flat)
    obs = {"jumpdests": spec_jumpdests(flat)}
    obs["decode"] = [spec_decode(flat, pc) for pc in probes(n)[0]]
    e = lambda b: -1 if b is None else b  # noqa: E731
    obs["getitem"] = [e(spec_byte(flat, k)) for k in probes(n)[1]]
    grid = sorted({(s, z) for s in {0, 1, max(0, n - 2), n, n + 1} for z in {0, 1, 2, 3, n, n + 2}})
    obs["slice"] = [[s, z, [e(spec_byte(flat, s + i)) for i in range(z)]] for s, z in grid]
    obs["slice_far"] = [[s, z, [e(spec_byte(flat, s + i)) for i in range(z)]] for s in FAR_STARTS for z in (0, 1, 32)]
    return obs


def model_calls(case):
    flat = [(-1 if b is None else b) for b in flat_of(case)]
    nf = nfast_of(case)
    n = len(flat)
    calls = [("c19_jumpdests", [nf] + flat)]
    calls += [("c19_decode", [nf, pc] + flat) for pc in probes(n)[0]]
    calls += [("c19_getitem", [nf, k] + flat) for k in probes(n)[1]]
    grid = sorted({(s, z) for s in {0, 1, max(0, n - 2), n, n + 1} for z in {0, 1, 2, 3, n, n + 2}})
    calls += [("c19_slice", [nf, s, z] + flat) for s, z in grid]
    return calls, grid


def model_obs(case, results):
    flat = flat_of(case)
    n = len(flat)
    _, grid = model_calls(case)
    it = iter(results)
    obs = {"jumpdests": sorted(next(it))}
    obs["decode"] = [next(it) for _ in probes(n)[0]]
    obs["getitem"] = [next(it)[0] for _ in probes(n)[1]]
    obs["slice"] = [[s, z, next(it)] for s, z in grid]
    return obs


# ----------------------------------------------------------------- generators

def gen_cases(tier, r):
    cases = []
    L = 4 if tier == "quick" else 6
    for n in range(0, L + 1):
        for t in itertools.product(ALPHABET, repeat=n):
            cases.append([("c", list(t))])
    # random byte strings, push-heavy
    nrand = 60 if tier == "quick" else 600
    for i in range(nrand):
        n = r.choice([1, 2, 7, 31, 32, 33, 64, 200, 1000, 4096]) if i % 3 else r.randint(0, 4096)
        bs = [r.choice([0x5B, 0x60, 0x61, 0x7F, 0x5B, r.randrange(256), r.randrange(0x5F, 0x80)]) for _ in range(n)]
        cases.append([("c", bs)])
    # concrete-prefix / symbolic-suffix splits at every offset, and multi-chunk layouts
    nsplit = 60 if tier == "quick" else 500
    for i in range(nsplit):
        n = r.randint(1, 12 if tier == "quick" else 40)
        bs = [r.choice(ALPHABET + [0x5B, 0x62, r.randrange(256)]) for _ in range(n)]
        for k in range(n + 1):
            cases.append([("c", bs[:k]), ("s", n - k)])
        k1 = r.randint(0, n)
        k2 = r.randint(k1, n)
        cases.append([("c", bs[:k1]), ("c", bs[k1:k2]), ("c", bs[k2:])])
        cases.append([("c", bs[:k1]), ("s", k2 - k1), ("c", bs[k2:])])
        cases.append([("s", k1), ("c", bs[k1:])])
    # zero-length segments cannot be built (z3 has no 0-bit vectors; ByteVec drops empty chunks)
    cases = [[seg for seg in c if (len(seg[1]) if seg[0] == "c" else seg[1]) > 0] or [("c", [])] for c in cases]
    return cases


def classify(case):
    flat = flat_of(case)
    kinds = []
    if any(b is None for b in flat):
        kinds.append("symbolic")
    if len(case) > 1:
        kinds.append("multichunk")
    jd = spec_jumpdests(flat)
    if jd:
        kinds.append("has_jumpdest")
    if any(b == 0x5B for i, b in enumerate(flat) if i not in jd):
        kinds.append("jumpdest_in_push_or_unreached")
    pcs, pc = [], 0
    while pc < len(flat) and flat[pc] is not None:
        pcs.append(pc)
        pc += spec_len(flat[pc])
    if pcs and pc > len(flat):
        kinds.append("truncated_push")
    return kinds


FAR_STARTS = [(1 << 20) - 1, 1 << 20, (1 << 20) + 1, 1 << 64, (1 << 256) - 1]


def compare(rep, case, a, b, what):
    """a = implementation observations, b = reference (model or spec)."""
    for key in ("jumpdests", "decode", "getitem", "slice") + (("slice_far",) if "slice_far" in b else ()):
        if a[key] != b[key]:
            detail = {"observable": key, "implementation": a[key], what: b[key]}
            if key != "jumpdests":
                for i, (x, y) in enumerate(zip(a[key], b[key])):
                    if x != y:
                        detail = {"observable": key, "index": i, "implementation": x, what: y}
                        break
            return detail
    return None


def jump_descs(tier, r):
    """programs that JUMP / JUMPI (literal-true, literal-false and symbolic condition) to every
    offset of a body with JUMPDEST bytes at boundaries and inside PUSH data: executed by the
    real SEVM and by the reference interpreter (input-wise comparison of harness/l2tie.py)"""
    from harness import asm

    descs = []
    nbodies = 3 if tier == "quick" else 16
    for b in range(nbodies):
        items = []
        for _ in range(r.randrange(3, 6)):
            k = r.random()
            if k < 0.35:
                items += [("label", f"J{len(items)}"), ("push", r.randrange(1, 200)), "PUSH0", "MSTORE"]
            elif k < 0.75:
                n = r.choice([1, 2, 3, 32])
                imm = bytes(r.choice([0x5B, 0x5B, r.randrange(256)]) for _ in range(n))
                items += [("raw", bytes([0x5F + n]) + imm), "POP"]
            else:
                items += [("push", 0x5B), "POP"]
        items += [("push", 32), "PUSH0", "RETURN"]
        body = asm.assemble(items)
        if r.random() < 0.5:
            body += bytes([r.choice([0x60, 0x61, 0x7F])]) + bytes([0x5B])   # truncated trailing PUSH
        for kind in ("jump", "jumpi_true", "jumpi_sym", "jumpi_false"):
            head_len = {"jump": 4, "jumpi_true": 6, "jumpi_sym": 7, "jumpi_false": 5}[kind] + 1
            for t in range(head_len - 1, head_len + len(body) + 1):
                if kind == "jump":
                    head = [("pushn", 2, t), "JUMP"]
                elif kind == "jumpi_true":
                    head = [("push", 1), ("pushn", 2, t), "JUMPI"]
                elif kind == "jumpi_false":
                    head = ["PUSH0", ("pushn", 2, t), "JUMPI"]
                else:
                    head = [("push", 4), "CALLDATALOAD", ("pushn", 2, t), "JUMPI"]
                code = asm.assemble(head + ["STOP"]) + body
                descs.append({"profile": "jump-" + kind, "code": code.hex(), "callees": {}, "options": {}, "static": False, "nargs": 2})
    # a JUMPDEST at code offset 0 is a destination like any other (a loop whose head is the first byte): the counter in
    # memory word 0 is bumped until it reaches n, jumping back to offset 0 by JUMP / literal JUMPI / symbolic JUMPI
    for n in (2, 3):
        bump = ["JUMPDEST", "PUSH0", "MLOAD", ("push", 1), "ADD", "DUP1", "PUSH0", "MSTORE", ("push", n), "GT"]   # n > counter
        out = [("push", 32), "PUSH0", "RETURN"]
        progs = {
            "jumpi_lit": bump + ["PUSH0", "JUMPI"] + out,
            "jump": bump + ["ISZERO", ("ref", "X"), "JUMPI", "PUSH0", "JUMP", ("label", "X")] + out,
            "jumpi_sym": bump + [("push", 4), "CALLDATALOAD", "AND", "PUSH0", "JUMPI"] + out,
        }
        for kind, items in progs.items():
            descs.append({"profile": "jump-dest0-" + kind, "code": asm.assemble(items).hex(), "callees": {}, "options": {"loop": 4}, "static": False, "nargs": 2})
    # CODECOPY of ranges at, across and far past the end of the code over memory that already holds non-zero bytes:
    # the bytes past the end read as zeros, whatever the offset
    for size in (1, 32, 33):
        tail = [("push", 96), "PUSH0", "RETURN"]
        fill = [("pushn", 32, int.from_bytes(b"\x11" * 32, "big")), "DUP1", "PUSH0", "MSTORE", "DUP1", ("push", 32), "MSTORE", ("push", 64), "MSTORE"]
        base = len(asm.assemble(fill + [("push", size), ("pushn", 32, 0), ("push", 7), "CODECOPY"] + tail))
        for off in (0, base - 1, base, base + 1, base + 31, 200, (1 << 16), (1 << 255), (1 << 256) - 1):
            items = fill + [("push", size), ("pushn", 32, off), ("push", 7), "CODECOPY"] + tail
            descs.append({"profile": "codecopy-far", "code": asm.assemble(items).hex(), "callees": {}, "options": {}, "static": False, "nargs": 2})
    return descs


def jump_leg(rep, tier, r):
    from harness import l2common

    descs = jump_descs(tier, r)
    out = l2common.run_corpus(descs, common.seed() % 100000, n_random=2, timeout=120)
    n = 0
    for d, status, res in out:
        rep.count("jump_leg", d["profile"])
        if status != "ok":
            rep.count("jump_leg_status", status)
            continue
        n += 1
        rep.case({"jump_program": d["code"], "kind": d["profile"]}, nontrivial=True)
        for f in (res["c01"] + res["c02"])[:2]:
            rep.fail("failing-input", f"execution of a jump disagrees with the EVM on program {d['code']}: {str(f)[:300]}",
                     case={"scenario": d, "failure": f}, sig={"observable": "jump-execution", "kind": d["profile"]})
    rep.coverage["jump_programs_executed"] = n


def run(rep, tier):
    b = common.build_property(PID, TRANSLATORS)
    built = common.standard_obligations(rep, PID, b)
    exe = None
    if b["make_ok"]:
        exe, log = common.build_driver(PID)
        rep.obligation("extraction of Model/CodeModel.v entry points + OCaml driver build", exe is not None, "" if exe else log[-800:])
        if exe is None:
            rep.fail("broken-tie", "extracted model driver does not build: " + log[-400:], case={})
    r = common.rng(PID)
    cases = gen_cases(tier, r)
    with Pool(min(16, os.cpu_count() or 4)) as pool:
        impl = pool.map(impl_case, cases, chunksize=64)
    # spec-vs-implementation (always), model-vs-implementation (when the model builds)
    model_res = None
    if exe is not None:
        m = Model(exe)
        calls = []
        spans = []
        for c in cases:
            cs, _ = model_calls(c)
            spans.append((len(calls), len(cs)))
            calls += cs
        res = m.parallel_batch(calls)
        model_res = [model_obs(c, res[s:s + n]) for c, (s, n) in zip(cases, spans)]
    nbad = 0
    for i, c in enumerate(cases):
        kinds = classify(c)
        for k in kinds or ["plain"]:
            rep.count("case_kind", k)
        rep.count("length", min(len(flat_of(c)), 4096) // 8 * 8 if len(flat_of(c)) < 64 else ">=64")
        rep.case({"segments": c if len(flat_of(c)) <= 48 else "long:" + common.case_hash(c)}, nontrivial=bool(kinds))
        d = compare(rep, c, impl[i], spec_obs(c), "spec")
        if d is not None:
            nbad += 1
            if nbad <= 10:
                rep.fail("failing-input", f"Contract disagrees with the EVM spec on code {c if len(flat_of(c)) <= 48 else 'long'}: {d}",
                         case={"segments": c, **d}, sig={"observable": d["observable"]})
            continue
        if model_res is not None:
            d = compare(rep, c, impl[i], model_res[i], "model")
            if d is not None:
                nbad += 1
                if nbad <= 10:
                    rep.fail("broken-tie", f"model and implementation disagree (spec agrees with implementation) on {c}: {d}", case={"segments": c, **d})
    try:
        jump_leg(rep, tier, r)
    except RuntimeError as e:
        rep.fail("broken-tie", f"reference interpreter driver does not build: {str(e)[-300:]}", case={})
    rep.coverage["traces_validated_against_impl"] = len(cases) if model_res is not None else 0
    rep.coverage["exhaustive"] = True
    rep.coverage["exhaustive_note"] = f"all byte strings of length <= {4 if tier == 'quick' else 6} over the alphabet {[hex(a) for a in ALPHABET]} are included"
    return rep.finish(
        checker_cmd="make -C coq Props/C19.vo (coq_makefile, coqc 8.16.1) after regenerating coq/Gen/GenOpcodes.v from /repo/src/halmos/contract.py",
        trusted_base=common.TRUSTED_BASE_COMMON,
        assumptions=ASSUMPTIONS,
        rule="cases = code layouts (list of concrete / symbolic chunks); exhaustive short strings over a reduced alphabet + random strings up to 4 KiB + every concrete/symbolic split offset; a case is non-trivial when it has a JUMPDEST, a JUMPDEST byte that is not a valid destination, a truncated PUSH, symbolic bytes or several chunks; distinct by hash of the layout. Observables compared per case: valid_jumpdests(), decode_instruction(pc) for every pc <= len+2, __getitem__ for every index <= len+1, slice() on a grid of (start,size) around both ends (and far past the end); execution leg: programs that JUMP / JUMPI (literal and symbolic condition) to every offset of bodies with JUMPDEST bytes at boundaries and inside PUSH data, loops whose head is a JUMPDEST at offset 0, and CODECOPY at / across / far past the end of the code over dirty memory, run by the real SEVM and by the reference interpreter input by input",
    )


def replay(rep, body):
    for f in body.get("failures", []):
        case = (f.get("case") or {}).get("segments")
        if case:
            case = [(k, p) for k, p in case]
            print("implementation:", impl_case(case))
            print("spec          :", spec_obs(case))
    return 0
