"""C04 — counterexamples marked valid are reproducible (value parsing, validity labelling,
refine-once control flow).

Obligations: T-refine, T-solvefs, T-solvedispatch, T-cexhandler, T-pathquery, T-cexprint, T-hexifyint,
Props/C04.vo, lint.
Ties (every run):
  X-const   solve.parse_const_value on generated value texts (three syntaxes + malformed)
            vs the extracted model vs the intended value;
  X-model   solve.parse_model_str on generated solver outputs (define-fun entries with
            halmos_/p_/other names, |quoted| names, line-wrapped values) vs the model;
  X-render  what is PRINTED: solver outputs for variables of every declared type at several SMT
            widths (values above the declared width, dirty address bits, sign bits, very long
            bytes) -> real parse_model_str -> str(PotentialModel): the text, read back by an
            independent reader, must be exactly the solver's assignment; the same text must come
            out of the extracted model (regenerated f-string / hexify arm).  The printed text of
            the X-e2e / X-l3 counterexamples is read back and replayed as well;
  X-print   the real z3 / yices-smt2 binaries (with halmos' solver arguments) asked for a
            model of x = n: the value text they print is the Spec printer's text
            (#x / #b / (_ bvN W)) and parses back to n;
  X-e2e     real solve.solve_end_to_end (a) with scripted solver outputs for every
            combination of first / refined answer, unsat-core hit, already-refined
            context, refinement changing the text or not, vs the model's outcome,
            validity flag and number of solver runs; (b) with the real solvers on real
            Path queries that need refinement of mul/div/mod/sdiv/smod (must end valid,
            with values that satisfy the exact EVM constraints) or contain exp (must be
            labelled potentially invalid), at every width sevm declares an abstraction
            (256 / 264 / 512), incl. zero divisors with the value of the bare SMT-LIB operator
            (no EVM model exists: never valid);
  X-fs      sequences of queries solved by the real solve_end_to_end in ONE dump directory
            (as with --dump-smt-directory: path ids repeat, files of other queries / of an
            earlier run are there), with a scripted solver that answers by the content of the
            file it is handed: the reported model must be the solver's model of the current
            query, the files left behind must be the current query's; result, validity,
            number of runs and the whole directory afterwards vs the extracted model
            (Model/SolveFsModel.v interpreting the regenerated gen_dump / gen_low_level);
  X-path    real sevm.Path objects through appends / branches / slices / extensions (a path spans
            transactions), then to_smt2 with and without --cache-solver: the query must entail every
            condition the path assumed; asserted conditions and the path's solver vs the model;
  X-inv     python -m halmos --invariant-depth 1: the violating call has a require() on an argument
            that never reaches the state; every valid model is replayed concretely;
  X-handler the real _solve_end_to_end_callback on fabricated futures x executor shut down x
            --early-exit vs the model; nothing may be reported once the executor is shut down;
  X-kill    handle_assertion_violation -> thread pool -> solve_end_to_end -> PopenExecutor with
            scripted solvers that are killed mid-answer when another path's valid counterexample
            shuts the executor down: a valid counterexample is the model of a complete answer;
  X-l3      python -m halmos --dump-smt-directory end to end on fabricated projects with
            overloaded tests, several runs sharing the directory, each test with exactly one
            failing input: every counterexample marked valid must assign that input.
"""
import itertools
import os
import shutil
import stat
import tempfile

from harness import common
from harness.common import Model

PID = "C04"
TRANSLATORS = ["T-refine", "T-solvefs", "T-solvedispatch", "T-cexhandler", "T-pathquery", "T-cexprint", "T-hexifyint"]
KNOWN = []

ASSUMPTIONS = [
    "the external solver's model satisfies the query it was given (solver soundness); the check replays every valid counterexample on the exact EVM constraints as support",
    "solver outputs are ASCII; Python's int() leniencies (underscores, signs, surrounding whitespace) are outside the model because halmos_var_pattern only passes [01]+ / [0-9a-fA-F]+ / decimal digits to parse_const_value",
    "the dispatch of _solve_end_to_end_callback on model.is_valid (valid list vs `potentially invalid` warning) is read from __main__.py; it is executed only by the X-l3 runs",
    "the solver reads the file named on its command line while it runs and nothing else writes to the dump directory in between (one process per dump directory; path ids are unique among the paths of one function that are solved concurrently)",
    "a solver process is killed only by PopenExecutor.shutdown, after its shutdown flag is set, and what a killed process has printed is a prefix of what it would have printed (hypotheses of C04_valid_cex_from_complete_output; exercised by the kill scenarios)",
    "z3's parse_smt2_string reads the query text as the solver binaries do (used to decide which path conditions a query entails)",
    "the extracted model and driver are faithful to the Coq definitions (extraction is trusted)",
]
PARTIAL = "C04_valid_cex (a valid model, replayed as an input, drives the concrete EVM to the reported panic) needs the C01 reference interpreter and is not part of this module; the check replays valid models on the path constraints with exact arithmetic instead"

Z3 = "/venv/bin/z3"
YICES = "/venv/bin/yices-smt2"


def txt(s):
    return [ord(c) for c in s]


def untxt(l):
    return "".join(chr(c) for c in l)


# ----------------------------------------------------------------- X-const

def const_cases(tier, r):
    cases = []  # (text, intended value or None)
    nrand = 150 if tier == "quick" else 2000
    vals = [0, 1, 2, 9, 10, 15, 16, 255, 256, (1 << 255), (1 << 256) - 1, (1 << 512) - 1]
    vals += [r.randrange(1 << r.choice([1, 8, 64, 160, 256, 264, 512])) for _ in range(nrand)]
    for n in vals:
        w = max(n.bit_length(), 1) + r.choice([0, 0, 1, 7])
        cases.append(("#b" + format(n, f"0{w}b"), n))
        h = format(n, "x").rjust((w + 3) // 4, "0")
        cases.append(("#x" + h, n))
        cases.append(("#x" + h.upper(), n))
        cases.append((f"(_ bv{n} {w})", n))
        cases.append((f"bv{n}", n))
        cases.append((f"(_  bv{n}\n {w})", n))
    bad = ["", "#", "#b", "#x", "#b012", "#xfg", "#o17", "(_ bv 8)", "(_ bvx 8)", "123", "0x10", "b101", "(_ BV12 8)",
           "( _ bv12 8)", "#B101", "#X1f", "bv", "(_ bitvec 8)"]
    cases += [(b, None) for b in bad]
    return cases


def real_parse_const(s):
    from halmos.solve import parse_const_value

    try:
        return parse_const_value(s)
    except Exception:  # noqa: BLE001
        return None


# ----------------------------------------------------------------- X-model

NAMES = ["halmos_x_uint256_01", "p_y_address_02", "p_z_bool_03", "halmos_a.b_bytes_04", "f_evm_bvmul_256", "q_x_uint8_00",
         "halmos_", "p_", "halmosx_uint8_01", "P_x_uint8_02", "p_caller_address_b1c2d3_07", "halmos_msg_value_uint256_77"]


def model_outputs(tier, r):
    outs = []
    n = 60 if tier == "quick" else 800
    for _ in range(n):
        entries = []
        for name in r.sample(NAMES, r.randint(1, 5)):
            w = r.choice([1, 8, 160, 256, 512])
            v = r.randrange(1 << w)
            form = r.choice(["b", "x", "X", "d", "bad"])
            if form == "b":
                val = "#b" + format(v, f"0{w}b")
            elif form == "x":
                val = "#x" + format(v, "x").rjust((w + 3) // 4, "0")
            elif form == "X":
                val = "#x" + format(v, "X").rjust((w + 3) // 4, "0")
            elif form == "d":
                val = f"(_ bv{v} {w})"
            else:
                val = r.choice(["true", "#o7", "(_ bvx 8)", "#b"])
            quoted = r.random() < 0.3
            sep = r.choice([" ", "\n    ", "  "])
            entries.append({"name": name, "quoted": quoted, "w": w, "value": val, "sep": sep, "intended": v if form != "bad" else None})
        text = "sat\n(\n" + "".join(
            f"  (define-fun {'|' + e['name'] + '|' if e['quoted'] else e['name']} () (_ BitVec {e['w']}){e['sep']}{e['value']})\n" for e in entries) + ")\n"
        outs.append({"text": text, "entries": entries})
    return outs


def real_parse_model(text):
    from halmos.solve import parse_model_str

    try:
        return {k: [v.size_bits, v.value] for k, v in parse_model_str(text).items()}
    except Exception as e:  # noqa: BLE001
        return f"EXC {type(e).__name__}: {e}"


def spec_name_ok(name):
    for p in ("halmos_", "p_"):
        if name.startswith(p) and len(name) > len(p) and " " not in name and "|" not in name:
            return True
    return False


# ----------------------------------------------------------------- X-print (real solvers)

def solver_value_text(cmd, w, n):
    """Ask a real solver for a model of x = n; return the value text it prints."""
    import subprocess

    from halmos.solve import halmos_var_pattern

    q = f"(set-logic QF_AUFBV)\n(declare-fun p_x_uint{w}_00 () (_ BitVec {w}))\n(assert (= p_x_uint{w}_00 (_ bv{n} {w})))\n(check-sat)\n(get-model)\n"
    with tempfile.NamedTemporaryFile("w", suffix=".smt2", delete=False) as f:
        f.write(q)
    try:
        p = subprocess.run(cmd + [f.name], capture_output=True, text=True, timeout=30)
    finally:
        os.unlink(f.name)
    m = halmos_var_pattern.search(p.stdout)
    return (m.group(4) if m else None), p.stdout


# ----------------------------------------------------------------- X-e2e

CANNED = {
    "sat_valid": "sat\n(\n  (define-fun p_x_uint256_00 () (_ BitVec 256)\n    #x000000000000000000000000000000000000000000000000000000000000002a)\n)\n",
    "sat_abstract": "sat\n(\n  (define-fun p_x_uint256_00 () (_ BitVec 256) #b0101)\n  (define-fun f_evm_bvmul_256 ((x!0 (_ BitVec 256)) (x!1 (_ BitVec 256))) (_ BitVec 256) #x00)\n)\n",
    "sat_exp": "sat\n((define-fun p_x_uint256_00 () (_ BitVec 256) (_ bv7 256)) (define-fun f_evm_exp_256 ((a (_ BitVec 256)) (b (_ BitVec 256))) (_ BitVec 256) (_ bv1 256)))\n",
    "sat_empty": "sat\n",
    "unsat": "unsat\n(error \"line 9: model is not available\")\n",
    "unknown": "unknown\n",
    "garbage": "(error \"boom\")\n",
    "empty": "",
    "satx": "satisfiable\n",
    "sat_noeol": "sat",
}


def res_code(r):
    import z3

    if isinstance(r, str):
        return 3
    return 1 if r == z3.sat else 0 if r == z3.unsat else 2


def run_scripted(case, td):
    """case = dict(out1, out2, core_hit, is_refined, changes, cache).  Runs the real
    solve_end_to_end with a solver command that prints canned outputs."""
    from pathlib import Path as P
    from types import SimpleNamespace as NS

    import z3
    import halmos.solve as S
    from halmos.sevm import SMTQuery

    d = tempfile.mkdtemp(dir=td)
    (P(d) / "out1").write_text(CANNED[case["out1"]])
    (P(d) / "out2").write_text(CANNED[case["out2"]])
    sh = P(d) / "solver.sh"
    sh.write_text(f'#!/bin/sh\nif [ -f {d}/count ]; then cat {d}/out2; else cat {d}/out1; fi\necho x >> {d}/count\n')
    sh.chmod(sh.stat().st_mode | stat.S_IEXEC)
    decl = "(declare-fun f_evm_bvmul_256 ((_ BitVec 256) (_ BitVec 256)) (_ BitVec 256))\n" if case["changes"] else "(declare-fun f_evm_exp_256 ((_ BitVec 256) (_ BitVec 256)) (_ BitVec 256))\n"
    q = SMTQuery(decl + "(declare-fun p_x_uint256_00 () (_ BitVec 256))\n(assert true)\n", ["11", "12", "13"])
    sctx = S.SolvingContext(dump_dir=P(d))
    if case["core_hit"]:
        sctx.unsat_cores.append(["12", "11"])
    sctx.unsat_cores.append(["11", "99"])
    args = NS(verbose=0, cache_solver=case["cache"], resolved_solver_command=["/bin/sh", str(sh)], solver_timeout_assertion=20)
    ctx = S.PathContext(args=args, path_id=5, solving_ctx=sctx, query=q, is_refined=case["is_refined"])
    try:
        out = S.solve_end_to_end(ctx)
    except Exception as e:  # noqa: BLE001
        return {"exc": f"{type(e).__name__}: {e}"}
    finally:
        try:
            sctx.executor.shutdown(wait=True)
        except Exception:  # noqa: BLE001
            pass
    cnt = (P(d) / "count").read_text().count("x") if (P(d) / "count").exists() else 0
    res = res_code(out.result)
    obs = {"result": res, "valid": (1 if out.model.is_valid else 0) if out.model is not None else 0,
           "source": 0 if out.model is None else cnt,
           "runs": cnt, "model": None if out.model is None else {k: v.value for k, v in out.model.model.items()}}
    shutil.rmtree(d, ignore_errors=True)
    return obs


def signed(n, x):
    return x if x < (1 << (n - 1)) else x - (1 << n)


def tdiv(a, b):
    q = abs(a) // abs(b)
    return q if (a < 0) == (b < 0) else -q


def exact(op, x, y, w=256):
    """EVM / Yellow Paper value of the operation at width w (x / 0 = x % 0 = 0)"""
    m = 1 << w
    if op == "mul":
        return (x * y) % m
    if op == "exp":
        return pow(x, y, m)
    if y == 0:
        return 0
    if op == "div":
        return x // y
    if op == "mod":
        return x % y
    sx, sy = signed(w, x), signed(w, y)
    if op == "sdiv":
        return tdiv(sx, sy) % m
    return (sx - sy * tdiv(sx, sy)) % m


def smtlib_total(op, x, y, w=256):
    """value of the bare SMT-LIB operator (bvudiv x 0 = ~0, bvurem x 0 = x, bvsdiv x 0 = 1 / ~0,
    bvsrem x 0 = x): what a rewriting that forgets the EVM's zero case would make satisfiable"""
    m = 1 << w
    if y != 0 or op in ("mul", "exp"):
        return exact(op, x, y, w)
    if op == "div":
        return m - 1
    if op == "sdiv":
        return 1 if signed(w, x) < 0 else m - 1
    return x


def gen_real_cases(tier, r):
    cases = []
    n = 10 if tier == "quick" else 80
    ops = ["mul", "div", "mod", "sdiv", "smod"]
    for i in range(n):
        op = ops[i % len(ops)]
        big = r.random() < 0.4
        x0 = r.randrange(1 << 256) if big else r.randrange(1, 1 << 16)
        y0 = r.choice([0, 1, 2, 3, 7, 255, r.randrange(1, 1 << 12), (1 << 256) - r.randrange(1, 9)])
        # a free operand only where the solver can find it quickly
        pin = "both" if (big or y0 >= (1 << 200)) else r.choice(["x", "y", "both"])
        if op in ("div", "mod", "sdiv", "smod") and pin == "x":
            pin = "y"
        # quick tier: z3 (seconds per 256-bit product / quotient) on two of the ten, yices on the rest
        solver = ["z3", "yices"][i % 2] if tier != "quick" else ("z3" if i in (0, 3) else "yices")
        if solver == "z3" and op != "mul":
            pin = "both"      # z3 bit-blasts a 256-bit division with a free operand for tens of seconds
        cases.append({"op": op, "x0": x0, "y0": y0, "pin": pin, "r": exact(op, x0, y0), "solver": solver, "cache": i % 3 == 0})
    cases.append({"op": "exp", "x0": 3, "y0": 2, "pin": "both", "r": 9, "solver": "z3", "cache": False})
    cases.append({"op": "exp", "x0": 3, "y0": 2, "pin": "x", "r": 9, "solver": "yices", "cache": False})
    # first answer sat (abstraction as a free function), refined query unsat: 2 * 3 = 7 has no model
    cases.append({"op": "mul", "x0": 2, "y0": 3, "pin": "both", "r": 7, "solver": "z3", "cache": True})
    cases.append({"op": "div", "x0": 7, "y0": 0, "pin": "both", "r": 1, "solver": "yices", "cache": False})
    # every refinable abstraction at every width sevm declares it (ADDMOD / MULMOD use 264 / 512 bits):
    # a zero divisor / modulus with the result the bare SMT-LIB operator would give (no EVM model
    # exists, so no valid counterexample may come out), and the EVM result (must end valid)
    wide = [("div", 256), ("mod", 256), ("sdiv", 256), ("smod", 256), ("mod", 264), ("mod", 512), ("mul", 512)]
    k = 0
    for op, w in wide:
        reps = 1 if tier == "quick" else 6
        for _ in range(reps):
            x0 = r.choice([r.randrange(1, 1 << 16), r.randrange(1 << (w - 1), 1 << w)])
            ys = ([0] if op != "mul" else []) + ([r.choice([1, 3, 7, r.randrange(1, 1 << 12)])] if (w != 256 or tier != "quick") else [])
            for y0 in ys:
                for rr in sorted({exact(op, x0, y0, w), smtlib_total(op, x0, y0, w)}):
                    k += 1
                    # z3 only where it answers at once (256-bit div / sdiv); yices everywhere else
                    solver = "z3" if (w == 256 and op in ("div", "sdiv") and k % 2 == 0) else "yices"
                    cases.append({"op": op, "w": w, "x0": x0, "y0": y0, "pin": "both", "r": rr, "solver": solver, "cache": k % 4 == 0})
    # narrow declared types in a 256-bit word (a static calldata argument read without ABI validation):
    # the failing values do not fit the declared type; the PRINTED counterexample must reproduce too
    narrow = [("uint8", 8), ("address", 160), ("bool", 1), ("int8", 8), ("bytes4", 32), ("uint160", 160), ("uint248", 248)]
    for i, (ty, d) in enumerate(narrow if tier != "quick" else r.sample(narrow, 4)):
        op = ["mul", "div", "mod"][i % 3]
        x0 = (r.randrange(1, 1 << (256 - d)) << d) | r.randrange(1 << d)
        y0 = (r.randrange(1, 1 << 16) << 160) | r.randrange(1, 1 << 12)
        k += 1
        cases.append({"op": op, "x0": x0, "y0": y0, "pin": "both", "r": exact(op, x0, y0), "solver": "yices",
                      "cache": False, "xt": ty, "yt": "address"})
    # near misses with a non-zero divisor
    for op in (["div", "smod"] if tier == "quick" else ops):
        x0, y0 = r.randrange(1 << 200, 1 << 256), r.randrange(2, 1 << 12)
        k += 1
        cases.append({"op": op, "x0": x0, "y0": y0, "pin": "both", "r": (exact(op, x0, y0) + 1) % (1 << 256), "solver": "yices", "cache": False})
    return cases


def real_prepare(case):
    """the z3 side (not thread safe): the Path and its query -> (args, SMTQuery)"""
    from types import SimpleNamespace as NS

    import z3
    from halmos.sevm import Path, f_div, f_exp, f_mod, f_mul, f_sdiv, f_smod
    from halmos.solvers import SOLVERS
    from halmos.utils import create_solver

    w = case.get("w", 256)
    x = z3.BitVec(f"p_x_{case.get('xt', f'uint{w}')}_00", w)
    y = z3.BitVec(f"p_y_{case.get('yt', f'uint{w}')}_01", w)
    f = {"mul": f_mul.get(w), "div": f_div, "mod": f_mod.get(w), "sdiv": f_sdiv, "smod": f_smod, "exp": f_exp}[case["op"]]
    path = Path(create_solver())
    path.append(f(x, y) == case["r"])
    if case["pin"] in ("x", "both"):
        path.append(x == case["x0"])
    if case["pin"] in ("y", "both"):
        path.append(y == case["y0"])
    cmd = [Z3] if case["solver"] == "z3" else [YICES] + list(SOLVERS["yices"].arguments)
    args = NS(verbose=0, cache_solver=case["cache"], resolved_solver_command=cmd, solver_timeout_assertion=25)
    return args, path.to_smt2(args)


def run_real(case, td, shared=None, prepared=None):
    """shared: a dump directory that already served other queries with the same path id (as with
    --dump-smt-directory); a case that carries "same_dir_before" re-creates that history first.
    prepared: real_prepare(case) made beforehand (this part only runs processes and regexes, so
    groups of cases may run in threads)."""
    from pathlib import Path as P

    import halmos.solve as S

    if shared is None and case.get("same_dir_before"):
        shared = tempfile.mkdtemp(dir=td)
        for prev in case["same_dir_before"]:
            run_real(prev, td, shared)
    args, query = prepared if prepared is not None else real_prepare(case)
    d = shared or tempfile.mkdtemp(dir=td)
    f1, f2 = P(d) / "1.smt2.out", P(d) / "1.refined.smt2.out"

    def stamp(pth):
        return (pth.stat().st_mtime_ns, pth.read_text()) if pth.exists() else None

    b1, b2 = stamp(f1), stamp(f2)
    sctx = S.SolvingContext(dump_dir=P(d))
    ctx = S.PathContext(args=args, path_id=1, solving_ctx=sctx, query=query)
    out = S.solve_end_to_end(ctx)
    try:
        sctx.executor.shutdown(wait=True)
    except Exception:  # noqa: BLE001  (shutdown re-raises a solver timeout; not this property)
        pass
    a1, a2 = stamp(f1), stamp(f2)
    o1 = a1[1] if (a1 is not None and a1 != b1) else None      # written by this solve
    o2 = a2[1] if (a2 is not None and a2 != b2) else None
    res = res_code(out.result)
    obs = {"result": res, "valid": (1 if out.model.is_valid else 0) if out.model is not None else 0,
           "source": 0 if out.model is None else (o1 is not None) + (o2 is not None),
           "runs": (o1 is not None) + (o2 is not None), "out1": o1, "out2": o2,
           "model": None if out.model is None else {k: v.value for k, v in out.model.model.items()},
           "changes": ctx.refine().query.smtlib != ctx.query.smtlib}
    if out.model is not None:
        from harness import c04_render

        back = c04_render.read_cex(str(out.model))     # what the user reads after `Counterexample:`
        obs["printed"] = None if back is None else dict(back)
        obs["printed_text"] = str(out.model)[:400]
    if shared is None:
        shutil.rmtree(d, ignore_errors=True)
    return obs


# ----------------------------------------------------------------- X-fs (a dump directory that outlives a query)

FS_SOLVER = r"""#!/bin/sh
# scripted solver that answers by the `; key=K` line of the file it is HANDED (K.r when the file
# defines an f_evm_ function, i.e. is a refined query); shell builtins only, to keep it cheap
D='@D@'
f="$1"
if [ ! -f "$f" ]; then echo "${f##*/} NOFILE" >> "$D/log"; echo '(error "no file")'; exit 0; fi
k=""; r=""; seen=""
while IFS= read -r line || [ -n "$line" ]; do
  case "$line" in
    "; key="*) if [ -z "$seen" ]; then k="${line#; key=}"; seen=1; fi;;
    *"(define-fun f_evm_"*) r=".r";;
  esac
done < "$f"
k="$k$r"
echo "${f##*/} $k" >> "$D/log"
if [ -f "$D/ans/$k.sleep" ]; then sleep 4; fi
if [ -f "$D/ans/$k.out" ]; then
  cat "$D/ans/$k.out"
  if [ -f "$D/ans/$k.err" ]; then cat "$D/ans/$k.err" >&2; fi
  if [ -f "$D/ans/$k.rc" ]; then exit 1; fi
else
  echo '(error "no answer")'
fi
"""

FS_RESULT = {"valid": 1, "abstract": 1, "unsat": 0, "unknown": 2, "garbage": 3, "timeout": 2}


def fs_answer(kind, v):
    """-> (stdout, stderr) of the scripted solver for an answer kind and model value v"""
    if kind == "valid":
        return (f"sat\n(\n  (define-fun p_x_uint256_00 () (_ BitVec 256) #x{v:064x})\n)\n", "")
    if kind == "abstract":
        return (f"sat\n(\n  (define-fun p_x_uint256_00 () (_ BitVec 256) #x{v:064x})\n"
                "  (define-fun f_evm_bvmul_256 ((x!0 (_ BitVec 256)) (x!1 (_ BitVec 256))) (_ BitVec 256) #x00)\n)\n", "")
    if kind == "unsat":
        return ("unsat\n(error \"line 9: model is not available\")\n", "")
    if kind == "unknown":
        return ("unknown\n", "")
    if kind == "garbage":
        return ("(error \"boom\")\n", f"boom {v}\n")
    return ("", "")  # timeout: never printed


def fs_smtlib(key, changes):
    decl = ("(declare-fun f_evm_bvmul_256 ((_ BitVec 256) (_ BitVec 256)) (_ BitVec 256))\n" if changes
            else "(declare-fun f_evm_exp_256 ((_ BitVec 256) (_ BitVec 256)) (_ BitVec 256))\n")
    return f"; key={key}\n" + decl + "(declare-fun p_x_uint256_00 () (_ BitVec 256))\n(assert true)\n"


def gen_sessions(tier, r):
    """A session = one dump directory (as with --dump-smt-directory: shared by the overloads
    of a test, the probes of an invariant test, successive runs) and a sequence of path
    conditions solved in it.  Path ids restart / repeat, so files named like the current
    query's are usually there already, left by a DIFFERENT query."""
    n = 32 if tier == "quick" else 300
    sessions = []
    for si in range(n):
        pre = []
        if r.random() < 0.6:  # leftovers of an earlier run
            for j in range(r.randint(1, 3)):
                pid = r.choice([0, 1, 2])
                inf = r.choice(["", "", ".refined"])
                key = f"old{si}x{j}"
                kind = r.choice(["valid", "valid", "unsat", "abstract"])
                style = r.choice(["dump", "dump", "empty", "nokey"])
                content = {"dump": "(set-logic QF_AUFBV)\n" + fs_smtlib(key, False) + "\n(check-sat)\n(get-model)\n",
                           "empty": "", "nokey": "(set-logic QF_AUFBV)\n(assert false)\n(check-sat)\n"}[style]
                pre.append({"name": f"{pid}{inf}.smt2", "content": content, "key": key, "kind": kind, "v": r.randrange(1 << 64)})
                if r.random() < 0.5:
                    pre.append({"name": f"{pid}{inf}.smt2.out", "content": fs_answer(kind, 7)[0], "key": None})
                if r.random() < 0.2:
                    pre.append({"name": f"{pid}{inf}.smt2.err", "content": "old error\n", "key": None})
        steps = []
        pid = r.choice([0, 1, 2])
        for j in range(r.randint(2, 5)):
            if r.random() < 0.35:
                pid = r.choice([0, 1, 2, 10])
            k1 = r.choice(["valid", "valid", "abstract", "abstract", "abstract", "unsat", "unknown", "garbage"])
            if tier != "quick" and r.random() < 0.03:
                k1 = "timeout"
            steps.append({"key": f"s{si}q{j}", "path_id": pid, "is_refined": r.random() < 0.15, "cache": r.random() < 0.4,
                          "changes": r.random() < 0.75, "core_hit": r.random() < 0.08,
                          "k1": k1, "v1": r.randrange(1 << 64),
                          "k2": r.choice(["valid", "valid", "abstract", "unsat", "unknown", "garbage"]), "v2": r.randrange(1 << 64)})
        sessions.append({"pre": pre, "steps": steps})
    if tier == "quick":  # one answer that does not arrive in time
        sessions.append({"pre": [{"name": "0.smt2", "content": "(set-logic QF_AUFBV)\n" + fs_smtlib("oldT", False) + "\n(check-sat)\n(get-model)\n",
                                  "key": "oldT", "kind": "valid", "v": 5}],
                         "steps": [{"key": "T0", "path_id": 0, "is_refined": False, "cache": False, "changes": True, "core_hit": False,
                                    "k1": "timeout", "v1": 1, "k2": "valid", "v2": 2},
                                   {"key": "T1", "path_id": 0, "is_refined": False, "cache": False, "changes": True, "core_hit": False,
                                    "k1": "abstract", "v1": 3, "k2": "valid", "v2": 4}]})
    return sessions


def fs_spec(step):
    """What the property demands of one solve, from the answers the solver gives for THIS query:
    -> dict(result, valid, runs, value, keys) (value: reported value of p_x or None; keys: the
    queries the solver must have been asked, in order)."""
    key = step["key"]
    if step["core_hit"]:
        return {"result": 0, "valid": 0, "runs": 0, "value": None, "keys": []}
    k1 = step["k1"]
    if k1 == "abstract" and not step["is_refined"] and step["changes"]:
        k2 = step["k2"]
        return {"result": FS_RESULT[k2], "valid": int(k2 == "valid"), "runs": 2,
                "value": step["v2"] if k2 in ("valid", "abstract") else None, "keys": [key, key + ".r"]}
    return {"result": FS_RESULT[k1], "valid": int(k1 == "valid"), "runs": 1,
            "value": step["v1"] if k1 in ("valid", "abstract") else None, "keys": [key]}


def read_dir(d):
    return {p.name: p.read_text() for p in sorted(d.iterdir()) if p.is_file()}


def run_session(sess, td):
    """Runs the real solve_end_to_end for every step of the session in ONE dump directory.
    -> list of observations (one per step)."""
    from pathlib import Path as P
    from types import SimpleNamespace as NS

    import halmos.solve as S
    from halmos.sevm import SMTQuery

    base = P(tempfile.mkdtemp(dir=td))
    d = base / "dump"
    d.mkdir()
    (base / "ans").mkdir()
    sh = base / "solver.sh"
    sh.write_text(FS_SOLVER.replace("@D@", str(base)))
    sh.chmod(sh.stat().st_mode | stat.S_IEXEC)

    def register(key, kind, v):
        if kind == "timeout":
            (base / "ans" / f"{key}.sleep").write_text("")
            return
        o, e = fs_answer(kind, v)
        (base / "ans" / f"{key}.out").write_text(o)
        if e:
            (base / "ans" / f"{key}.err").write_text(e)
        if kind == "garbage":   # solvers exit with a non-zero status on an error
            (base / "ans" / f"{key}.rc").write_text("1")

    for f in sess["pre"]:
        (d / f["name"]).write_text(f["content"])
        if f.get("key"):
            register(f["key"], f["kind"], f["v"])
    obs = []
    for st in sess["steps"]:
        register(st["key"], st["k1"], st["v1"])
        register(st["key"] + ".r", st["k2"], st["v2"])
        before = read_dir(d)
        log0 = (base / "log").read_text().splitlines() if (base / "log").exists() else []
        q = SMTQuery(fs_smtlib(st["key"], st["changes"]), ["11", "12", "13"])
        sctx = S.SolvingContext(dump_dir=d)
        if st["core_hit"]:
            sctx.unsat_cores.append(["12", "11"])
        args = NS(verbose=0, cache_solver=st["cache"], resolved_solver_command=["/bin/sh", str(sh)],
                  solver_timeout_assertion=1.0 if st["k1"] == "timeout" else 20)
        ctx = S.PathContext(args=args, path_id=st["path_id"], solving_ctx=sctx, query=q, is_refined=st["is_refined"])
        o = {"before": before, "refined_smtlib": ctx.refine().query.smtlib}
        try:
            out = S.solve_end_to_end(ctx)
            o.update({"result": res_code(out.result), "valid": (1 if out.model.is_valid else 0) if out.model is not None else 0,
                      "model": None if out.model is None else {k: v.value for k, v in out.model.model.items()}})
        except Exception as e:  # noqa: BLE001
            o["exc"] = f"{type(e).__name__}: {e}"
        finally:
            try:
                sctx.executor.shutdown(wait=True)
            except Exception:  # noqa: BLE001
                pass
        log1 = (base / "log").read_text().splitlines() if (base / "log").exists() else []
        o["asked"] = [ln.split(" ", 1) for ln in log1[len(log0):]]   # [file name, key of its content]
        o["after"] = read_dir(d)
        obs.append(o)
    shutil.rmtree(base, ignore_errors=True)
    return obs


def S_(s):
    return [len(s)] + txt(s)


def fs_model_call(sess, st, o):
    """the same step for the extracted model: directory before, answers registered so far"""
    answers = []
    for f in sess["pre"]:
        if f.get("key"):
            answers.append((f["key"], f["kind"], f["v"]))
    for s2 in sess["steps"]:
        answers.append((s2["key"], s2["k1"], s2["v1"]))
        answers.append((s2["key"] + ".r", s2["k2"], s2["v2"]))
        if s2 is st:
            break
    a = [int(st["core_hit"]), int(st["is_refined"]), int(st["cache"]), st["path_id"]]
    a += S_(fs_smtlib(st["key"], st["changes"])) + S_(o["refined_smtlib"])
    a += [3] + S_("11") + S_("12") + S_("13")
    a += [len(o["before"])]
    for name, content in o["before"].items():
        a += S_(name) + S_(content)
    a += [len(answers)]
    for key, kind, v in answers:
        so, se = fs_answer(kind, v)
        a += S_(key) + [1 if kind == "timeout" else 0] + S_(so) + S_(se)
    return ("c04_fs", a)


def fs_model_decode(mo):
    """-> dict(result, valid, runs, source, after)"""
    if not mo or len(mo) < 4:
        return None
    res, valid, runs = mo[0], mo[1], mo[2]
    i = 3

    def get():
        nonlocal i
        n = mo[i]
        s = untxt(mo[i + 1:i + 1 + n])
        i += 1 + n
        return s

    src = get()
    n = mo[i]
    i += 1
    after = {}
    for _ in range(n):
        name = get()
        after[name] = get()
    return {"result": res, "valid": valid, "runs": runs, "source": src, "after": after}


# ----------------------------------------------------------------- run

def run(rep, tier):
    import logging

    logging.getLogger("halmos").setLevel(logging.CRITICAL)  # scripted solver answers are deliberately odd
    import time

    phases, t_last = {}, [time.time()]

    def phase(name):
        phases[name] = round(time.time() - t_last[0], 1)
        t_last[0] = time.time()

    b = common.build_property(PID, TRANSLATORS)
    common.standard_obligations(rep, PID, b)
    exe = None
    if b["make_ok"]:
        exe, log = common.build_driver(PID)
        rep.obligation("extraction of Model/SolveModel.v entry points + OCaml driver build", exe is not None, "" if exe else log[-800:])
        if exe is None:
            rep.fail("broken-tie", "extracted model driver does not build: " + log[-400:], case={})
    m = Model(exe) if exe is not None else None
    if m is not None and not all(t.get("ok") for t in b["translators"]):
        # a translator no longer understands the source (reported by standard_obligations): coq/Gen is
        # stale, so the extracted model is not a model of THIS source; keep to spec-vs-implementation
        m = None
    r = common.rng(PID)
    nfail = [0]
    # development aid: VERIF_C04_ONLY=fs,l3 restricts the correspondence run to some families
    # (the evidence then says so); the obligations are always checked
    only = [x for x in os.environ.get("VERIF_C04_ONLY", "").split(",") if x]

    def fam_on(fam):
        return not only or fam in only

    nkind = {}

    def fail(kind, what, case, **kw):
        # at most 12 failing inputs and 6 broken ties are written out (one kind must not crowd out the other)
        nfail[0] += 1
        nkind[kind] = nkind.get(kind, 0) + 1
        what_key = (kind, (kw.get("sig") or {}).get("what"))
        nkind[what_key] = nkind.get(what_key, 0) + 1
        cap = 12 if kind == "failing-input" else 6
        # ... and at most 4 of one signature while other signatures may still turn up
        if nkind[what_key] <= (4 if what_key[1] else cap) and nkind.get(("written", kind), 0) < cap:
            nkind[("written", kind)] = nkind.get(("written", kind), 0) + 1
            rep.fail(kind, what, case=case, **kw)

    phase("build")
    # ---- X-const
    cases = const_cases(tier, r) if fam_on("const") else []
    mres = (m.parallel_batch([("c04_parse_const", txt(s)) for s, _ in cases]) if cases else []) if m else None
    for i, (s, want) in enumerate(cases):
        got = real_parse_const(s)
        form = "malformed" if want is None else ("#b" if s.startswith("#b") else "#x" if s.startswith("#x") else "bv-token" if s.startswith("bv") else "(_ bvN W)")
        rep.count("const_syntax", form)
        rep.case({"const": s if len(s) < 90 else s[:40] + "..." + common.case_hash(s)}, nontrivial=want is not None and want > 9)
        if want is not None and got != want:
            fail("failing-input", f"parse_const_value({s[:80]!r}) = {got}, the solver meant {want}", {"const": s, "implementation": got, "spec": want}, sig={"what": "const-value"})
        elif mres is not None:
            mo = mres[i]
            mv = None if (mo is None or mo[0] == 0) else mo[1]
            if mv != got:
                fail("broken-tie", f"parse_const_value({s[:80]!r}): implementation {got}, model {mv}", {"const": s, "implementation": got, "model": mv})

    phase("const")
    # ---- X-model
    outs = model_outputs(tier, r) if fam_on("model") else []
    calls, meta = [], []
    for k, o in enumerate(outs):
        got = real_parse_model(o["text"])
        o["got"] = got
        rep.case({"model_output": o["text"] if len(o["text"]) < 400 else common.case_hash(o["text"])}, nontrivial=True)
        if isinstance(got, str):
            # parse_model_str re-raises on an entry it matched but cannot read; by the pattern that cannot happen
            fail("failing-input", f"parse_model_str raised {got} on {o['text'][:200]!r}", {"model_output": o["text"]}, sig={"what": "model-parse-raises"})
            continue
        last = {}
        for e in o["entries"]:
            last[e["name"]] = e  # later entries overwrite earlier ones (dict)
        for name, e in last.items():
            rep.count("model_entry", ("recognised-name" if spec_name_ok(name) else "other-name") + ("/quoted" if e["quoted"] else ""))
            want = [e["w"], e["intended"]] if (spec_name_ok(name) and e["intended"] is not None) else None
            have = got.get(name)
            if want != have:
                fail("failing-input", f"parse_model_str reports {name} = {have}, the solver output says {want} (entry {e})", {"model_output": o["text"], "name": name}, sig={"what": "model-value"})
            calls.append(("c04_parse_var", [len(name)] + txt(name) + [len(str(e["w"]))] + txt(str(e["w"])) + txt(e["value"])))
            meta.append((k, name, have))
    if m is not None and calls:
        for (k, name, have), mo in zip(meta, m.parallel_batch(calls)):
            mv = None if (mo is None or mo[0] == 0) else [mo[1], mo[2]]
            if mv != have:
                fail("broken-tie", f"parse_model_str entry {name}: implementation {have}, model {mv} on {outs[k]['text'][:300]!r}", {"model_output": outs[k]["text"], "name": name})

    phase("model")
    # ---- X-render: the printed counterexample denotes the solver's assignment
    from harness import c04_render

    rmodels = c04_render.gen_models(tier, r) if fam_on("render") else []
    rcalls, rmeta = [], []
    for k, vs in enumerate(rmodels):
        syntax = "xbd"[k % 3]
        case = {"render": {"vars": vs, "syntax": syntax}}
        above = any(v["kind"] == "above-declared-width" for v in vs)
        rep.case({"render": common.case_hash(case)}, nontrivial=above)
        for v in vs:
            rep.count("render_var", v["kind"])
        if not vs:
            rep.count("render_var", "empty-model")
        try:
            o = c04_render.run_model(vs, syntax)
        except Exception as e:  # noqa: BLE001
            fail("failing-input", f"printing the counterexample {[(v['name'], v['value']) for v in vs][:3]} raised {type(e).__name__}: {e}", case, sig={"what": "cex-print-raises"})
            continue
        want = sorted((v["name"], v["value"]) for v in vs)
        back = c04_render.read_cex(o["str"])
        if o["fmt"] != "Counterexample: " + o["str"]:
            fail("failing-input", f"f\"Counterexample: {{model}}\" is not str(model): {o['fmt'][:200]!r} vs {o['str'][:200]!r}", case, sig={"what": "printed-cex-differs"})
        elif back is None:
            fail("failing-input", f"the printed counterexample is not readable as `name = 0x<hex>` lines: {o['str'][:300]!r}", case, sig={"what": "printed-cex-differs"})
        elif sorted(back) != want:
            diff = [(n, hex(dict(back)[n]) if n in dict(back) else 'not printed', hex(x)) for n, x in want if dict(back).get(n) != x][:3]
            fail("failing-input", f"the printed counterexample (marked valid) is not the solver's model: (variable, printed, solver's value) = {diff}; "
                 f"printed names {sorted(n for n, _ in back)[:6]}, model names {[n for n, _ in want][:6]}; text {o['str'][:200]!r}", case, sig={"what": "printed-cex-differs"})
        rcalls.append(c04_render.model_call(vs, o["parsed"]))
        rmeta.append((case, o, want))
    if m is not None and rcalls:
        for (case, o, want), mo in zip(rmeta, m.parallel_batch(rcalls)):
            dec = c04_render.model_decode(mo)
            if dec is None or dec[0] != o["str"].encode() or dec[1] is None or sorted(dec[1]) != want:
                fail("broken-tie", f"str(PotentialModel): implementation {o['str'][:200]!r}, model {None if dec is None else dec[0][:200]!r}"
                     f"{'' if dec is None or dec[1] is not None else ' (the Spec reader rejects the model text)'}", case)

    phase("render")
    # ---- X-print
    from halmos.solvers import SOLVERS

    solver_cmds = [("z3", [Z3], None), ("yices-halmos-args", [YICES] + list(SOLVERS["yices"].arguments), 3),
                   ("yices-smt2-format", [YICES, "--smt2-model-format"], 0)]
    pcases = [(w, n) for w in (8, 160, 256, 264) for n in (0, 1, (1 << w) - 1, r.randrange(1 << w))]
    if tier != "quick":
        pcases += [(w, r.randrange(1 << w)) for w in (1, 3, 7, 8, 9, 64, 160, 255, 256, 257, 264, 512) for _ in range(8)]
    pcalls, pmeta = [], []
    if not fam_on("print"):
        pcases = []
    for sname, cmd, syn in solver_cmds:
        for w, n in pcases:
            vt, stdout = solver_value_text(cmd, w, n)
            rep.count("solver_print", sname)
            rep.case({"print": [sname, w, n]}, nontrivial=n > 1)
            if vt is None:
                fail("failing-input", f"{sname} model for a {w}-bit variable is not recognised by halmos_var_pattern: {stdout[:200]!r}", {"print": [sname, w, n]}, sig={"what": "solver-syntax"})
                continue
            if real_parse_const(vt) != n:
                fail("failing-input", f"{sname} printed {vt[:80]!r} for the value {n}; parse_const_value gives {real_parse_const(vt)}", {"print": [sname, w, n], "text": vt}, sig={"what": "const-value"})
            s_ = syn if syn is not None else (1 if w % 4 == 0 else 0)
            digits = w if s_ == 0 else (w // 4 if s_ == 1 else w)
            pcalls.append(("c04_print", [s_, digits, n]))
            pmeta.append((sname, w, n, " ".join(vt.split())))
    if m is not None and pcalls:
        for (sname, w, n, vt), mo in zip(pmeta, m.parallel_batch(pcalls)):
            if mo is None or untxt(mo) != vt:
                fail("broken-tie", f"{sname} prints {vt[:80]!r} for ({w} bits, {n}); the Spec printer gives {None if mo is None else untxt(mo)[:80]!r}", {"print": [sname, w, n]})

    phase("print")
    # ---- X-e2e scripted
    td = tempfile.mkdtemp(prefix="c04_")
    keys = list(CANNED)
    scripted = []
    firsts = keys
    seconds = ["sat_valid", "sat_abstract", "unsat", "unknown", "garbage"] if tier == "quick" else keys
    for o1 in firsts:
        for o2 in (seconds if o1 in ("sat_abstract", "sat_exp") else ["sat_valid"]):
            for core_hit, is_refined, changes in itertools.product((False, True), repeat=3):
                if tier == "quick" and core_hit and (is_refined or o1 not in ("sat_abstract", "unsat")):
                    continue
                scripted.append({"out1": o1, "out2": o2, "core_hit": core_hit, "is_refined": is_refined, "changes": changes, "cache": core_hit or r.random() < 0.3})
    calls = []
    obs_s = []
    if not fam_on("scripted"):
        scripted = []
    for c in scripted:
        obs_s.append(run_scripted(c, td))
        calls.append(("c04_e2e", [int(c["core_hit"]), int(c["is_refined"]), int(c["changes"]), len(CANNED[c["out1"]])] + txt(CANNED[c["out1"]]) + txt(CANNED[c["out2"]])))
    mres = (m.parallel_batch(calls) if calls else []) if m is not None else None
    for i, (c, o) in enumerate(zip(scripted, obs_s)):
        rep.count("scripted_first_answer", c["out1"])
        rep.case({"scripted": c}, nontrivial=c["out1"].startswith("sat"))
        if "exc" in o:
            fail("failing-input", f"solve_end_to_end raised {o['exc']} on {c}", {"scripted": c}, sig={"what": "e2e-raises"})
            continue
        # spec: valid only if the text the model was parsed from has no f_evm_; at most one refinement
        src = CANNED[c["out1"]] if o["source"] == 1 else CANNED[c["out2"]] if o["source"] == 2 else ""
        if o["valid"] and "f_evm_" in src:
            fail("failing-input", f"a model that mentions an abstraction was labelled valid on {c}: {o}", {"scripted": c, "implementation": o}, sig={"what": "valid-with-abstraction"})
        if o["runs"] > 2 or (c["core_hit"] and o["runs"] != 0):
            fail("failing-input", f"{o['runs']} solver runs on {c}", {"scripted": c, "implementation": o}, sig={"what": "solver-runs"})
        if mres is not None:
            mo = mres[i]
            want = None if mo is None else {"result": mo[0], "valid": mo[1], "source": mo[2], "runs": mo[3]}
            have = {k: o[k] for k in ("result", "valid", "source", "runs")}
            if want != have:
                fail("broken-tie", f"solve_end_to_end on {c}: implementation {have}, model {want}", {"scripted": c, "implementation": have, "model": want})

    phase("scripted")
    # ---- X-fs: sequences of queries solved in one dump directory
    sessions = gen_sessions(tier, r) if fam_on("fs") else []
    fcalls, fmeta = [], []
    for si, sess in enumerate(sessions):
        obs = run_session(sess, td)
        for j, (st, o) in enumerate(zip(sess["steps"], obs)):
            name = f"{st['path_id']}{'.refined' if st['is_refined'] else ''}.smt2"
            stale = name in o["before"]
            rep.count("fs_step", ("stale-file-present/" if stale else "fresh/") + st["k1"])
            case = {"session": {"pre": sess["pre"], "steps": sess["steps"][:j + 1]}}
            rep.case({"fs": common.case_hash(case)}, nontrivial=stale and not st["core_hit"])
            if "exc" in o:
                fail("failing-input", f"solve_end_to_end raised {o['exc']} in a used dump directory (step {j} of {sess['steps'][:j + 1]})", case, sig={"what": "e2e-raises"})
                continue
            sp = fs_spec(st)
            timeout = st["k1"] == "timeout"
            got_v = (o["model"] or {}).get("p_x_uint256_00")
            asked_keys = [a[1] if len(a) > 1 else "" for a in o["asked"]]
            if o["result"] == 1 and got_v != sp["value"]:
                fail("failing-input", f"the counterexample reported for query {st['key']} (valid={o['valid']}) is p_x = {got_v}, but the solver's model of THIS query is p_x = {sp['value']}; "
                     f"the solver was handed {o['asked']} (a file left in the dump directory by another query: {sorted(o['before'])})", case,
                     sig={"what": "stale-query"})
            elif (o["result"], o["valid"]) != (sp["result"], sp["valid"]):
                fail("failing-input", f"query {st['key']} in a used dump directory ended with result {o['result']} valid {o['valid']}; the solver's answers to this query give result {sp['result']} valid {sp['valid']} (solver was handed {o['asked']})", case,
                     sig={"what": "stale-query" if asked_keys != sp["keys"] else "fs-verdict"})
            elif not timeout and asked_keys != sp["keys"]:
                fail("failing-input", f"query {st['key']}: the solver was handed files holding the queries {asked_keys}, expected {sp['keys']}", case, sig={"what": "stale-query"})
            else:
                # the files left behind are those of this query (observe_at: dumped .smt2 / .smt2.out)
                for i, k in enumerate(sp["keys"]):
                    fn = name if (i == 0) else f"{st['path_id']}.refined.smt2"
                    body = o["after"].get(fn, "")
                    if f"; key={st['key']}\n" not in body or (k.endswith(".r")) != ("(define-fun f_evm_" in body):
                        fail("failing-input", f"after solving {st['key']}, {fn} does not hold this query: {body[:120]!r}", case, sig={"what": "dump-file-stale"})
                    elif not (timeout and i == 0):
                        kind, v = (st["k1"], st["v1"]) if i == 0 else (st["k2"], st["v2"])
                        if o["after"].get(fn + ".out") != fs_answer(kind, v)[0]:
                            fail("failing-input", f"after solving {st['key']}, {fn}.out is not the solver's answer to it: {o['after'].get(fn + '.out', '')[:120]!r}", case, sig={"what": "dump-file-stale"})
            fcalls.append(fs_model_call(sess, st, o))
            fmeta.append((case, st, o))
    if m is not None and fcalls:
        for (case, st, o), mo in zip(fmeta, m.parallel_batch(fcalls)):
            want = fs_model_decode(mo)
            have = {"result": o["result"], "valid": o["valid"], "runs": len(o["asked"]), "after": o["after"]}
            if want is not None and st["k1"] == "timeout":
                have["runs"] = want["runs"]
            if want is None or any(want[k] != have[k] for k in have):
                diff = None if want is None else {k: (have[k], want[k]) for k in have if want[k] != have[k]}
                fail("broken-tie", f"solve_end_to_end in a used dump directory, query {st['key']}: implementation vs model (implementation, model) differ in {str(diff)[:600]}", case)

    phase("fs")
    # ---- X-l3: python -m halmos --dump-smt-directory, runs sharing the directory, overloaded tests
    from harness import c04_l3

    for scn in (c04_l3.gen_scenarios(tier, r) if fam_on("l3") else []):
        try:
            lobs = c04_l3.run_scenario(scn)
        except Exception as e:  # noqa: BLE001
            fail("broken-tie", f"the end-to-end run with --dump-smt-directory could not be made: {type(e).__name__}: {e}", {"l3": scn})
            continue
        for k, o in enumerate(lobs):
            case = {"l3": {"runs": scn["runs"][:k + 1], "solver": scn["solver"]}}
            rep.count("l3_run", f"run {k + 1} in the same dump directory, {len(o['tests'])} tests")
            rep.case({"l3": common.case_hash(case)}, nontrivial=True)
            if o["error"] is not None:
                fail("broken-tie", f"halmos produced no report: {o['error'][-300:]}", case)
                continue
            for sig, t in o["tests"].items():
                valid = [mm for mm in t["models"] if mm["valid"]]
                wrong = [mm for mm in valid if mm["y"] != t["want"]]
                if wrong:
                    fail("failing-input", f"python -m halmos --dump-smt-directory, run {k + 1}: {sig} reports the valid counterexample {wrong[0]['names']} with y = {wrong[0]['y']}, "
                         f"but the test fails only for y = {t['want']} (files in the directory: {o['dump_files']})", case, sig={"what": "cex-not-reproducible"})
                elif t["status"] != "FAIL" or not valid:
                    fail("failing-input", f"python -m halmos --dump-smt-directory, run {k + 1}: {sig} fails for y = {t['want']} but ended {t['status']} with models {t['models']}", case,
                         sig={"what": "refinement-lost-cex"})
                else:
                    # the text on stdout is what the user replays: as many valid counterexamples as in the
                    # report, each readable, each assigning the only failing input
                    pv = [pp for pp in t.get("printed", []) if pp["valid"]]
                    rep.count("l3_printed", "valid counterexample on stdout" + ("/failing input above the declared width" if t["want"] >> int(sig.split("uint")[1].rstrip(")")) else ""))
                    badp = [pp for pp in pv if not pp["readable"] or pp["y"] != t["want"]]
                    if badp or len(pv) != len(valid):
                        fail("failing-input", f"python -m halmos, run {k + 1}: {sig} fails only for y = {hex(t['want'])}; the report holds {len(valid)} valid counterexample(s) with that value, but stdout shows "
                             f"{[('unreadable' if not pp['readable'] else None if pp['y'] is None else hex(pp['y'])) for pp in pv]} after `Counterexample:` - replaying the printed input does not fail", case,
                             sig={"what": "printed-cex-not-reproducible"})

    # ---- X-inv: python -m halmos --invariant-depth 1: the violating sequence needs a require() on an
    # argument that never reaches the state (a condition of the earlier transaction's path)
    for t in (c04_l3.gen_inv_scenarios(tier, r) if fam_on("l3") else []):
        case = {"inv": t}
        rep.count("l3_run", "invariant test, depth 1")
        rep.case({"inv": common.case_hash(case)}, nontrivial=True)
        try:
            o = c04_l3.run_inv_scenario(t)
        except Exception as e:  # noqa: BLE001
            fail("broken-tie", f"the end-to-end invariant run could not be made: {type(e).__name__}: {e}", case)
            continue
        if o["error"] is not None:
            fail("broken-tie", f"halmos produced no report: {o['error'][-300:]}", case)
            continue
        valid = [mm for mm in o["models"] if mm["valid"]]
        wrong = [mm for mm in valid if not c04_l3.inv_replay(t, mm["vals"])]
        if wrong:
            fail("failing-input", f"python -m halmos --invariant-depth 1: invariant_ok() reports the valid counterexample {wrong[0]['names']} = {wrong[0]['vals']}; replaying C.set(a, b) with these inputs "
                 f"(absent ones as 0) does not break the invariant: set() requires a = {t['a0']} and the invariant breaks only for b = {t['b0']}", case, sig={"what": "cex-not-reproducible"})
        elif o["status"] != "FAIL" or not valid:
            fail("failing-input", f"python -m halmos --invariant-depth 1: the invariant is broken by C.set({t['a0']}, {t['b0']}) but the test ended {o['status']} with models {o['models']}", case,
                 sig={"what": "refinement-lost-cex"})

    phase("l3")
    # ---- X-path: real Path objects through appends / branches / slices / extensions, then to_smt2
    from harness import c04_path

    pcs = c04_path.gen_path_cases(tier, r) if fam_on("path") else []
    pq_calls, pq_meta = [], []
    for c in pcs:
        case = {"path": c}
        try:
            o = c04_path.run_path_case(c)
        except Exception as e:  # noqa: BLE001
            fail("broken-tie", f"Path operations raised {type(e).__name__}: {e} on {c}", case)
            continue
        ntx = sum(1 for x in c["ops"] if x["op"] == "extend")
        rep.count("path_case", f"{ntx} extension(s) of a sliced path")
        rep.case({"path": common.case_hash(case)}, nontrivial=ntx > 0)
        for cache in (0, 1):
            miss = [i for i in o["assumed"] if i not in o["query"][cache]]
            if miss:
                fail("failing-input", f"Path.to_smt2(cache_solver={bool(cache)}) after {[x['op'] for x in c['ops']]}: the query does not assert the path condition(s) {miss} "
                     f"(asserted: {o['query'][cache]}; the path's own solver holds {o['solver']}): a model of it need not satisfy them", case, sig={"what": "query-lacks-condition"})
            pq_calls.append(c04_path.model_call(c, o, cache))
            pq_meta.append((case, cache, o))
    if m is not None and pq_calls:
        for (case, cache, o), mo in zip(pq_meta, m.parallel_batch(pq_calls)):
            want = c04_path.model_decode(mo)
            have = {"query": sorted(o["query"][cache]), "solver": sorted(o["solver"])}
            if want != have:
                fail("broken-tie", f"Path.to_smt2(cache_solver={bool(cache)}) on {[x['op'] for x in case['path']['ops']]}: implementation {have}, model {want}", case)

    phase("path")
    # ---- X-handler: the real _solve_end_to_end_callback on fabricated futures
    from harness import c04_handler

    hcs = c04_handler.callback_cases() if fam_on("handler") else []
    hobs = [c04_handler.run_callback(c, td) for c in hcs]
    hres = (m.parallel_batch([("c04_handler", [c["shutdown"], c["early_exit"], c04_handler.FUT_CODE[c["future"]]]) for c in hcs]) if hcs else []) if m is not None else None
    for i, (c, o) in enumerate(zip(hcs, hobs)):
        case = {"handler": c}
        rep.count("handler_case", ("after-shutdown/" if c["shutdown"] else "running/") + c["future"])
        rep.case(case, nontrivial=bool(c["shutdown"]) or c["future"].startswith("sat"))
        if o["exc"]:
            fail("failing-input", f"_solve_end_to_end_callback raised {o['exc']} on {c}", case, sig={"what": "callback-raises"})
        elif c["shutdown"] and o["verdict"]:
            fail("failing-input", f"the solver executor was already shut down (its solver processes are killed, their output may be cut) and the callback still reported a "
                 f"{'valid' if o['verdict'] == 1 else 'potentially invalid'} counterexample for a future holding {c['future']}", case, sig={"what": "reported-after-shutdown"})
        elif o["both"] or (o["verdict"] == 1) != (c["future"] == "sat_valid" and not c["shutdown"]):
            fail("failing-input", f"callback on {c}: the model went to the wrong list ({o})", case, sig={"what": "valid-with-abstraction"})
        elif hres is not None and hres[i] != [o["verdict"], o["shut"]]:
            fail("broken-tie", f"_solve_end_to_end_callback on {c}: implementation [verdict, shuts down] = {[o['verdict'], o['shut']]}, model {hres[i]}", case)

    # ---- X-kill: handle_assertion_violation -> thread pool -> solve_end_to_end -> solver processes that are
    # killed in the middle of their answer when the first valid counterexample shuts the executor down
    for scn in (c04_handler.gen_kill_scenarios(tier, r) if fam_on("kill") else []):
        case = {"kill": scn}
        try:
            o = c04_handler.run_kill_scenario(scn, td)
        except Exception as e:  # noqa: BLE001
            fail("broken-tie", f"the concurrent solving scenario could not be run: {type(e).__name__}: {e}", case)
            continue
        rep.count("kill_scenario", ("early-exit" if scn["early_exit"] else "no-early-exit") + ("/a solver was killed mid-answer" if o["killed"] else ""))
        rep.case({"kill": common.case_hash(case)}, nontrivial=bool(o["killed"]))
        allowed = c04_handler.allowed_valid(scn)
        wrong = [mm for mm in o["valid"] if mm not in allowed]
        if wrong:
            fail("failing-input", f"{'--early-exit, ' if scn['early_exit'] else ''}{len(scn['paths'])} paths solved concurrently: the counterexample {wrong[0]} was reported as valid, but it is not the model of any "
                 f"complete, abstraction-free solver answer (complete valid answers: {allowed}); solvers killed in the middle of their answer: {o['killed']}; "
                 f"answers and where they paused: {[(pp['key'], pp['k1'], pp['cut']) for pp in scn['paths']]}", case, sig={"what": "cex-from-cut-output"})

    phase("handler")
    # ---- X-e2e with the real solvers
    rcases = gen_real_cases(tier, r) if fam_on("real") else []
    calls, robs = [], []
    # three consecutive cases share one dump directory and the path id (a used directory);
    # the groups are independent of each other and run in threads (solver processes)
    from concurrent.futures import ThreadPoolExecutor

    prepared = [real_prepare(c) for c in rcases]

    def run_group(g0):
        rdir_ = tempfile.mkdtemp(dir=td)
        return [run_real(rcases[i], td, shared=rdir_, prepared=prepared[i]) for i in range(g0, min(g0 + 3, len(rcases)))]

    with ThreadPoolExecutor(4) as ex:
        all_obs = [o for part in ex.map(run_group, range(0, len(rcases), 3)) for o in part]
    group = []
    for idx, c in enumerate(rcases):
        if idx % 3 == 0:
            group = []
        o = all_obs[idx]
        robs.append(o)
        if group:
            c = rcases[idx] = dict(c, same_dir_before=list(group))
        group.append({k: v for k, v in c.items() if k != "same_dir_before"})
        rep.count("real_e2e", f"{c['op']}{c.get('w', 256)}/{c['solver']}" + ("" if c["r"] == exact(c["op"], c["x0"], c["y0"], c.get("w", 256)) else "/no-evm-model"))
        rep.case({"real": c}, nontrivial=True)
        w = c.get("w", 256)
        nx, ny = f"p_x_{c.get('xt', f'uint{w}')}_00", f"p_y_{c.get('yt', f'uint{w}')}_01"
        xs = {"x": (o["model"] or {}).get(nx), "y": (o["model"] or {}).get(ny)}
        consistent = c["r"] == exact(c["op"], c["x0"], c["y0"], w)
        if c["op"] == "exp":
            if o["result"] == 1 and o["valid"]:
                fail("failing-input", f"a counterexample that depends on the exp abstraction was labelled valid: {c} -> {o['model']}", {"real": c, "implementation": o}, sig={"what": "valid-with-abstraction"})
            if o["result"] != 1:
                fail("broken-tie", f"expected a (potentially invalid) model for {c}, got result {o['result']}", {"real": c})
        elif o["result"] == 2:
            rep.count("real_e2e", "solver-timeout")
        elif consistent:
            if not (o["result"] == 1 and o["valid"] == 1):
                fail("failing-input", f"a query that is satisfiable with exact arithmetic did not end with a valid counterexample: {c} -> result {o['result']}, valid {o['valid']}", {"real": c, "implementation": {k: o[k] for k in ('result', 'valid', 'source', 'runs')}}, sig={"what": "refinement-lost-cex"})
        else:
            if o["result"] == 1 and o["valid"]:
                fail("failing-input", f"a valid counterexample was reported for constraints that have no solution: {c} -> {o['model']}", {"real": c, "implementation": o}, sig={"what": "invalid-cex-valid"})
        if o["result"] == 1 and o["valid"] and c["op"] != "exp":
            # reproducibility on the exact constraints
            if xs["x"] is None or xs["y"] is None or exact(c["op"], xs["x"], xs["y"], w) != c["r"] \
                    or (c["pin"] in ("x", "both") and xs["x"] != c["x0"]) or (c["pin"] in ("y", "both") and xs["y"] != c["y0"]):
                fail("failing-input", f"the valid counterexample {xs} does not satisfy the exact constraints of {c}", {"real": c, "implementation": o["model"]}, sig={"what": "cex-not-reproducible"})
            else:
                # the same replay with the values the user READS (the printed text)
                pr = o.get("printed")
                ps = {"x": (pr or {}).get(nx), "y": (pr or {}).get(ny)}
                if pr is None or ps["x"] is None or ps["y"] is None or exact(c["op"], ps["x"], ps["y"], w) != c["r"] \
                        or (c["pin"] in ("x", "both") and ps["x"] != c["x0"]) or (c["pin"] in ("y", "both") and ps["y"] != c["y0"]):
                    fail("failing-input", f"the counterexample PRINTED for {c['op']}({hex(c['x0'])}, {hex(c['y0'])}) = {hex(c['r'])} (marked valid) reads x = {ps['x'] if ps['x'] is None else hex(ps['x'])}, "
                         f"y = {ps['y'] if ps['y'] is None else hex(ps['y'])}: replayed, these inputs do not satisfy the exact constraints (the parsed model does: "
                         f"x = {hex(xs['x'])}, y = {hex(xs['y'])}); printed text {o.get('printed_text')!r}", {"real": c, "printed": o.get("printed_text")}, sig={"what": "printed-cex-not-reproducible"})
        if m is not None and o["out1"] is not None and o["result"] != 2:  # a solver timeout leaves no output to replay
            calls.append(("c04_e2e", [0, 0, int(o["changes"]), len(o["out1"])] + txt(o["out1"]) + txt(o["out2"] or "")))
        else:
            calls.append(None)
    if m is not None:
        live = [c for c in calls if c is not None]
        res = iter(m.parallel_batch(live)) if live else iter([])
        for c, o, call in zip(rcases, robs, calls):
            if call is None:
                continue
            mo = next(res)
            want = None if mo is None else {"result": mo[0], "valid": mo[1], "source": mo[2], "runs": mo[3]}
            have = {k: o[k] for k in ("result", "valid", "source", "runs")}
            if want != have:
                fail("broken-tie", f"solve_end_to_end with {c['solver']} on {c}: implementation {have}, model on the recorded solver outputs {want}", {"real": c, "implementation": have, "model": want})
    shutil.rmtree(td, ignore_errors=True)
    phase("real")
    rep.coverage["phase_seconds"] = phases
    rep.coverage["traces_validated_against_impl"] = len(scripted) + len(rcases) + len(fcalls) if m is not None else 0
    return rep.finish(
        checker_cmd="make -C coq Props/C04.vo (coq_makefile, coqc 8.16.1) after regenerating coq/Gen/GenRefine.v, GenSolveFs.v, GenSolveDispatch.v, GenCexPrint.v from /repo/src/halmos/solve.py and GenHexify.v from utils.py",
        trusted_base=common.TRUSTED_BASE_COMMON + ["the z3 and yices-smt2 binaries in /venv/bin as truthful solvers in the end-to-end part of the correspondence run"],
        assumptions=ASSUMPTIONS,
        partial=PARTIAL + (f"; THIS RUN WAS RESTRICTED to the families {only} (VERIF_C04_ONLY)" if only else ""),
        rule="five case families: (1) const: value texts in the syntaxes #b / #x (both cases) / (_ bvN W) / bvN for boundary and random values up to 512 bits plus malformed texts; non-trivial = well-formed value > 9; (2) model_output: generated get-model outputs with 1-5 define-fun entries (halmos_/p_/other names, |quoted|, wrapped lines, three value syntaxes, unparsable values); (3) print: real z3 / yices-smt2 (halmos' arguments, and --smt2-model-format alone) printing the model of x = n at widths 8/160/256/264; (4) scripted: every combination of canned first/refined solver answers x unsat-core hit x already-refined x refinement-changes-text through the real solve_end_to_end; non-trivial = first answer is sat; (5) real: Path queries f_evm_op(x, y) = r with x and/or y pinned, through the real solve_end_to_end with real z3 / yices (refinement needed), incl. exp (must stay potentially invalid) and unsatisfiable-after-refinement ones; (6) fs: sessions of 2-5 queries solved in one dump directory pre-populated (60%) with files of an earlier run, path ids drawn from a small set so that names collide, scripted solver keyed by the content it is handed, first / refined answers from {valid, abstract, unsat, unknown, garbage, timeout}, unsat-core hits, already-refined contexts; non-trivial = a file named like the current query's was already there; (7) l3: python -m halmos --dump-smt-directory on fabricated contracts with overloaded tests (identity / XOR / ADD conditions, one failing input each), two runs sharing the directory; (8) inv: python -m halmos --invariant-depth 1 on a target whose setter has a require() on an argument that is not stored: every valid model is replayed concretely; (9) path: real sevm.Path objects through random appends / branches / duplicate appends / slices over state variables / extensions by a fresh path (0-3 transactions), conditions over fresh variables, then to_smt2 with and without --cache-solver: the query must entail every condition; non-trivial = at least one extension of a sliced path; (10) handler: the real _solve_end_to_end_callback for every (executor shut down?, --early-exit?, future content) combination; (11) kill: 2-4 candidates solved concurrently through the real handle_assertion_violation / thread pool / PopenExecutor with scripted solvers that pause after `sat`, after the variables, inside the f_evm_ name, after it, in the first line, with / without a SIGTERM handler, one of them producing a valid answer that (with --early-exit) shuts the executor down and kills the others; non-trivial = a solver was killed mid-answer; (12) render: solver outputs (z3 / yices syntaxes) for 0-12 (once 70) variables named p_/halmos_<var>_<type>[_uid]_NN over 21 declared types at SMT widths 256 / 264 / 512 / the declared width / long bytes, values small / random / all ones / top bit / above the declared width, through the real parse_model_str and str(PotentialModel), read back by the independent reader; non-trivial = some value has bits above the declared width; the real (5) cases include narrow declared types in 256-bit words and (7) tests whose only failing input is above the declared width, both replayed from the PRINTED text; distinct by hash of the case",
    )


def replay(rep, body):
    td = tempfile.mkdtemp(prefix="c04_")
    for f in body.get("failures", []):
        case = f.get("case") or {}
        if "const" in case:
            print("parse_const_value", repr(case["const"]), "->", real_parse_const(case["const"]))
        elif "model_output" in case:
            print(case["model_output"], "->", real_parse_model(case["model_output"]))
        elif "render" in case:
            from harness import c04_render

            o = c04_render.run_model(case["render"]["vars"], case["render"]["syntax"])
            print("solver's model:", [(v["name"], hex(v["value"])) for v in case["render"]["vars"]], "\nprinted:", o["str"], "\nreads back as:",
                  [(n, hex(x)) for n, x in (c04_render.read_cex(o["str"]) or [])])
        elif "scripted" in case:
            print(case["scripted"], "->", run_scripted(case["scripted"], td))
        elif "inv" in case:
            from harness import c04_l3

            o = c04_l3.run_inv_scenario(case["inv"])
            print(case["inv"], "->", o["status"], [(mm["valid"], mm["vals"], "reproduces" if c04_l3.inv_replay(case["inv"], mm["vals"]) else "DOES NOT REPRODUCE") for mm in o["models"]])
        elif "path" in case:
            from harness import c04_path

            print(case["path"], "->", c04_path.run_path_case(case["path"]))
        elif "handler" in case:
            from harness import c04_handler

            print(case["handler"], "->", c04_handler.run_callback(case["handler"], td))
        elif "kill" in case:
            from harness import c04_handler

            o = c04_handler.run_kill_scenario(case["kill"], td)
            print(case["kill"], "->", o, "allowed as valid:", c04_handler.allowed_valid(case["kill"]))
        elif "l3" in case:
            from harness import c04_l3

            for k, o in enumerate(c04_l3.run_scenario(case["l3"])):
                print(f"run {k + 1}:", {sig: {"status": t["status"], "valid models": [mm["y"] for mm in t["models"] if mm["valid"]], "only failing input": t["want"]}
                                        for sig, t in o["tests"].items()}, o["dump_files"])
        elif "session" in case:
            sess = case["session"]
            for st, o in zip(sess["steps"], run_session(sess, td)):
                print(st, "\n   directory before:", sorted(o["before"]), "\n   solver was handed:", o.get("asked"), "\n   ->",
                      {k: o.get(k) for k in ("result", "valid", "model", "exc") if k in o}, "\n   this query's answers demand:", fs_spec(st))
        elif "real" in case:
            o = run_real(case["real"], td)
            print(case["real"], "->", {k: o[k] for k in ("result", "valid", "source", "runs", "model")})
    shutil.rmtree(td, ignore_errors=True)
    return 0
