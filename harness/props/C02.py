"""C02 — no feasible behaviour is dropped during exploration.

Obligations: T-jumpi / T-consts, Props/C02.vo (completeness of the mini-SEVM model under a
sound oracle that may answer `unknown` at will; branch-cover theorems over the regenerated
jumpi decision function), lint.
Tie X-C02 (L2): the same machinery as C01 in the other direction: every concrete input
(models of every path, boundary, random) must satisfy the constraints of at least one
reported path unless the run is flagged (loop bound / depth) or a path is stuck; run under
--solver-timeout-branching in {0, 1 ms, 10 s}, --loop in {1,2,3}, and with a fraction of the
solver's definite answers replaced by `unknown` (legal oracle behaviour).
Tie X-C02-bp: the branch points other than JUMPI (address aliases, insufficient-funds fork, symbolic
JUMP): T-branchpts regenerates their decision functions from sevm.py (Gen/GenBranch.v, used by
Model/BranchPoints.v and the C02_alias_* / C02_funds_* / C02_symjump_* theorems), and harness/bptie.py
runs the real resolve_address_alias / handle_insufficient_fund_case + transfer_value / symbolic-JUMP arm
and the extracted model on the same finite-valuation states (complete and always-unknown oracle).
"""
from harness import common
from harness.props import C01

PID = "C02"
TRANSLATORS = ["T-jumpi", "T-consts", "T-branchpts", "T-assertbranch"]

OPTIONS = [{}, {"solver_timeout_branching": 0}, {"solver_timeout_branching": 10000}, {"loop": 1}, {"loop": 3}, {"solver_timeout_branching": 10000, "loop": 1}]
PLAN_QUICK = [("branch", 18), ("memory", 6), ("storage", 10), ("hash", 8), ("loop", 12), ("call", 10), ("create", 6), ("symtarget", 24), ("valuecall", 18), ("callfail", 8), ("corr", 24), ("symloop", 10), ("hashcond", 16), ("symstore", 16), ("create2", 8)]
PLAN_THOROUGH = [("straight", 60), ("branch", 240), ("memory", 80), ("storage", 120), ("hash", 120), ("loop", 160), ("call", 160), ("create", 80), ("symtarget", 300), ("valuecall", 240), ("callfail", 100), ("corr", 300), ("symloop", 150), ("hashcond", 200), ("symstore", 200), ("create2", 120)]


def run(rep, tier):
    b = common.build_property(PID, TRANSLATORS)
    common.standard_obligations(rep, PID, b)
    plan = PLAN_QUICK if tier == "quick" else PLAN_THOROUGH
    try:
        from harness import bptie

        bptie.run(rep, tier, common.rng(PID + "-bp"))
        C01.run_tie(rep, tier, plan, PID + "-a", PID, "c02", options_list=OPTIONS, with_model=False, corpus=True)
        C01.run_tie(rep, tier, [("symjump", 10 if tier == "quick" else 150)], PID + "-j", PID, "c02", options_list=[{"symbolic_jump": True}], with_model=False)
        # legal oracle behaviour: 30 % of definite solver answers become `unknown`
        half = [(p, max(2, n // 3)) for p, n in plan if p in ("branch", "loop", "storage", "call", "symtarget")] + [(p, n) for p, n in plan if p == "valuecall"]
        C01.run_tie(rep, tier, half, PID + "-b", PID, "c02", options_list=[{}, {"loop": 3}], patch_unknown=0.3, with_model=False, corpus=True)
    except RuntimeError as e:
        rep.obligation("extracted reference interpreter driver builds", False, str(e)[-600:])
        rep.fail("broken-tie", f"extracted drivers do not build: {str(e)[-400:]}", case={})
    return rep.finish(
        checker_cmd="make -C coq Props/C02.vo (coqc 8.16.1) after regenerating coq/Gen/GenJumpi.v from SEVM.jumpi in /repo/src/halmos/sevm.py",
        trusted_base=common.TRUSTED_BASE_COMMON,
        assumptions=C01.ASSUMPTIONS + ["oracle soundness: a z3 `unsat` answer is truthful (the only hypothesis of theorem C02_complete)"],
        partial=C01.PARTIAL + " Address-alias, size-candidate and insufficient-funds branching are covered by the correspondence run only (no Coq model yet).",
        rule="cases = assembled programs (branching, loops with concrete and symbolic trip counts, storage, hashing, calls, creations) x options (--solver-timeout-branching 0 / 1ms / 10s, --loop 1/2/3) and a second pass where 30% of the solver's definite answers are replaced by unknown; per program: concrete inputs = z3 models of every reported path + boundary perturbations + random; an input not satisfying any reported path is a violation unless the run logged a loop bound / depth cut, crashed (ERROR status) or reported a stuck path. Non-trivial: >1 path or >=1 evaluated (path,input) pair; distinct by program hash",
    )


def replay(rep, body):
    return C01.replay(rep, body)
